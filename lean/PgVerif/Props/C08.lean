/-
C08 — the SQLite store behaves as a keyed collection over any operation history.

All statements are about `runOp db mem op fault : Result` of `PgVerif.Model.Store`; the fault-free call is `fault = none`.
The program logic and the fault-free `exec` lemmas are in `PgVerif.Lemmas.Store`.
-/
import PgVerif.Model.Store
import PgVerif.Lemmas.Store
import Mathlib.Tactic

set_option linter.unusedSimpArgs false

namespace PgVerif.C08
open PgVerif.Model.Store PgVerif.StoreL

/-- the empty store is well formed -/
theorem empty_wellFormed : Db.empty.wellFormed = true := by decide

/-! ### referential integrity as a proposition, and its preservation by every single statement -/

/-- `Db.wellFormed` as a proposition -/
structure WF (db : Db) : Prop where
  adsProps : ∀ r ∈ db.adsProps, r.1 ∈ db.ads ∧ r.2.1 ∈ db.adsTypes.map (·.1)
  matProps : ∀ r ∈ db.matProps, r.1 ∈ db.mats ∧ r.2.1 ∈ db.matTypes.map (·.1)
  isos : ∀ r ∈ db.isos, r.2.1 ∈ db.isoTypes.map (·.1) ∧ r.2.2.1 ∈ db.mats ∧ r.2.2.2.1 ∈ db.ads
  isoProps : ∀ r ∈ db.isoProps, r.1 ∈ db.isos.map (·.1)
  isoData : ∀ r ∈ db.isoData, r.1 ∈ db.isos.map (·.1)

lemma any_fst_eq {α β : Type} [BEq α] [LawfulBEq α] (l : List (α × β)) (t : α) :
    (l.any (·.1 == t)) = true ↔ t ∈ l.map (·.1) := by
  simp only [List.any_eq_true, beq_iff_eq, List.mem_map]

lemma mem_map_fst_filter_ne {β : Type} (l : List (String × β)) (t x : String) :
    x ∈ (l.filter (fun r => r.1 != t)).map (·.1) ↔ x ∈ l.map (·.1) ∧ x ≠ t := by
  simp only [List.mem_map, List.mem_filter, bne_iff_ne]
  constructor
  · rintro ⟨r, ⟨h1, h2⟩, rfl⟩; exact ⟨⟨r, h1, rfl⟩, h2⟩
  · rintro ⟨⟨r, h1, rfl⟩, h2⟩; exact ⟨r, ⟨h1, h2⟩, rfl⟩

lemma wf_iff (db : Db) : db.wellFormed = true ↔ WF db := by
  constructor
  · intro h
    simp only [Db.wellFormed, Bool.and_eq_true, List.all_eq_true, any_fst_eq, List.contains_iff_mem] at h
    obtain ⟨⟨⟨⟨h1, h2⟩, h3⟩, h4⟩, h5⟩ := h
    exact ⟨h1, h2, fun r hr => by have := h3 r hr; tauto, h4, h5⟩
  · rintro ⟨h1, h2, h3, h4, h5⟩
    simp only [Db.wellFormed, Bool.and_eq_true, List.all_eq_true, any_fst_eq, List.contains_iff_mem]
    exact ⟨⟨⟨⟨h1, h2⟩, fun r hr => by have := h3 r hr; tauto⟩, h4⟩, h5⟩

macro "wf_fin" h:ident : tactic => `(tactic|
  (obtain ⟨h1, h2, h3, h4, h5⟩ := $h
   constructor <;> simp only [List.map_append, List.mem_append, List.map_cons, List.map_nil, List.mem_singleton, mem_map_fst_filter_ne] <;> grind))

lemma wf_insAds (name : Option String) (d : Db) (h : WF d) :
    okP WF anyErr (insAds name d) := by
  unfold insAds insName
  cases name with
  | none => trivial
  | some n =>
    simp only
    split_ifs
    · trivial
    · obtain ⟨h1, h2, h3, h4, h5⟩ := h
      constructor <;> simp only <;> grind


lemma wf_insMat (name : Option String) (d : Db) (h : WF d) :
    okP WF anyErr (insMat name d) := by
  unfold insMat insName
  cases name with
  | none => trivial
  | some n =>
    simp only
    split_ifs
    · trivial
    · wf_fin h

lemma wf_insAdsProp (a t : String) (v : Option String) (d : Db) (h : WF d) :
    okP WF anyErr (insAdsProp a t v d) := by
  unfold insAdsProp
  cases v with
  | none => trivial
  | some v =>
    simp only
    split_ifs with c
    · simp only [Bool.and_eq_true, any_fst_eq, List.contains_iff_mem] at c
      wf_fin h
    · trivial

lemma wf_insMatProp (a t : String) (v : Option String) (d : Db) (h : WF d) :
    okP WF anyErr (insMatProp a t v d) := by
  unfold insMatProp
  cases v with
  | none => trivial
  | some v =>
    simp only
    split_ifs with c
    · simp only [Bool.and_eq_true, any_fst_eq, List.contains_iff_mem] at c
      wf_fin h
    · trivial

lemma wf_insAdsType (t : Option String) (u de : String) (d : Db) (h : WF d) :
    okP WF anyErr (insType3 (·.adsTypes) (fun d l => { d with adsTypes := l }) t u de d) := by
  unfold insType3
  cases t with
  | none => trivial
  | some t =>
    simp only
    split_ifs
    · trivial
    · wf_fin h

lemma wf_insMatType (t : Option String) (u de : String) (d : Db) (h : WF d) :
    okP WF anyErr (insType3 (·.matTypes) (fun d l => { d with matTypes := l }) t u de d) := by
  unfold insType3
  cases t with
  | none => trivial
  | some t =>
    simp only
    split_ifs
    · trivial
    · wf_fin h

lemma wf_updAdsType (t : Option String) (u de : String) (d : Db) (h : WF d) :
    okP WF anyErr (updType3 (·.adsTypes) (fun d l => { d with adsTypes := l }) t u de d) := by
  unfold updType3
  cases t with
  | none => exact h
  | some t =>
    simp only
    wf_fin h


lemma wf_updMatType (t : Option String) (u de : String) (d : Db) (h : WF d) :
    okP WF anyErr (updType3 (·.matTypes) (fun d l => { d with matTypes := l }) t u de d) := by
  unfold updType3
  cases t with
  | none => exact h
  | some t =>
    simp only
    wf_fin h

lemma wf_insIsoType (t : Option String) (de : String) (d : Db) (h : WF d) :
    okP WF anyErr (insIsoType t de d) := by
  unfold insIsoType
  cases t with
  | none => trivial
  | some t =>
    simp only
    split_ifs
    · trivial
    · wf_fin h

lemma wf_updIsoType (t : Option String) (de : String) (d : Db) (h : WF d) :
    okP WF anyErr (updIsoType t de d) := by
  unfold updIsoType
  cases t with
  | none => exact h
  | some t =>
    simp only
    wf_fin h

lemma wf_delAds (a : String) (d : Db) (h : WF d) :
    okP WF anyErr (delAds a d) := by
  unfold delAds
  split_ifs with c
  · trivial
  · simp only [Bool.or_eq_true, any_fst_eq, List.any_eq_true, beq_iff_eq, not_or, not_exists, not_and] at c
    wf_fin h

lemma wf_delMat (a : String) (d : Db) (h : WF d) :
    okP WF anyErr (delMat a d) := by
  unfold delMat
  split_ifs with c
  · trivial
  · simp only [Bool.or_eq_true, any_fst_eq, List.any_eq_true, beq_iff_eq, not_or, not_exists, not_and] at c
    wf_fin h

lemma wf_delAdsType (t : String) (d : Db) (h : WF d) :
    okP WF anyErr (delAdsType t d) := by
  unfold delAdsType
  split_ifs with c
  · trivial
  · simp only [List.any_eq_true, beq_iff_eq, not_exists, not_and] at c
    wf_fin h

lemma wf_delMatType (t : String) (d : Db) (h : WF d) :
    okP WF anyErr (delMatType t d) := by
  unfold delMatType
  split_ifs with c
  · trivial
  · simp only [List.any_eq_true, beq_iff_eq, not_exists, not_and] at c
    wf_fin h

lemma wf_delIsoType (t : String) (d : Db) (h : WF d) :
    okP WF anyErr (delIsoType t d) := by
  unfold delIsoType
  split_ifs with c
  · trivial
  · simp only [List.any_eq_true, beq_iff_eq, not_exists, not_and] at c
    wf_fin h

lemma wf_insIso (id ty : String) (mat ads temp : Option String) (d : Db) (h : WF d) :
    okP WF anyErr (insIso id ty mat ads temp d) := by
  unfold insIso
  cases mat <;> cases ads <;> cases temp <;> simp only [] <;> try trivial
  split_ifs with c1 c2
  · trivial
  · simp only [Bool.and_eq_true, any_fst_eq, List.contains_iff_mem] at c2
    wf_fin h
  · trivial

lemma wf_insIsoProp (id t : String) (v : PVal) (d : Db) (h : WF d) :
    okP WF anyErr (insIsoProp id t v d) := by
  unfold insIsoProp
  cases v with
  | unsupported => trivial
  | null => trivial
  | val s =>
    simp only
    split_ifs with c
    · simp only [any_fst_eq] at c
      wf_fin h
    · trivial

lemma wf_insIsoData (id t dt da : String) (d : Db) (h : WF d) :
    okP WF anyErr (insIsoData id t dt da d) := by
  unfold insIsoData
  split_ifs with c
  · simp only [any_fst_eq] at c
    wf_fin h
  · trivial

lemma wf_filterAdsProps (nm : String) (d : Db) (h : WF d) :
    okP WF anyErr (Except.ok { d with adsProps := d.adsProps.filter (·.1 != nm) } : Except SqlErr Db) := by
  rw [okP_ok]
  wf_fin h

lemma wf_filterMatProps (nm : String) (d : Db) (h : WF d) :
    okP WF anyErr (Except.ok { d with matProps := d.matProps.filter (·.1 != nm) } : Except SqlErr Db) := by
  rw [okP_ok]
  wf_fin h


/-! ### every fault-free operation preserves well-formedness -/

macro "wf_disch" : tactic => `(tactic|
  first
    | exact wf_insAds _ | exact wf_insMat _ | exact wf_insAdsProp _ _ _ | exact wf_insMatProp _ _ _
    | exact wf_insAdsType _ _ _ | exact wf_insMatType _ _ _ | exact wf_updAdsType _ _ _ | exact wf_updMatType _ _ _
    | exact wf_insIsoType _ _ | exact wf_updIsoType _ _ | exact wf_delAds _ | exact wf_delMat _
    | exact wf_delAdsType _ | exact wf_delMatType _ | exact wf_delIsoType _ | exact wf_insIso _ _ _ _ _
    | exact wf_insIsoProp _ _ _ | exact wf_insIsoData _ _ _ _ | exact wf_filterAdsProps _ | exact wf_filterMatProps _)


lemma wfRel_adsToDb (name props ai ow) : Inv anyErr WF (adsToDb name props ai ow) := by
  unfold adsToDb
  sql_inv [wf_disch] [trivial]

lemma wfRel_matToDb (name props ai ow) : Inv anyErr WF (matToDb name props ai ow) := by
  unfold matToDb
  sql_inv [wf_disch] [trivial]

lemma wfRel_adsDelete (name) : Inv anyErr WF (adsDelete name) := by
  unfold adsDelete
  sql_inv [wf_disch] [trivial]

lemma wfRel_matDelete (name) : Inv anyErr WF (matDelete name) := by
  unfold matDelete
  sql_inv [wf_disch] [trivial]

lemma wfRel_typeToDb (tb t u d o) : Inv anyErr WF (typeToDb tb t u d o) := by
  unfold typeToDb
  cases o <;> sql_inv [wf_disch] [trivial]

lemma wfRel_typeDelete (tb t) : Inv anyErr WF (typeDelete tb t) := by
  unfold typeDelete
  sql_inv [wf_disch] [trivial]


lemma wfRel_isoPropTypeOp (w) : Inv anyErr WF (isoPropTypeOp w) := by
  unfold isoPropTypeOp
  exact Inv.writeStmt _ (fun _ _ => trivial)

lemma wfRel_isoToDb (i am aa) : Inv anyErr WF (isoToDb i am aa) := by
  unfold isoToDb
  repeat (first
    | with_reducible exact Inv.pure _
    | with_reducible exact Inv.readStmt _ | with_reducible exact Inv.modifyMem _
    | with_reducible exact wfRel_adsToDb _ _ _ _ | with_reducible exact wfRel_matToDb _ _ _ _
    | with_reducible refine Inv.writeStmt _ (by wf_disch)
    | with_reducible apply Inv.bind | with_reducible apply Inv.ite | with_reducible apply Inv.forIn
    | with_reducible intro _
    | (split)
    | dsimp only)

/-- the fault-free `isoDelete`, computed -/
lemma exec_isoDelete_none (id : String) (db : Db) (mem : Mem) (n : Nat) :
    exec (isoDelete id) ⟨db, mem, n, none⟩ =
      if db.isos.any (·.1 == id) then
        (.ok (), ⟨{ db with isoData := db.isoData.filter (·.1 != id), isoProps := db.isoProps.filter (·.1 != id),
                            isos := db.isos.filter (·.1 != id) }, mem, n + 4, none⟩)
      else (.error .integrity, ⟨db, mem, n + 1, none⟩) := by
  unfold isoDelete
  by_cases h : db.isos.any (·.1 == id) = true
  · simp [exec_bind, exec_writeStmt_none, h]
  · simp [exec_bind, exec_writeStmt_none, h]

lemma wf_isoDelete_result (id : String) (d : Db) (h : WF d) :
    WF { d with isoData := d.isoData.filter (·.1 != id), isoProps := d.isoProps.filter (·.1 != id),
                isos := d.isos.filter (·.1 != id) } := by
  obtain ⟨h1, h2, h3, h4, h5⟩ := h
  constructor <;> simp only [mem_map_fst_filter_ne, List.mem_filter, bne_iff_ne] <;> grind

/-- **every fault-free operation body that returns normally maps a well-formed working copy to a well-formed one** -/
theorem wf_opBody (op : Op) (db : Db) (mem : Mem) (n : Nat) (h : WF db)
    (hok : (exec op.body ⟨db, mem, n, none⟩).1 = .ok ()) : WF (exec op.body ⟨db, mem, n, none⟩).2.db := by
  have key : ∀ {p : Sql Unit}, Inv anyErr WF p → (exec p ⟨db, mem, n, none⟩).1 = .ok () →
      WF (exec p ⟨db, mem, n, none⟩).2.db := by
    intro p hp hk
    rcases hp ⟨db, mem, n, none⟩ rfl h with ⟨e, _, he⟩ | ⟨_, _, _, h2⟩
    · rw [hk] at he; cases he
    · exact h2
  cases op with
  | adsToDb n p a o => exact key (wfRel_adsToDb n p a o) hok
  | matToDb n p a o => exact key (wfRel_matToDb n p a o) hok
  | adsDelete n => exact key (wfRel_adsDelete n) hok
  | matDelete n => exact key (wfRel_matDelete n) hok
  | typeToDb tb t u d o => exact key (wfRel_typeToDb tb t u d o) hok
  | typeDelete tb t => exact key (wfRel_typeDelete tb t) hok
  | isoToDb i am aa => exact key (wfRel_isoToDb i am aa) hok
  | isoPropTypeOp w => exact key (wfRel_isoPropTypeOp w) hok
  | isoDelete id =>
    simp only [Op.body] at hok ⊢
    rw [exec_isoDelete_none] at hok ⊢
    split_ifs at hok ⊢ with c
    · exact wf_isoDelete_result id db h



/-! ### general theorems -/

/-- A refused (or otherwise unsuccessful) fault-free call changes nothing. -/
theorem refused_changes_nothing (db : Db) (mem : Mem) (op : Op) :
    (runOp db mem op none).out ≠ .ok → (runOp db mem op none).db = db := by
  obtain ⟨h1, h2⟩ := runOp_none db mem op
  rw [h1, h2]
  rcases (exec op.body ⟨db, mem, 1, none⟩).1 with e | a
  · intro _; rfl
  · intro h; exact absurd rfl h

/-- The result for the target file (committed content and outcome) is a function of that file's content and of the
operation only: it does not depend on the process-global lists, i.e. on uploads earlier in the session; other
database files are not even an input of `runOp`. -/
theorem outcome_depends_only_on_file (db : Db) (mem₁ mem₂ : Mem) (op : Op) (f : Option (Nat × FaultKind)) :
    (runOp db mem₁ op f).db = (runOp db mem₂ op f).db ∧ (runOp db mem₁ op f).out = (runOp db mem₂ op f).out := by
  rw [runOp_eq, runOp_eq]
  rcases rel_prog (fun b => memR_stmt b) memR_modifyMem op ⟨db, mem₁, 0, f⟩ ⟨db, mem₂, 0, f⟩ ⟨rfl, rfl, rfl⟩ with
    ⟨_, h, _⟩ | ⟨h1, h2, h3, _⟩
  · exact h.elim
  · have := finish_congr db mem₁ mem₂ f _ _ h1 h2 h3
    exact ⟨this.1, this.2.1⟩

/-! ### no orphans, ever -/

/-- the fault-free call preserves referential integrity -/
theorem wellFormed_preserved_none (db : Db) (mem : Mem) (op : Op) (h : db.wellFormed = true) :
    (runOp db mem op none).db.wellFormed = true := by
  rw [(runOp_none db mem op).2]
  rcases hr : (exec op.body ⟨db, mem, 1, none⟩).1 with e | a
  · exact h
  · exact (wf_iff _).2 (wf_opBody op db mem 1 ((wf_iff _).1 h) hr)

/-- **Referential integrity is preserved by every operation under every fault** (isotherms reference existing
material / adsorbate / type; property and data rows reference existing owners). -/
theorem wellFormed_preserved (db : Db) (mem : Mem) (op : Op) (fault : Option (Nat × FaultKind))
    (h : db.wellFormed = true) : (runOp db mem op fault).db.wellFormed = true := by
  rcases fault with _ | ⟨k, kind⟩
  · exact wellFormed_preserved_none db mem op h
  · rcases runOp_atomic db mem op k kind with h' | h'
    · rw [h']; exact h
    · rw [h']; exact wellFormed_preserved_none db mem op h

/-- one step of a history: the call sees the committed file and the current process-global lists -/
def step (s : Db × Mem) (c : Op × Option (Nat × FaultKind)) : Db × Mem :=
  ((runOp s.1 s.2 c.1 c.2).db, (runOp s.1 s.2 c.1 c.2).mem)

/-- **History lifting**: any sequence of operations, each with any fault, from a well-formed file leaves a well-formed file. -/
theorem history_wellFormed (h : List (Op × Option (Nat × FaultKind))) (db : Db) (mem : Mem)
    (hw : db.wellFormed = true) : (h.foldl step (db, mem)).1.wellFormed = true := by
  induction h generalizing db mem with
  | nil => exact hw
  | cons c h ih =>
    rw [List.foldl_cons]
    exact ih _ _ (wellFormed_preserved db mem c.1 c.2 hw)

/-- in particular starting from the empty file -/
theorem history_wellFormed_from_empty (h : List (Op × Option (Nat × FaultKind))) (mem : Mem) :
    (h.foldl step (Db.empty, mem)).1.wellFormed = true :=
  history_wellFormed h _ _ empty_wellFormed

/-- the committed file after a history does not depend on the initial process-global lists -/
theorem history_db_independent_of_mem (h : List (Op × Option (Nat × FaultKind))) (db : Db) (mem₁ mem₂ : Mem) :
    (h.foldl step (db, mem₁)).1 = (h.foldl step (db, mem₂)).1 := by
  induction h generalizing db mem₁ mem₂ with
  | nil => rfl
  | cons c h ih =>
    rw [List.foldl_cons, List.foldl_cons]
    unfold step
    simp only
    rw [(outcome_depends_only_on_file db mem₁ mem₂ c.1 c.2).1]
    exact ih _ _ _


/-! ### the structure of `isotherm_to_db` -/

/-- the property-row loop of `isotherm_to_db` -/
def isoPropLoop (id : String) (props : List (String × PVal)) : Sql PUnit :=
  forIn props PUnit.unit fun x _ =>
    match x with
    | (t, v) => do
      writeStmt (insIsoProp id t v)
      pure (ForInStep.yield PUnit.unit)

/-- the data-row loop of `isotherm_to_db` -/
def isoDataLoop (id : String) (data : List (String × String × String)) : Sql PUnit :=
  forIn data PUnit.unit fun x _ =>
    match x with
    | (t, dt, d) => do
      writeStmt (insIsoData id t dt d)
      pure (ForInStep.yield PUnit.unit)

/-- the tail of `isotherm_to_db`: the isotherm row, its property rows, its data rows -/
def isoTail (i : IsoIn) : Sql Unit := do
  writeStmt (insIso i.id i.isoType i.material i.adsorbate i.temperature)
  isoPropLoop i.id i.props
  isoDataLoop i.id i.data
  pure ()

/-- the adsorbate auto-insertion step followed by the tail -/
def isoAdsPart (i : IsoIn) (autoAds : Bool) : Sql Unit :=
  if autoAds then do
    let known ← readStmt fun db => db.ads.contains (i.adsorbate.getD "")
    if !known then do
      adsToDb i.adsorbate i.adsProps true false
      isoTail i
    else isoTail i
  else isoTail i

lemma isoToDb_eq (i : IsoIn) (autoMat autoAds : Bool) :
    isoToDb i autoMat autoAds =
      if autoMat then do
        let known ← readStmt fun db => db.mats.contains (i.material.getD "")
        if !known then do
          matToDb i.material i.matProps true false
          isoAdsPart i autoAds
        else isoAdsPart i autoAds
      else isoAdsPart i autoAds := by
  rfl


/-- only `IntegrityError` may escape -/
abbrev isInt : SqlErr → Prop := fun e => e = .integrity

/-- frame of `adsorbate_to_db`: materials, isotherm types and isotherms are untouched -/
def PA (M : List String) (T : List (String × String)) (I : List (String × String × String × String × String)) (d : Db) : Prop :=
  d.mats = M ∧ d.isoTypes = T ∧ d.isos = I

/-- frame of `material_to_db`: adsorbates, isotherm types and isotherms are untouched -/
def PM (A : List String) (T : List (String × String)) (I : List (String × String × String × String × String)) (d : Db) : Prop :=
  d.ads = A ∧ d.isoTypes = T ∧ d.isos = I

section frame
variable {M A : List String} {T : List (String × String)} {I : List (String × String × String × String × String)}

lemma pa_insAds (name : Option String) (d : Db) (h : PA M T I d) : okP (PA M T I) isInt (insAds name d) := by
  unfold insAds insName
  cases name with
  | none => rfl
  | some n => simp only; split_ifs; · rfl
              · exact h

lemma pa_filter (nm : String) (d : Db) (h : PA M T I d) :
    okP (PA M T I) isInt (Except.ok { d with adsProps := d.adsProps.filter (·.1 != nm) } : Except SqlErr Db) := h

lemma pa_insType (t : Option String) (u de : String) (d : Db) (h : PA M T I d) :
    okP (PA M T I) isInt (insType3 (·.adsTypes) (fun d l => { d with adsTypes := l }) t u de d) := by
  unfold insType3
  cases t with
  | none => rfl
  | some n => simp only; split_ifs; · rfl
              · exact h

lemma pa_insProp (a t : String) (v : Option String) (d : Db) (h : PA M T I d) : okP (PA M T I) isInt (insAdsProp a t v d) := by
  unfold insAdsProp
  cases v with
  | none => rfl
  | some n => simp only; split_ifs; · exact h
              · rfl

lemma pm_insMat (name : Option String) (d : Db) (h : PM A T I d) : okP (PM A T I) isInt (insMat name d) := by
  unfold insMat insName
  cases name with
  | none => rfl
  | some n => simp only; split_ifs; · rfl
              · exact h

lemma pm_filter (nm : String) (d : Db) (h : PM A T I d) :
    okP (PM A T I) isInt (Except.ok { d with matProps := d.matProps.filter (·.1 != nm) } : Except SqlErr Db) := h

lemma pm_insType (t : Option String) (u de : String) (d : Db) (h : PM A T I d) :
    okP (PM A T I) isInt (insType3 (·.matTypes) (fun d l => { d with matTypes := l }) t u de d) := by
  unfold insType3
  cases t with
  | none => rfl
  | some n => simp only; split_ifs; · rfl
              · exact h

lemma pm_insProp (a t : String) (v : Option String) (d : Db) (h : PM A T I d) : okP (PM A T I) isInt (insMatProp a t v d) := by
  unfold insMatProp
  cases v with
  | none => rfl
  | some n => simp only; split_ifs; · exact h
              · rfl

lemma paRel_adsToDb (name props ai ow) : Inv isInt (PA M T I) (adsToDb name props ai ow) := by
  unfold adsToDb
  sql_inv [first | exact pa_insAds _ | exact pa_filter _ | exact pa_insType _ _ _ | exact pa_insProp _ _ _] [rfl]

lemma pmRel_matToDb (name props ai ow) : Inv isInt (PM A T I) (matToDb name props ai ow) := by
  unfold matToDb
  sql_inv [first | exact pm_insMat _ | exact pm_filter _ | exact pm_insType _ _ _ | exact pm_insProp _ _ _] [rfl]

end frame


/-! ### refusals of `isotherm_to_db` -/

lemma isoTail_fails (i : IsoIn) (db : Db) (mem : Mem) (n : Nat)
    (h : insIso i.id i.isoType i.material i.adsorbate i.temperature db = .error .integrity) :
    (exec (isoTail i) ⟨db, mem, n, none⟩).1 = .error .integrity := by
  unfold isoTail
  rw [exec_bind, exec_writeStmt_error h]

lemma isoAdsPart_fails (i : IsoIn) (aa : Bool) (db : Db) (mem : Mem) (n : Nat)
    (h : ∀ d, (aa = true ∨ d.ads = db.ads) → d.mats = db.mats → d.isoTypes = db.isoTypes → d.isos = db.isos →
      insIso i.id i.isoType i.material i.adsorbate i.temperature d = .error .integrity) :
    (exec (isoAdsPart i aa) ⟨db, mem, n, none⟩).1 = .error .integrity := by
  unfold isoAdsPart
  cases aa with
  | false => exact isoTail_fails i db mem n (h db (Or.inr rfl) rfl rfl rfl)
  | true =>
    simp only [if_true, exec_bind, exec_readStmt_none]
    split_ifs
    · rcases hx : exec (adsToDb i.adsorbate i.adsProps true false) ⟨db, mem, n + 1, none⟩ with ⟨r, w1⟩
      rw [exec_bind, hx]
      rcases paRel_adsToDb (M := db.mats) (T := db.isoTypes) (I := db.isos) i.adsorbate i.adsProps true false
          ⟨db, mem, n + 1, none⟩ rfl ⟨rfl, rfl, rfl⟩ with ⟨e, he, hr⟩ | ⟨a, hr, hf, h1, h2, h3⟩
      · rw [hx] at hr; simp only at hr; subst hr; subst he; rfl
      · rw [hx] at hr hf h1 h2 h3
        simp only at hr hf h1 h2 h3
        subst hr
        obtain ⟨d1, m1, n1, f1⟩ := w1
        simp only at hf h1 h2 h3
        subst hf
        exact isoTail_fails i d1 m1 n1 (h d1 (Or.inl rfl) h1 h2 h3)
    · exact isoTail_fails i db mem (n + 1) (h db (Or.inl rfl) rfl rfl rfl)

/-- the general refusal lemma for `isotherm_to_db`: if the `INSERT INTO isotherms` is rejected in every state the
auto-insertion steps can lead to, the call ends in a `ParsingError` -/
lemma isoToDb_fails (i : IsoIn) (am aa : Bool) (db : Db) (mem : Mem) (n : Nat)
    (h : ∀ d, (am = true ∨ d.mats = db.mats) → (aa = true ∨ d.ads = db.ads) → d.isoTypes = db.isoTypes → d.isos = db.isos →
      insIso i.id i.isoType i.material i.adsorbate i.temperature d = .error .integrity) :
    (exec (isoToDb i am aa) ⟨db, mem, n, none⟩).1 = .error .integrity := by
  rw [isoToDb_eq]
  cases am with
  | false =>
    exact isoAdsPart_fails i aa db mem n fun d h1 h2 h3 h4 => h d (Or.inr h2) h1 h3 h4
  | true =>
    simp only [if_true, exec_bind, exec_readStmt_none]
    split_ifs
    · rcases hx : exec (matToDb i.material i.matProps true false) ⟨db, mem, n + 1, none⟩ with ⟨r, w1⟩
      rw [exec_bind, hx]
      rcases pmRel_matToDb (A := db.ads) (T := db.isoTypes) (I := db.isos) i.material i.matProps true false
          ⟨db, mem, n + 1, none⟩ rfl ⟨rfl, rfl, rfl⟩ with ⟨e, he, hr⟩ | ⟨a, hr, hf, h1, h2, h3⟩
      · rw [hx] at hr; simp only at hr; subst hr; subst he; rfl
      · rw [hx] at hr hf h1 h2 h3
        simp only at hr hf h1 h2 h3
        subst hr
        obtain ⟨d1, m1, n1, f1⟩ := w1
        simp only at hf h1 h2 h3
        subst hf
        refine isoAdsPart_fails i aa d1 m1 n1 fun d g1 g2 g3 g4 => h d (Or.inl rfl) ?_ (g3.trans h2) (g4.trans h3)
        rcases g1 with g1 | g1
        · exact Or.inl g1
        · exact Or.inr (g1.trans h1)
    · exact isoAdsPart_fails i aa db mem (n + 1) fun d h1 h2 h3 h4 => h d (Or.inl rfl) h1 h3 h4


/-! ### refusal rules (fault-free calls; each outcome is `ParsingError`, and by `refused_changes_nothing` nothing changes) -/

/-- names of the rows of the property-type table addressed by `table` (`"adsorbate"`, `"material"`, anything else = isotherm types) -/
def typeNames (db : Db) (table : String) : List String :=
  match table with
  | "adsorbate" => db.adsTypes.map (·.1)
  | "material" => db.matTypes.map (·.1)
  | _ => db.isoTypes.map (·.1)

lemma any_fst_false {β : Type} (l : List (String × β)) (t : String) (h : t ∉ l.map (·.1)) :
    (l.any (·.1 == t)) = false := by
  rw [Bool.eq_false_iff, Ne, any_fst_eq]; exact h

theorem duplicate_adsorbate_refused (db : Db) (mem : Mem) (nm : String) (props : List (String × List (Option String)))
    (ai : Bool) (h : nm ∈ db.ads) :
    (runOp db mem (.adsToDb (some nm) props ai false) none).out = .parsingError := by
  rw [(runOp_none _ _ _).1]
  simp [Op.body, adsToDb, exec_bind, exec_writeStmt_none, insAds, insName, h, outcomeOf]

theorem duplicate_material_refused (db : Db) (mem : Mem) (nm : String) (props : List (String × List (Option String)))
    (ai : Bool) (h : nm ∈ db.mats) :
    (runOp db mem (.matToDb (some nm) props ai false) none).out = .parsingError := by
  rw [(runOp_none _ _ _).1]
  simp [Op.body, matToDb, exec_bind, exec_writeStmt_none, insMat, insName, h, outcomeOf]

/-- an upload without a name (NOT NULL) is refused -/
theorem null_name_refused (db : Db) (mem : Mem) (props : List (String × List (Option String))) (ai : Bool) :
    (runOp db mem (.adsToDb none props ai false) none).out = .parsingError ∧
    (runOp db mem (.matToDb none props ai false) none).out = .parsingError := by
  constructor
  · rw [(runOp_none _ _ _).1]
    simp [Op.body, adsToDb, exec_bind, exec_writeStmt_none, insAds, insName, outcomeOf]
  · rw [(runOp_none _ _ _).1]
    simp [Op.body, matToDb, exec_bind, exec_writeStmt_none, insMat, insName, outcomeOf]

/-- overwriting an adsorbate / material that is not in the file is refused -/
theorem overwrite_absent_refused (db : Db) (mem : Mem) (name : Option String) (props : List (String × List (Option String)))
    (ai : Bool) :
    (name.getD "" ∉ db.ads → (runOp db mem (.adsToDb name props ai true) none).out = .parsingError) ∧
    (name.getD "" ∉ db.mats → (runOp db mem (.matToDb name props ai true) none).out = .parsingError) := by
  constructor
  · intro h
    rw [(runOp_none _ _ _).1]
    simp [Op.body, adsToDb, exec_bind, h, outcomeOf]
  · intro h
    rw [(runOp_none _ _ _).1]
    simp [Op.body, matToDb, exec_bind, h, outcomeOf]

/-- deleting an absent adsorbate, material, isotherm or property type is refused -/
theorem delete_absent_refused (db : Db) (mem : Mem) :
    (∀ nm, nm ∉ db.ads → (runOp db mem (.adsDelete nm) none).out = .parsingError) ∧
    (∀ nm, nm ∉ db.mats → (runOp db mem (.matDelete nm) none).out = .parsingError) ∧
    (∀ id, id ∉ db.isos.map (·.1) → (runOp db mem (.isoDelete id) none).out = .parsingError) ∧
    (∀ table t, t ∉ typeNames db table → (runOp db mem (.typeDelete table t) none).out = .parsingError) := by
  refine ⟨?_, ?_, ?_, ?_⟩
  · intro nm h
    rw [(runOp_none _ _ _).1]
    simp [Op.body, adsDelete, exec_bind, h, outcomeOf]
  · intro nm h
    rw [(runOp_none _ _ _).1]
    simp [Op.body, matDelete, exec_bind, h, outcomeOf]
  · intro id h
    rw [(runOp_none _ _ _).1]
    simp only [Op.body, exec_isoDelete_none, any_fst_false _ _ h]
    simp [outcomeOf]
  · intro table t h
    rw [(runOp_none _ _ _).1]
    unfold typeNames at h
    simp only [Op.body, typeDelete, exec_bind, exec_readStmt_none]
    split at h <;> simp [any_fst_false _ _ h, outcomeOf, exec_bind]



/-- deleting an adsorbate or a material that an isotherm still references is refused -/
theorem delete_referenced_refused (db : Db) (mem : Mem) (nm : String)
    (r : String × String × String × String × String) (hr : r ∈ db.isos) :
    (nm ∈ db.ads → r.2.2.2.1 = nm → (runOp db mem (.adsDelete nm) none).out = .parsingError) ∧
    (nm ∈ db.mats → r.2.2.1 = nm → (runOp db mem (.matDelete nm) none).out = .parsingError) := by
  constructor
  · intro h hr2
    rw [(runOp_none _ _ _).1]
    have : (db.isos.any fun r => r.2.2.2.1 == nm) = true := by
      rw [List.any_eq_true]; exact ⟨r, hr, by simp [hr2]⟩
    simp [Op.body, adsDelete, exec_bind, h, outcomeOf, exec_writeStmt_none, delAds, this]
  · intro h hr2
    rw [(runOp_none _ _ _).1]
    have : (db.isos.any fun r => r.2.2.1 == nm) = true := by
      rw [List.any_eq_true]; exact ⟨r, hr, by simp [hr2]⟩
    simp [Op.body, matDelete, exec_bind, h, outcomeOf, exec_writeStmt_none, delMat, this]

/-- deleting a property type still used by a property row, or an isotherm type still used by an isotherm, is refused -/
theorem type_delete_referenced_refused (db : Db) (mem : Mem) (t : String) :
    (t ∈ db.adsProps.map (·.2.1) → (runOp db mem (.typeDelete "adsorbate" t) none).out = .parsingError) ∧
    (t ∈ db.matProps.map (·.2.1) → (runOp db mem (.typeDelete "material" t) none).out = .parsingError) ∧
    (∀ table, table ≠ "adsorbate" → table ≠ "material" → t ∈ db.isos.map (·.2.1) →
      (runOp db mem (.typeDelete table t) none).out = .parsingError) := by
  refine ⟨?_, ?_, ?_⟩
  · intro h
    have h' : (db.adsProps.any fun r => r.2.1 == t) = true := by
      obtain ⟨r, hr, rfl⟩ := List.mem_map.1 h
      rw [List.any_eq_true]; exact ⟨r, hr, by simp⟩
    rw [(runOp_none _ _ _).1]
    simp only [Op.body, typeDelete, exec_bind, exec_readStmt_none]
    by_cases c : (db.adsTypes.any fun x => x.1 == t) = true <;>
      simp [c, outcomeOf, exec_bind, exec_writeStmt_none, delAdsType, h']
  · intro h
    have h' : (db.matProps.any fun r => r.2.1 == t) = true := by
      obtain ⟨r, hr, rfl⟩ := List.mem_map.1 h
      rw [List.any_eq_true]; exact ⟨r, hr, by simp⟩
    rw [(runOp_none _ _ _).1]
    simp only [Op.body, typeDelete, exec_bind, exec_readStmt_none]
    by_cases c : (db.matTypes.any fun x => x.1 == t) = true <;>
      simp [c, outcomeOf, exec_bind, exec_writeStmt_none, delMatType, h']
  · intro table h1 h2 h
    have h' : (db.isos.any fun r => r.2.1 == t) = true := by
      obtain ⟨r, hr, rfl⟩ := List.mem_map.1 h
      rw [List.any_eq_true]; exact ⟨r, hr, by simp⟩
    rw [(runOp_none _ _ _).1]
    simp only [Op.body, typeDelete, exec_bind, exec_readStmt_none]
    by_cases c : (db.isoTypes.any fun x => x.1 == t) = true <;>
      simp [c, outcomeOf, exec_bind, exec_writeStmt_none, delIsoType, h', h1, h2]

/-- an isotherm whose id is already stored is refused, whatever the auto-insertion flags -/
theorem duplicate_isotherm_refused (db : Db) (mem : Mem) (i : IsoIn) (am aa : Bool) (h : i.id ∈ db.isos.map (·.1)) :
    (runOp db mem (.isoToDb i am aa) none).out = .parsingError := by
  rw [(runOp_none _ _ _).1]
  simp only [Op.body]
  rw [isoToDb_fails i am aa db mem 1]
  · rfl
  · intro d _ _ _ h4
    unfold insIso
    have : (d.isos.any fun x => x.1 == i.id) = true := by rw [h4, any_fst_eq]; exact h
    cases i.material <;> cases i.adsorbate <;> cases i.temperature <;> simp [this]

/-- an isotherm referencing an unknown material (without material auto-insertion), an unknown adsorbate (without adsorbate
auto-insertion), or an unknown isotherm type is refused; so is one lacking material, adsorbate or temperature -/
theorem unknown_reference_refused (db : Db) (mem : Mem) (i : IsoIn) :
    (∀ aa, (∀ m, i.material = some m → m ∉ db.mats) → (runOp db mem (.isoToDb i false aa) none).out = .parsingError) ∧
    (∀ am, (∀ a, i.adsorbate = some a → a ∉ db.ads) → (runOp db mem (.isoToDb i am false) none).out = .parsingError) ∧
    (∀ am aa, i.isoType ∉ db.isoTypes.map (·.1) → (runOp db mem (.isoToDb i am aa) none).out = .parsingError) ∧
    (∀ am aa, i.temperature = none → (runOp db mem (.isoToDb i am aa) none).out = .parsingError) := by
  refine ⟨?_, ?_, ?_, ?_⟩
  · intro aa h
    rw [(runOp_none _ _ _).1]
    simp only [Op.body]
    rw [isoToDb_fails i false aa db mem 1]
    · rfl
    · intro d h1 _ _ _
      have h1 : d.mats = db.mats := by simpa using h1
      unfold insIso
      rcases hm : i.material with _ | m <;> cases i.adsorbate <;> cases i.temperature <;> simp
      have := h m hm
      simp [h1, this]
  · intro am h
    rw [(runOp_none _ _ _).1]
    simp only [Op.body]
    rw [isoToDb_fails i am false db mem 1]
    · rfl
    · intro d _ h2 _ _
      have h2 : d.ads = db.ads := by simpa using h2
      unfold insIso
      cases i.material <;> rcases ha : i.adsorbate with _ | a <;> cases i.temperature <;> simp
      have := h a ha
      simp [h2, this]
  · intro am aa h
    rw [(runOp_none _ _ _).1]
    simp only [Op.body]
    rw [isoToDb_fails i am aa db mem 1]
    · rfl
    · intro d _ _ h3 _
      unfold insIso
      have : (d.isoTypes.any fun x => x.1 == i.isoType) = false := by rw [h3]; exact any_fst_false _ _ h
      cases i.material <;> cases i.adsorbate <;> cases i.temperature <;> simp [this]
  · intro am aa h
    rw [(runOp_none _ _ _).1]
    simp only [Op.body]
    rw [isoToDb_fails i am aa db mem 1]
    · rfl
    · intro d _ _ _ _
      unfold insIso
      rw [h]
      cases i.material <;> cases i.adsorbate <;> simp


/-! ### effect rules (fault-free calls; outcome `ok` and the exact new content) -/

lemma any_fst_true {β : Type} (l : List (String × β)) (t : String) (h : t ∈ l.map (·.1)) :
    (l.any (·.1 == t)) = true := (any_fst_eq l t).2 h

lemma any_filter_ne_false {α : Type} (l : List α) (f : α → String) (t : String) :
    ((l.filter fun r => f r != t).any fun r => f r == t) = false := by
  rw [Bool.eq_false_iff, Ne, List.any_eq_true]
  rintro ⟨r, hr, h⟩
  have := (List.mem_filter.1 hr).2
  simp_all

/-- uploading a new property type / isotherm type appends exactly that row; with `overwrite` the row of that name is
replaced in place (an `UPDATE`, which touches nothing else) -/
theorem type_upload (db : Db) (mem : Mem) (t u d : String) :
    (t ∉ db.adsTypes.map (·.1) →
      (runOp db mem (.typeToDb "adsorbate" (some t) u d false) none).out = .ok ∧
      (runOp db mem (.typeToDb "adsorbate" (some t) u d false) none).db = { db with adsTypes := db.adsTypes ++ [(t, u, d)] }) ∧
    (t ∉ db.matTypes.map (·.1) →
      (runOp db mem (.typeToDb "material" (some t) u d false) none).out = .ok ∧
      (runOp db mem (.typeToDb "material" (some t) u d false) none).db = { db with matTypes := db.matTypes ++ [(t, u, d)] }) ∧
    (∀ table, table ≠ "adsorbate" → table ≠ "material" → t ∉ db.isoTypes.map (·.1) →
      (runOp db mem (.typeToDb table (some t) u d false) none).out = .ok ∧
      (runOp db mem (.typeToDb table (some t) u d false) none).db = { db with isoTypes := db.isoTypes ++ [(t, d)] }) ∧
    ((runOp db mem (.typeToDb "adsorbate" (some t) u d true) none).out = .ok ∧
      (runOp db mem (.typeToDb "adsorbate" (some t) u d true) none).db =
        { db with adsTypes := db.adsTypes.map fun r => if r.1 == t then (t, u, d) else r }) ∧
    ((runOp db mem (.typeToDb "material" (some t) u d true) none).out = .ok ∧
      (runOp db mem (.typeToDb "material" (some t) u d true) none).db =
        { db with matTypes := db.matTypes.map fun r => if r.1 == t then (t, u, d) else r }) := by
  refine ⟨?_, ?_, ?_, ?_, ?_⟩
  · intro h
    rw [(runOp_none _ _ _).1, (runOp_none _ _ _).2]
    simp [Op.body, typeToDb, exec_writeStmt_none, insType3, any_fst_false _ _ h, outcomeOf]
  · intro h
    rw [(runOp_none _ _ _).1, (runOp_none _ _ _).2]
    simp [Op.body, typeToDb, exec_writeStmt_none, insType3, any_fst_false _ _ h, outcomeOf]
  · intro table h1 h2 h
    rw [(runOp_none _ _ _).1, (runOp_none _ _ _).2]
    simp [Op.body, typeToDb, exec_writeStmt_none, insIsoType, any_fst_false _ _ h, outcomeOf, h1, h2]
  · rw [(runOp_none _ _ _).1, (runOp_none _ _ _).2]
    simp [Op.body, typeToDb, exec_writeStmt_none, updType3, outcomeOf]
  · rw [(runOp_none _ _ _).1, (runOp_none _ _ _).2]
    simp [Op.body, typeToDb, exec_writeStmt_none, updType3, outcomeOf]

/-- deleting a present, unused property type / isotherm type removes exactly that row -/
theorem type_delete (db : Db) (mem : Mem) (t : String) :
    (t ∈ db.adsTypes.map (·.1) → t ∉ db.adsProps.map (·.2.1) →
      (runOp db mem (.typeDelete "adsorbate" t) none).out = .ok ∧
      (runOp db mem (.typeDelete "adsorbate" t) none).db = { db with adsTypes := db.adsTypes.filter (·.1 != t) }) ∧
    (t ∈ db.matTypes.map (·.1) → t ∉ db.matProps.map (·.2.1) →
      (runOp db mem (.typeDelete "material" t) none).out = .ok ∧
      (runOp db mem (.typeDelete "material" t) none).db = { db with matTypes := db.matTypes.filter (·.1 != t) }) ∧
    (∀ table, table ≠ "adsorbate" → table ≠ "material" → t ∈ db.isoTypes.map (·.1) → t ∉ db.isos.map (·.2.1) →
      (runOp db mem (.typeDelete table t) none).out = .ok ∧
      (runOp db mem (.typeDelete table t) none).db = { db with isoTypes := db.isoTypes.filter (·.1 != t) }) := by
  refine ⟨?_, ?_, ?_⟩
  · intro h hn
    have hn' : (db.adsProps.any fun r => r.2.1 == t) = false := by
      rw [Bool.eq_false_iff, Ne, List.any_eq_true]
      rintro ⟨r, hr, h⟩; exact hn (List.mem_map.2 ⟨r, hr, by simpa using h⟩)
    rw [(runOp_none _ _ _).1, (runOp_none _ _ _).2]
    simp [Op.body, typeDelete, exec_bind, exec_writeStmt_none, delAdsType, any_fst_true _ _ h, hn', outcomeOf]
  · intro h hn
    have hn' : (db.matProps.any fun r => r.2.1 == t) = false := by
      rw [Bool.eq_false_iff, Ne, List.any_eq_true]
      rintro ⟨r, hr, h⟩; exact hn (List.mem_map.2 ⟨r, hr, by simpa using h⟩)
    rw [(runOp_none _ _ _).1, (runOp_none _ _ _).2]
    simp [Op.body, typeDelete, exec_bind, exec_writeStmt_none, delMatType, any_fst_true _ _ h, hn', outcomeOf]
  · intro table h1 h2 h hn
    have hn' : (db.isos.any fun r => r.2.1 == t) = false := by
      rw [Bool.eq_false_iff, Ne, List.any_eq_true]
      rintro ⟨r, hr, h⟩; exact hn (List.mem_map.2 ⟨r, hr, by simpa using h⟩)
    rw [(runOp_none _ _ _).1, (runOp_none _ _ _).2]
    simp [Op.body, typeDelete, exec_bind, exec_writeStmt_none, delIsoType, any_fst_true _ _ h, hn', outcomeOf, h1, h2]

/-- deleting a present adsorbate / material that no isotherm references removes exactly its row and its property rows;
deleting a present isotherm removes exactly its row, its property rows and its data rows.  Every other row of every table
is unchanged (the result is the old content with those filters applied). -/
theorem delete_removes_exactly (db : Db) (mem : Mem) :
    (∀ nm, nm ∈ db.ads → nm ∉ db.isos.map (·.2.2.2.1) →
      (runOp db mem (.adsDelete nm) none).out = .ok ∧
      (runOp db mem (.adsDelete nm) none).db =
        { db with ads := db.ads.filter (· != nm), adsProps := db.adsProps.filter (·.1 != nm) }) ∧
    (∀ nm, nm ∈ db.mats → nm ∉ db.isos.map (·.2.2.1) →
      (runOp db mem (.matDelete nm) none).out = .ok ∧
      (runOp db mem (.matDelete nm) none).db =
        { db with mats := db.mats.filter (· != nm), matProps := db.matProps.filter (·.1 != nm) }) ∧
    (∀ id, id ∈ db.isos.map (·.1) →
      (runOp db mem (.isoDelete id) none).out = .ok ∧
      (runOp db mem (.isoDelete id) none).db =
        { db with isos := db.isos.filter (·.1 != id), isoProps := db.isoProps.filter (·.1 != id),
                  isoData := db.isoData.filter (·.1 != id) }) := by
  refine ⟨?_, ?_, ?_⟩
  · intro nm h hn
    have hn' : (db.isos.any fun r => r.2.2.2.1 == nm) = false := by
      rw [Bool.eq_false_iff, Ne, List.any_eq_true]
      rintro ⟨r, hr, h⟩; exact hn (List.mem_map.2 ⟨r, hr, by simpa using h⟩)
    have hp := any_filter_ne_false db.adsProps (·.1) nm
    rw [(runOp_none _ _ _).1, (runOp_none _ _ _).2]
    simp [Op.body, adsDelete, exec_bind, exec_writeStmt_none, delAds, h, hn', hp, outcomeOf]
  · intro nm h hn
    have hn' : (db.isos.any fun r => r.2.2.1 == nm) = false := by
      rw [Bool.eq_false_iff, Ne, List.any_eq_true]
      rintro ⟨r, hr, h⟩; exact hn (List.mem_map.2 ⟨r, hr, by simpa using h⟩)
    have hp := any_filter_ne_false db.matProps (·.1) nm
    rw [(runOp_none _ _ _).1, (runOp_none _ _ _).2]
    simp [Op.body, matDelete, exec_bind, exec_writeStmt_none, delMat, h, hn', hp, outcomeOf]
  · intro id h
    rw [(runOp_none _ _ _).1, (runOp_none _ _ _).2]
    simp [Op.body, exec_isoDelete_none, any_fst_true _ _ h, outcomeOf]


/-! ### the loops of `adsorbate_to_db`, named -/

def adsTypeLoop (types : List String) (props : List (String × List (Option String))) : Sql PUnit :=
  forIn props PUnit.unit fun x _ =>
    match x with
    | (t, _) =>
      if !types.contains t then do
        writeStmt (insType3 (·.adsTypes) (fun d l => { d with adsTypes := l }) (some t) "" "")
        pure (ForInStep.yield PUnit.unit)
      else pure (ForInStep.yield PUnit.unit)

def adsValLoop (nm t : String) (vs : List (Option String)) : Sql PUnit :=
  forIn vs PUnit.unit fun v _ => do
    writeStmt (insAdsProp nm t v)
    pure (ForInStep.yield PUnit.unit)

def adsPropLoop (nm : String) (props : List (String × List (Option String))) : Sql PUnit :=
  forIn props PUnit.unit fun x _ =>
    match x with
    | (t, vs) => do
      adsValLoop nm t vs
      pure (ForInStep.yield PUnit.unit)

lemma adsToDb_eq (name : Option String) (props : List (String × List (Option String))) (autoinsert overwrite : Bool) :
    adsToDb name props autoinsert overwrite = (do
      let nm := name.getD ""
      if overwrite then
        let ex ← readStmt fun db => db.ads.contains nm
        if !ex then raise .integrity
        writeStmt fun db => .ok { db with adsProps := db.adsProps.filter (·.1 != nm) }
      else
        writeStmt (insAds name)
      if autoinsert then
        let types ← readStmt fun db => db.adsTypes.map (·.1)
        adsTypeLoop types props
      adsPropLoop nm props
      if overwrite then
        modifyMem fun m => { m with adsList := m.adsList.erase nm }
      modifyMem fun m => { m with adsList := m.adsList ++ [nm] }) := by
  rfl


/-- the auto-insertion loop adds, in order, the property types that were not in the snapshot `types0` -/
lemma exec_adsTypeLoop (types0 : List String) (props : List (String × List (Option String)))
    (hnd : (props.map (·.1)).Nodup) (db : Db) (mem : Mem) (n : Nat)
    (h : ∀ t ∈ props.map (·.1), t ∉ types0 → t ∉ db.adsTypes.map (·.1)) :
    ∃ n', exec (adsTypeLoop types0 props) ⟨db, mem, n, none⟩ =
      (.ok PUnit.unit, ⟨{ db with adsTypes := db.adsTypes ++
          ((props.map (·.1)).filter fun t => !types0.contains t).map fun t => (t, "", "") }, mem, n', none⟩) := by
  unfold adsTypeLoop
  induction props generalizing db n with
  | nil => exact ⟨n, by simp⟩
  | cons p rest ih =>
    obtain ⟨t, vs⟩ := p
    rw [List.forIn_cons]
    simp only [List.map_cons, List.nodup_cons] at hnd h
    by_cases c : types0.contains t = true
    · obtain ⟨n', hn'⟩ := ih hnd.2 db n (fun t' ht' => h t' (List.mem_cons_of_mem _ ht'))
      refine ⟨n', ?_⟩
      simp only [exec_bind, c, Bool.not_true, Bool.false_eq_true, if_false, exec_pure]
      rw [hn']
      have c' : t ∈ types0 := by simpa using c
      simp [List.filter_cons, c']
    · have ht : t ∉ db.adsTypes.map (·.1) := h t List.mem_cons_self (by simpa using c)
      have hins : insType3 (·.adsTypes) (fun d l => { d with adsTypes := l }) (some t) "" "" db =
          .ok { db with adsTypes := db.adsTypes ++ [(t, "", "")] } := by
        simp [insType3, any_fst_false _ _ ht]
      obtain ⟨n', hn'⟩ := ih hnd.2 { db with adsTypes := db.adsTypes ++ [(t, "", "")] } (n + 1) (by
        intro t' ht' hnt'
        simp only [List.map_append, List.map_cons, List.map_nil, List.mem_append, List.mem_singleton, not_or]
        refine ⟨h t' (List.mem_cons_of_mem _ ht') hnt', ?_⟩
        rintro rfl; exact hnd.1 ht')
      refine ⟨n', ?_⟩
      simp only [exec_bind, c, Bool.not_false, if_true, exec_writeStmt_ok hins, exec_pure]
      rw [hn']
      have c' : t ∉ types0 := by simpa using c
      simp [List.filter_cons, c']


lemma exec_adsValLoop (nm t : String) (vs : List String) (db : Db) (mem : Mem) (n : Nat)
    (hnm : nm ∈ db.ads) (ht : t ∈ db.adsTypes.map (·.1)) :
    ∃ n', exec (adsValLoop nm t (vs.map some)) ⟨db, mem, n, none⟩ =
      (.ok PUnit.unit, ⟨{ db with adsProps := db.adsProps ++ vs.map fun v => (nm, t, v) }, mem, n', none⟩) := by
  unfold adsValLoop
  induction vs generalizing db n with
  | nil => exact ⟨n, by simp⟩
  | cons v rest ih =>
    rw [List.map_cons, List.forIn_cons]
    have hins : insAdsProp nm t (some v) db = .ok { db with adsProps := db.adsProps ++ [(nm, t, v)] } := by
      simp [insAdsProp, hnm, any_fst_true _ _ ht]
    obtain ⟨n', hn'⟩ := ih { db with adsProps := db.adsProps ++ [(nm, t, v)] } (n + 1) hnm ht
    refine ⟨n', ?_⟩
    simp only [exec_bind, exec_writeStmt_ok hins, exec_pure]
    rw [hn']
    simp

lemma exec_adsPropLoop (nm : String) (props : List (String × List String)) (db : Db) (mem : Mem) (n : Nat)
    (hnm : nm ∈ db.ads) (ht : ∀ t ∈ props.map (·.1), t ∈ db.adsTypes.map (·.1)) :
    ∃ n', exec (adsPropLoop nm (props.map fun p => (p.1, p.2.map some))) ⟨db, mem, n, none⟩ =
      (.ok PUnit.unit, ⟨{ db with adsProps := db.adsProps ++ props.flatMap fun p => p.2.map fun v => (nm, p.1, v) },
        mem, n', none⟩) := by
  unfold adsPropLoop
  induction props generalizing db n with
  | nil => exact ⟨n, by simp⟩
  | cons p rest ih =>
    obtain ⟨t, vs⟩ := p
    rw [List.map_cons, List.forIn_cons]
    simp only [List.map_cons, List.mem_cons, forall_eq_or_imp] at ht
    obtain ⟨n1, h1⟩ := exec_adsValLoop nm t vs db mem n hnm ht.1
    obtain ⟨n', hn'⟩ := ih { db with adsProps := db.adsProps ++ vs.map fun v => (nm, t, v) } n1 hnm ht.2
    refine ⟨n', ?_⟩
    simp only [exec_bind, h1, exec_pure]
    rw [hn']
    simp


/-- **Upload of a new adsorbate** (not overwriting, name absent, all values non-null, distinct property keys as in a
Python dict, property types auto-inserted): the call succeeds; the adsorbate is in the table; the property types not yet
known are appended (empty unit and description), in order; the property rows are exactly the rows of `props` appended in
order; every other row of every table is unchanged. -/
theorem upload_adsorbate_then_present (db : Db) (mem : Mem) (nm : String) (props : List (String × List String))
    (hn : nm ∉ db.ads) (hnd : (props.map (·.1)).Nodup) :
    (runOp db mem (.adsToDb (some nm) (props.map fun p => (p.1, p.2.map some)) true false) none).out = .ok ∧
    (runOp db mem (.adsToDb (some nm) (props.map fun p => (p.1, p.2.map some)) true false) none).db =
      { db with
        ads := db.ads ++ [nm]
        adsTypes := db.adsTypes ++
          ((props.map (·.1)).filter fun t => !(db.adsTypes.map (·.1)).contains t).map fun t => (t, "", "")
        adsProps := db.adsProps ++ props.flatMap fun p => p.2.map fun v => (nm, p.1, v) } := by
  have hkeys : (props.map fun p => (p.1, p.2.map some)).map (·.1) = props.map (·.1) := by
    rw [List.map_map]; rfl
  have hins : insAds (some nm) db = .ok { db with ads := db.ads ++ [nm] } := by
    simp [insAds, insName, hn]
  obtain ⟨n1, h1⟩ := exec_adsTypeLoop (db.adsTypes.map (·.1)) (props.map fun p => (p.1, p.2.map some))
    (hkeys ▸ hnd) { db with ads := db.ads ++ [nm] } mem 3 (fun t _ h => h)
  rw [hkeys] at h1
  obtain ⟨n2, h2⟩ := exec_adsPropLoop nm props
    { db with ads := db.ads ++ [nm], adsTypes := db.adsTypes ++
      ((props.map (·.1)).filter fun t => !(db.adsTypes.map (·.1)).contains t).map fun t => (t, "", "") } mem n1
    (by simp) (by
      intro t ht
      simp only [List.map_append, List.map_map, List.mem_append]
      by_cases c : t ∈ db.adsTypes.map (·.1)
      · exact Or.inl c
      · right
        exact List.mem_map.2 ⟨t, List.mem_filter.2 ⟨ht, by simpa using c⟩, rfl⟩)
  have key : exec (adsToDb (some nm) (props.map fun p => (p.1, p.2.map some)) true false) ⟨db, mem, 1, none⟩ =
      (.ok (), ⟨{ db with
        ads := db.ads ++ [nm]
        adsTypes := db.adsTypes ++
          ((props.map (·.1)).filter fun t => !(db.adsTypes.map (·.1)).contains t).map fun t => (t, "", "")
        adsProps := db.adsProps ++ props.flatMap fun p => p.2.map fun v => (nm, p.1, v) },
        { mem with adsList := mem.adsList ++ [nm] }, n2, none⟩) := by
    rw [adsToDb_eq]
    simp only [Bool.false_eq_true, if_false, if_true, exec_bind, exec_writeStmt_ok hins, exec_readStmt_none, h1, h2,
      Option.getD_some, exec_modifyMem, exec_pure]
  rw [(runOp_none _ _ _).1, (runOp_none _ _ _).2]
  simp only [Op.body, key]
  exact ⟨rfl, trivial⟩

/-! ### the loops of `material_to_db`, named -/

def matTypeLoop (types : List String) (props : List (String × List (Option String))) : Sql PUnit :=
  forIn props PUnit.unit fun x _ =>
    match x with
    | (t, _) =>
      if !types.contains t then do
        writeStmt (insType3 (·.matTypes) (fun d l => { d with matTypes := l }) (some t) "" "")
        pure (ForInStep.yield PUnit.unit)
      else pure (ForInStep.yield PUnit.unit)

def matValLoop (nm t : String) (vs : List (Option String)) : Sql PUnit :=
  forIn vs PUnit.unit fun v _ => do
    writeStmt (insMatProp nm t v)
    pure (ForInStep.yield PUnit.unit)

def matPropLoop (nm : String) (props : List (String × List (Option String))) : Sql PUnit :=
  forIn props PUnit.unit fun x _ =>
    match x with
    | (t, vs) => do
      matValLoop nm t vs
      pure (ForInStep.yield PUnit.unit)

lemma matToDb_eq (name : Option String) (props : List (String × List (Option String))) (autoinsert overwrite : Bool) :
    matToDb name props autoinsert overwrite = (do
      let nm := name.getD ""
      if overwrite then
        let ex ← readStmt fun db => db.mats.contains nm
        if !ex then raise .integrity
        writeStmt fun db => .ok { db with matProps := db.matProps.filter (·.1 != nm) }
      else
        writeStmt (insMat name)
      if autoinsert then
        let types ← readStmt fun db => db.matTypes.map (·.1)
        matTypeLoop types props
      matPropLoop nm props
      if overwrite then
        modifyMem fun m => { m with matList := m.matList.erase nm }
      modifyMem fun m => { m with matList := m.matList ++ [nm] }) := by
  rfl


/-- the auto-insertion loop adds, in order, the property types that were not in the snapshot `types0` -/
lemma exec_matTypeLoop (types0 : List String) (props : List (String × List (Option String)))
    (hnd : (props.map (·.1)).Nodup) (db : Db) (mem : Mem) (n : Nat)
    (h : ∀ t ∈ props.map (·.1), t ∉ types0 → t ∉ db.matTypes.map (·.1)) :
    ∃ n', exec (matTypeLoop types0 props) ⟨db, mem, n, none⟩ =
      (.ok PUnit.unit, ⟨{ db with matTypes := db.matTypes ++
          ((props.map (·.1)).filter fun t => !types0.contains t).map fun t => (t, "", "") }, mem, n', none⟩) := by
  unfold matTypeLoop
  induction props generalizing db n with
  | nil => exact ⟨n, by simp⟩
  | cons p rest ih =>
    obtain ⟨t, vs⟩ := p
    rw [List.forIn_cons]
    simp only [List.map_cons, List.nodup_cons] at hnd h
    by_cases c : types0.contains t = true
    · obtain ⟨n', hn'⟩ := ih hnd.2 db n (fun t' ht' => h t' (List.mem_cons_of_mem _ ht'))
      refine ⟨n', ?_⟩
      simp only [exec_bind, c, Bool.not_true, Bool.false_eq_true, if_false, exec_pure]
      rw [hn']
      have c' : t ∈ types0 := by simpa using c
      simp [List.filter_cons, c']
    · have ht : t ∉ db.matTypes.map (·.1) := h t List.mem_cons_self (by simpa using c)
      have hins : insType3 (·.matTypes) (fun d l => { d with matTypes := l }) (some t) "" "" db =
          .ok { db with matTypes := db.matTypes ++ [(t, "", "")] } := by
        simp [insType3, any_fst_false _ _ ht]
      obtain ⟨n', hn'⟩ := ih hnd.2 { db with matTypes := db.matTypes ++ [(t, "", "")] } (n + 1) (by
        intro t' ht' hnt'
        simp only [List.map_append, List.map_cons, List.map_nil, List.mem_append, List.mem_singleton, not_or]
        refine ⟨h t' (List.mem_cons_of_mem _ ht') hnt', ?_⟩
        rintro rfl; exact hnd.1 ht')
      refine ⟨n', ?_⟩
      simp only [exec_bind, c, Bool.not_false, if_true, exec_writeStmt_ok hins, exec_pure]
      rw [hn']
      have c' : t ∉ types0 := by simpa using c
      simp [List.filter_cons, c']


lemma exec_matValLoop (nm t : String) (vs : List String) (db : Db) (mem : Mem) (n : Nat)
    (hnm : nm ∈ db.mats) (ht : t ∈ db.matTypes.map (·.1)) :
    ∃ n', exec (matValLoop nm t (vs.map some)) ⟨db, mem, n, none⟩ =
      (.ok PUnit.unit, ⟨{ db with matProps := db.matProps ++ vs.map fun v => (nm, t, v) }, mem, n', none⟩) := by
  unfold matValLoop
  induction vs generalizing db n with
  | nil => exact ⟨n, by simp⟩
  | cons v rest ih =>
    rw [List.map_cons, List.forIn_cons]
    have hins : insMatProp nm t (some v) db = .ok { db with matProps := db.matProps ++ [(nm, t, v)] } := by
      simp [insMatProp, hnm, any_fst_true _ _ ht]
    obtain ⟨n', hn'⟩ := ih { db with matProps := db.matProps ++ [(nm, t, v)] } (n + 1) hnm ht
    refine ⟨n', ?_⟩
    simp only [exec_bind, exec_writeStmt_ok hins, exec_pure]
    rw [hn']
    simp

lemma exec_matPropLoop (nm : String) (props : List (String × List String)) (db : Db) (mem : Mem) (n : Nat)
    (hnm : nm ∈ db.mats) (ht : ∀ t ∈ props.map (·.1), t ∈ db.matTypes.map (·.1)) :
    ∃ n', exec (matPropLoop nm (props.map fun p => (p.1, p.2.map some))) ⟨db, mem, n, none⟩ =
      (.ok PUnit.unit, ⟨{ db with matProps := db.matProps ++ props.flatMap fun p => p.2.map fun v => (nm, p.1, v) },
        mem, n', none⟩) := by
  unfold matPropLoop
  induction props generalizing db n with
  | nil => exact ⟨n, by simp⟩
  | cons p rest ih =>
    obtain ⟨t, vs⟩ := p
    rw [List.map_cons, List.forIn_cons]
    simp only [List.map_cons, List.mem_cons, forall_eq_or_imp] at ht
    obtain ⟨n1, h1⟩ := exec_matValLoop nm t vs db mem n hnm ht.1
    obtain ⟨n', hn'⟩ := ih { db with matProps := db.matProps ++ vs.map fun v => (nm, t, v) } n1 hnm ht.2
    refine ⟨n', ?_⟩
    simp only [exec_bind, h1, exec_pure]
    rw [hn']
    simp


/-- **Upload of a new material** (not overwriting, name absent, all values non-null, distinct property keys as in a
Python dict, property types auto-inserted): the call succeeds; the material is in the table; the property types not yet
known are appended (empty unit and description), in order; the property rows are exactly the rows of `props` appended in
order; every other row of every table is unchanged. -/
theorem upload_material_then_present (db : Db) (mem : Mem) (nm : String) (props : List (String × List String))
    (hn : nm ∉ db.mats) (hnd : (props.map (·.1)).Nodup) :
    (runOp db mem (.matToDb (some nm) (props.map fun p => (p.1, p.2.map some)) true false) none).out = .ok ∧
    (runOp db mem (.matToDb (some nm) (props.map fun p => (p.1, p.2.map some)) true false) none).db =
      { db with
        mats := db.mats ++ [nm]
        matTypes := db.matTypes ++
          ((props.map (·.1)).filter fun t => !(db.matTypes.map (·.1)).contains t).map fun t => (t, "", "")
        matProps := db.matProps ++ props.flatMap fun p => p.2.map fun v => (nm, p.1, v) } := by
  have hkeys : (props.map fun p => (p.1, p.2.map some)).map (·.1) = props.map (·.1) := by
    rw [List.map_map]; rfl
  have hins : insMat (some nm) db = .ok { db with mats := db.mats ++ [nm] } := by
    simp [insMat, insName, hn]
  obtain ⟨n1, h1⟩ := exec_matTypeLoop (db.matTypes.map (·.1)) (props.map fun p => (p.1, p.2.map some))
    (hkeys ▸ hnd) { db with mats := db.mats ++ [nm] } mem 3 (fun t _ h => h)
  rw [hkeys] at h1
  obtain ⟨n2, h2⟩ := exec_matPropLoop nm props
    { db with mats := db.mats ++ [nm], matTypes := db.matTypes ++
      ((props.map (·.1)).filter fun t => !(db.matTypes.map (·.1)).contains t).map fun t => (t, "", "") } mem n1
    (by simp) (by
      intro t ht
      simp only [List.map_append, List.map_map, List.mem_append]
      by_cases c : t ∈ db.matTypes.map (·.1)
      · exact Or.inl c
      · right
        exact List.mem_map.2 ⟨t, List.mem_filter.2 ⟨ht, by simpa using c⟩, rfl⟩)
  have key : exec (matToDb (some nm) (props.map fun p => (p.1, p.2.map some)) true false) ⟨db, mem, 1, none⟩ =
      (.ok (), ⟨{ db with
        mats := db.mats ++ [nm]
        matTypes := db.matTypes ++
          ((props.map (·.1)).filter fun t => !(db.matTypes.map (·.1)).contains t).map fun t => (t, "", "")
        matProps := db.matProps ++ props.flatMap fun p => p.2.map fun v => (nm, p.1, v) },
        { mem with matList := mem.matList ++ [nm] }, n2, none⟩) := by
    rw [matToDb_eq]
    simp only [Bool.false_eq_true, if_false, if_true, exec_bind, exec_writeStmt_ok hins, exec_readStmt_none, h1, h2,
      Option.getD_some, exec_modifyMem, exec_pure]
  rw [(runOp_none _ _ _).1, (runOp_none _ _ _).2]
  simp only [Op.body, key]
  exact ⟨rfl, trivial⟩



/-- `upload_then_present` for both kinds of named item -/
theorem upload_then_present (db : Db) (mem : Mem) (nm : String) (props : List (String × List String))
    (hnd : (props.map (·.1)).Nodup) :
    (nm ∉ db.ads →
      (runOp db mem (.adsToDb (some nm) (props.map fun p => (p.1, p.2.map some)) true false) none).out = .ok ∧
      (runOp db mem (.adsToDb (some nm) (props.map fun p => (p.1, p.2.map some)) true false) none).db =
        { db with
          ads := db.ads ++ [nm]
          adsTypes := db.adsTypes ++
            ((props.map (·.1)).filter fun t => !(db.adsTypes.map (·.1)).contains t).map fun t => (t, "", "")
          adsProps := db.adsProps ++ props.flatMap fun p => p.2.map fun v => (nm, p.1, v) }) ∧
    (nm ∉ db.mats →
      (runOp db mem (.matToDb (some nm) (props.map fun p => (p.1, p.2.map some)) true false) none).out = .ok ∧
      (runOp db mem (.matToDb (some nm) (props.map fun p => (p.1, p.2.map some)) true false) none).db =
        { db with
          mats := db.mats ++ [nm]
          matTypes := db.matTypes ++
            ((props.map (·.1)).filter fun t => !(db.matTypes.map (·.1)).contains t).map fun t => (t, "", "")
          matProps := db.matProps ++ props.flatMap fun p => p.2.map fun v => (nm, p.1, v) }) :=
  ⟨fun h => upload_adsorbate_then_present db mem nm props h hnd,
   fun h => upload_material_then_present db mem nm props h hnd⟩


/-! ### upload of an isotherm whose material and adsorbate are already stored -/

lemma exec_isoPropLoop (id : String) (props : List (String × String)) (db : Db) (mem : Mem) (n : Nat)
    (hid : id ∈ db.isos.map (·.1)) :
    ∃ n', exec (isoPropLoop id (props.map fun p => (p.1, PVal.val p.2))) ⟨db, mem, n, none⟩ =
      (.ok PUnit.unit, ⟨{ db with isoProps := db.isoProps ++ props.map fun p => (id, p.1, p.2) }, mem, n', none⟩) := by
  unfold isoPropLoop
  induction props generalizing db n with
  | nil => exact ⟨n, by simp⟩
  | cons p rest ih =>
    obtain ⟨t, v⟩ := p
    rw [List.map_cons, List.forIn_cons]
    have hins : insIsoProp id t (.val v) db = .ok { db with isoProps := db.isoProps ++ [(id, t, v)] } := by
      simp [insIsoProp, any_fst_true _ _ hid]
    obtain ⟨n', hn'⟩ := ih { db with isoProps := db.isoProps ++ [(id, t, v)] } (n + 1) hid
    refine ⟨n', ?_⟩
    simp only [exec_bind, exec_writeStmt_ok hins, exec_pure]
    rw [hn']
    simp

lemma exec_isoDataLoop (id : String) (data : List (String × String × String)) (db : Db) (mem : Mem) (n : Nat)
    (hid : id ∈ db.isos.map (·.1)) :
    ∃ n', exec (isoDataLoop id data) ⟨db, mem, n, none⟩ =
      (.ok PUnit.unit, ⟨{ db with isoData := db.isoData ++ data.map fun r => (id, r.1, r.2.1, r.2.2) }, mem, n', none⟩) := by
  unfold isoDataLoop
  induction data generalizing db n with
  | nil => exact ⟨n, by simp⟩
  | cons p rest ih =>
    obtain ⟨t, dt, d⟩ := p
    rw [List.forIn_cons]
    have hins : insIsoData id t dt d db = .ok { db with isoData := db.isoData ++ [(id, t, dt, d)] } := by
      simp [insIsoData, any_fst_true _ _ hid]
    obtain ⟨n', hn'⟩ := ih { db with isoData := db.isoData ++ [(id, t, dt, d)] } (n + 1) hid
    refine ⟨n', ?_⟩
    simp only [exec_bind, exec_writeStmt_ok hins, exec_pure]
    rw [hn']
    simp

/-- the content after a successful isotherm upload -/
def withIsotherm (db : Db) (i : IsoIn) (m a temp : String) (props : List (String × String)) : Db :=
  { db with
    isos := db.isos ++ [(i.id, i.isoType, m, a, temp)]
    isoProps := db.isoProps ++ props.map fun p => (i.id, p.1, p.2)
    isoData := db.isoData ++ i.data.map fun r => (i.id, r.1, r.2.1, r.2.2) }

lemma exec_isoTail (i : IsoIn) (m a temp : String) (props : List (String × String)) (db : Db) (mem : Mem) (n : Nat)
    (hm : i.material = some m) (ha : i.adsorbate = some a) (ht : i.temperature = some temp)
    (hp : i.props = props.map fun p => (p.1, PVal.val p.2))
    (hmk : m ∈ db.mats) (hak : a ∈ db.ads) (hty : i.isoType ∈ db.isoTypes.map (·.1)) (hid : i.id ∉ db.isos.map (·.1)) :
    ∃ n', exec (isoTail i) ⟨db, mem, n, none⟩ = (.ok (), ⟨withIsotherm db i m a temp props, mem, n', none⟩) := by
  have hins : insIso i.id i.isoType i.material i.adsorbate i.temperature db =
      .ok { db with isos := db.isos ++ [(i.id, i.isoType, m, a, temp)] } := by
    rw [hm, ha, ht]
    simp [insIso, any_fst_false _ _ hid, any_fst_true _ _ hty, hmk, hak]
  have hid' : i.id ∈ ({ db with isos := db.isos ++ [(i.id, i.isoType, m, a, temp)] } : Db).isos.map (·.1) := by simp
  obtain ⟨n1, h1⟩ := exec_isoPropLoop i.id props _ mem (n + 1) hid'
  obtain ⟨n2, h2⟩ := exec_isoDataLoop i.id i.data
    { db with isos := db.isos ++ [(i.id, i.isoType, m, a, temp)],
              isoProps := db.isoProps ++ props.map fun p => (i.id, p.1, p.2) } mem n1 hid'
  refine ⟨n2, ?_⟩
  unfold isoTail
  rw [hp]
  simp only [exec_bind, exec_writeStmt_ok hins, h1, h2, exec_pure]
  rfl

/-- **Upload of an isotherm** whose material and adsorbate are already stored, whose type is known, whose id is new and
whose property values are all plain values: the call succeeds for every setting of the auto-insertion flags; the isotherm
row, its property rows and its data rows are appended in order; nothing else changes. -/
theorem upload_isotherm_then_present (db : Db) (mem : Mem) (i : IsoIn) (am aa : Bool) (m a temp : String)
    (props : List (String × String))
    (hm : i.material = some m) (ha : i.adsorbate = some a) (ht : i.temperature = some temp)
    (hp : i.props = props.map fun p => (p.1, PVal.val p.2))
    (hmk : m ∈ db.mats) (hak : a ∈ db.ads) (hty : i.isoType ∈ db.isoTypes.map (·.1)) (hid : i.id ∉ db.isos.map (·.1)) :
    (runOp db mem (.isoToDb i am aa) none).out = .ok ∧
    (runOp db mem (.isoToDb i am aa) none).db = withIsotherm db i m a temp props := by
  have key : ∃ n', exec (isoToDb i am aa) ⟨db, mem, 1, none⟩ =
      (.ok (), ⟨withIsotherm db i m a temp props, mem, n', none⟩) := by
    rw [isoToDb_eq]
    unfold isoAdsPart
    cases am <;> cases aa <;>
      simp only [Bool.false_eq_true, if_false, if_true, exec_bind, exec_readStmt_none, hm, ha, Option.getD_some,
        List.contains_iff_mem.2 hmk, List.contains_iff_mem.2 hak, Bool.not_true] <;>
      exact exec_isoTail i m a temp props db mem _ hm ha ht hp hmk hak hty hid
  obtain ⟨n', hk⟩ := key
  rw [(runOp_none _ _ _).1, (runOp_none _ _ _).2]
  simp only [Op.body, hk]
  exact ⟨rfl, trivial⟩


/-- **Overwrite of a stored adsorbate** (name present, all values non-null, distinct keys, property types auto-inserted):
the call succeeds; the old property rows of that adsorbate disappear, the new ones are appended in order; the adsorbate row
itself and every other row are unchanged. -/
theorem overwrite_adsorbate_then_present (db : Db) (mem : Mem) (nm : String) (props : List (String × List String))
    (hn : nm ∈ db.ads) (hnd : (props.map (·.1)).Nodup) :
    (runOp db mem (.adsToDb (some nm) (props.map fun p => (p.1, p.2.map some)) true true) none).out = .ok ∧
    (runOp db mem (.adsToDb (some nm) (props.map fun p => (p.1, p.2.map some)) true true) none).db =
      { db with
        adsTypes := db.adsTypes ++
          ((props.map (·.1)).filter fun t => !(db.adsTypes.map (·.1)).contains t).map fun t => (t, "", "")
        adsProps := db.adsProps.filter (·.1 != nm) ++ props.flatMap fun p => p.2.map fun v => (nm, p.1, v) } := by
  have hkeys : (props.map fun p => (p.1, p.2.map some)).map (·.1) = props.map (·.1) := by
    rw [List.map_map]; rfl
  obtain ⟨n1, h1⟩ := exec_adsTypeLoop (db.adsTypes.map (·.1)) (props.map fun p => (p.1, p.2.map some))
    (hkeys ▸ hnd) { db with adsProps := db.adsProps.filter (·.1 != nm) } mem 4 (fun t _ h => h)
  rw [hkeys] at h1
  obtain ⟨n2, h2⟩ := exec_adsPropLoop nm props
    { db with adsProps := db.adsProps.filter (·.1 != nm), adsTypes := db.adsTypes ++
      ((props.map (·.1)).filter fun t => !(db.adsTypes.map (·.1)).contains t).map fun t => (t, "", "") } mem n1
    hn (by
      intro t ht
      simp only [List.map_append, List.map_map, List.mem_append]
      by_cases c : t ∈ db.adsTypes.map (·.1)
      · exact Or.inl c
      · right
        exact List.mem_map.2 ⟨t, List.mem_filter.2 ⟨ht, by simpa using c⟩, rfl⟩)
  have key : exec (adsToDb (some nm) (props.map fun p => (p.1, p.2.map some)) true true) ⟨db, mem, 1, none⟩ =
      (.ok (), ⟨{ db with
        adsTypes := db.adsTypes ++
          ((props.map (·.1)).filter fun t => !(db.adsTypes.map (·.1)).contains t).map fun t => (t, "", "")
        adsProps := db.adsProps.filter (·.1 != nm) ++ props.flatMap fun p => p.2.map fun v => (nm, p.1, v) },
        { mem with adsList := mem.adsList.erase nm ++ [nm] }, n2, none⟩) := by
    rw [adsToDb_eq]
    simp only [if_true, exec_bind, exec_writeStmt_none, exec_readStmt_none, h1, h2,
      Option.getD_some, exec_modifyMem, exec_pure, List.contains_iff_mem.2 hn, Bool.not_true, Bool.false_eq_true, if_false]
  rw [(runOp_none _ _ _).1, (runOp_none _ _ _).2]
  simp only [Op.body, key]
  exact ⟨rfl, trivial⟩

/-- **Overwrite of a stored material** (name present, all values non-null, distinct keys, property types auto-inserted):
the call succeeds; the old property rows of that material disappear, the new ones are appended in order; the material row
itself and every other row are unchanged. -/
theorem overwrite_material_then_present (db : Db) (mem : Mem) (nm : String) (props : List (String × List String))
    (hn : nm ∈ db.mats) (hnd : (props.map (·.1)).Nodup) :
    (runOp db mem (.matToDb (some nm) (props.map fun p => (p.1, p.2.map some)) true true) none).out = .ok ∧
    (runOp db mem (.matToDb (some nm) (props.map fun p => (p.1, p.2.map some)) true true) none).db =
      { db with
        matTypes := db.matTypes ++
          ((props.map (·.1)).filter fun t => !(db.matTypes.map (·.1)).contains t).map fun t => (t, "", "")
        matProps := db.matProps.filter (·.1 != nm) ++ props.flatMap fun p => p.2.map fun v => (nm, p.1, v) } := by
  have hkeys : (props.map fun p => (p.1, p.2.map some)).map (·.1) = props.map (·.1) := by
    rw [List.map_map]; rfl
  obtain ⟨n1, h1⟩ := exec_matTypeLoop (db.matTypes.map (·.1)) (props.map fun p => (p.1, p.2.map some))
    (hkeys ▸ hnd) { db with matProps := db.matProps.filter (·.1 != nm) } mem 4 (fun t _ h => h)
  rw [hkeys] at h1
  obtain ⟨n2, h2⟩ := exec_matPropLoop nm props
    { db with matProps := db.matProps.filter (·.1 != nm), matTypes := db.matTypes ++
      ((props.map (·.1)).filter fun t => !(db.matTypes.map (·.1)).contains t).map fun t => (t, "", "") } mem n1
    hn (by
      intro t ht
      simp only [List.map_append, List.map_map, List.mem_append]
      by_cases c : t ∈ db.matTypes.map (·.1)
      · exact Or.inl c
      · right
        exact List.mem_map.2 ⟨t, List.mem_filter.2 ⟨ht, by simpa using c⟩, rfl⟩)
  have key : exec (matToDb (some nm) (props.map fun p => (p.1, p.2.map some)) true true) ⟨db, mem, 1, none⟩ =
      (.ok (), ⟨{ db with
        matTypes := db.matTypes ++
          ((props.map (·.1)).filter fun t => !(db.matTypes.map (·.1)).contains t).map fun t => (t, "", "")
        matProps := db.matProps.filter (·.1 != nm) ++ props.flatMap fun p => p.2.map fun v => (nm, p.1, v) },
        { mem with matList := mem.matList.erase nm ++ [nm] }, n2, none⟩) := by
    rw [matToDb_eq]
    simp only [if_true, exec_bind, exec_writeStmt_none, exec_readStmt_none, h1, h2,
      Option.getD_some, exec_modifyMem, exec_pure, List.contains_iff_mem.2 hn, Bool.not_true, Bool.false_eq_true, if_false]
  rw [(runOp_none _ _ _).1, (runOp_none _ _ _).2]
  simp only [Op.body, key]
  exact ⟨rfl, trivial⟩


/-! ### every fault-free refusal is a `ParsingError` -/

/-- the trivial invariant -/
abbrev noCond : Db → Prop := fun _ => True

macro "int_disch" : tactic => `(tactic|
  (intro d _
   try simp only [insAds, insMat, insName, insAdsProp, insMatProp, insType3, updType3, insIsoType, updIsoType, delAds, delMat,
     delAdsType, delMatType, delIsoType, insIso, insIsoData, Bool.false_eq_true, if_true, if_false]
   repeat' split
   all_goals with_unfolding_all (first | exact trivial | exact rfl)))

lemma intRel_adsToDb (name props ai ow) : Inv isInt noCond (adsToDb name props ai ow) := by
  unfold adsToDb
  sql_inv [int_disch] [rfl]

lemma intRel_matToDb (name props ai ow) : Inv isInt noCond (matToDb name props ai ow) := by
  unfold matToDb
  sql_inv [int_disch] [rfl]

lemma intRel_adsDelete (name) : Inv isInt noCond (adsDelete name) := by
  unfold adsDelete
  sql_inv [int_disch] [rfl]

lemma intRel_matDelete (name) : Inv isInt noCond (matDelete name) := by
  unfold matDelete
  sql_inv [int_disch] [rfl]

lemma intRel_typeToDb (tb t u d o) : Inv isInt noCond (typeToDb tb t u d o) := by
  unfold typeToDb
  cases o <;> sql_inv [int_disch] [rfl]

lemma intRel_typeDelete (tb t) : Inv isInt noCond (typeDelete tb t) := by
  unfold typeDelete
  sql_inv [int_disch] [rfl]

lemma intRel_isoDelete (id) : Inv isInt noCond (isoDelete id) := by
  unfold isoDelete
  sql_inv [int_disch] [rfl]


lemma intRel_isoPropLoop (id : String) (props : List (String × PVal)) (h : ∀ p ∈ props, p.2 ≠ .unsupported) :
    Inv isInt noCond (isoPropLoop id props) := by
  unfold isoPropLoop
  refine Inv.forIn_mem _ _ (fun p hp _ => ?_) _
  obtain ⟨t, v⟩ := p
  refine Inv.bind (Inv.writeStmt _ ?_) fun _ => Inv.pure _
  intro d _
  have hv : v ≠ .unsupported := h (t, v) hp
  unfold insIsoProp
  cases v with
  | unsupported => exact absurd rfl hv
  | null => rfl
  | val s => simp only; split <;> first | trivial | rfl

lemma intRel_isoToDb (i : IsoIn) (am aa : Bool) (h : ∀ p ∈ i.props, p.2 ≠ .unsupported) :
    Inv isInt noCond (isoToDb i am aa) := by
  rw [isoToDb_eq]
  unfold isoAdsPart isoTail isoDataLoop
  repeat (first
    | with_reducible exact Inv.pure _
    | with_reducible exact Inv.readStmt _ | with_reducible exact Inv.modifyMem _
    | with_reducible exact intRel_adsToDb _ _ _ _ | with_reducible exact intRel_matToDb _ _ _ _
    | with_reducible exact intRel_isoPropLoop _ _ h
    | with_reducible refine Inv.writeStmt _ (by int_disch)
    | with_reducible apply Inv.bind | with_reducible apply Inv.ite | with_reducible apply Inv.forIn
    | with_reducible intro _
    | (split)
    | dsimp only)

/-- the operation hands no unbindable value (dict / list) to sqlite -/
def bindable : Op → Prop
  | .isoToDb i _ _ => ∀ p ∈ i.props, p.2 ≠ .unsupported
  | .isoPropTypeOp _ => False      -- the table these entry points address does not exist (finding S39, `isoPropType_other_error`)
  | _ => True

/-- **A fault-free call either succeeds or is refused with a `ParsingError`** — never any other exception — as long as every
isotherm property value can be bound (finding: an unbindable value raises `ProgrammingError`, which `with_connection` does
not translate; see `unbindable_value_other_error`). -/
theorem refusal_is_parsingError (db : Db) (mem : Mem) (op : Op) (hb : bindable op) :
    (runOp db mem op none).out = .ok ∨ (runOp db mem op none).out = .parsingError := by
  have key : ∀ {p : Sql Unit}, Inv isInt noCond p →
      outcomeOf (exec p ⟨db, mem, 1, none⟩).1 = .ok ∨ outcomeOf (exec p ⟨db, mem, 1, none⟩).1 = .parsingError := by
    intro p hp
    rcases hp ⟨db, mem, 1, none⟩ rfl trivial with ⟨e, he, hr⟩ | ⟨a, hr, _⟩
    · rw [hr, he]; exact Or.inr rfl
    · rw [hr]; exact Or.inl rfl
  rw [(runOp_none _ _ _).1]
  cases op with
  | adsToDb n p a o => exact key (intRel_adsToDb n p a o)
  | matToDb n p a o => exact key (intRel_matToDb n p a o)
  | adsDelete n => exact key (intRel_adsDelete n)
  | matDelete n => exact key (intRel_matDelete n)
  | typeToDb tb t u d o => exact key (intRel_typeToDb tb t u d o)
  | typeDelete tb t => exact key (intRel_typeDelete tb t)
  | isoToDb i am aa => exact key (intRel_isoToDb i am aa hb)
  | isoDelete id => exact key (intRel_isoDelete id)
  | isoPropTypeOp w => exact hb.elim


/-! ### non-vacuity: concrete instances (kernel evaluation of the executable model) -/

/-- a concrete file: one material, one adsorbate with a property, the three isotherm types, one isotherm -/
def db0 : Db :=
  { Db.empty with
    ads := ["N2"], mats := ["MOF-1"],
    adsTypes := [("formula", "", "")], adsProps := [("N2", "formula", "N2")],
    isoTypes := [("isotherm", ""), ("pointisotherm", ""), ("modelisotherm", "")],
    isos := [("iso1", "pointisotherm", "MOF-1", "N2", "77.0")],
    isoProps := [("iso1", "pressure_unit", "bar")],
    isoData := [("iso1", "pressure", "float", "[1,2]")] }

def mem0 : Mem := ⟨["N2"], ["MOF-1"]⟩

/-- a new isotherm on a new material and a new adsorbate (both auto-inserted) -/
def iso2 : IsoIn :=
  { id := "iso2", isoType := "pointisotherm", material := some "MOF-2", matProps := [("density", [some "1.2"])],
    adsorbate := some "CO2", adsProps := [("formula", [some "CO2"])], temperature := some "298.0",
    props := [("pressure_unit", .val "bar")], data := [("pressure", "float", "[1]")] }

example : db0.wellFormed = true := by decide +kernel

/-- an accepted upload: outcome and exact content -/
example :
    (runOp db0 mem0 (.adsToDb (some "CO2") [("formula", [some "CO2"]), ("alias", [some "a", some "b"])] true false) none).out = .ok ∧
    (runOp db0 mem0 (.adsToDb (some "CO2") [("formula", [some "CO2"]), ("alias", [some "a", some "b"])] true false) none).db =
      { db0 with ads := ["N2", "CO2"], adsTypes := [("formula", "", ""), ("alias", "", "")],
                 adsProps := [("N2", "formula", "N2"), ("CO2", "formula", "CO2"), ("CO2", "alias", "a"), ("CO2", "alias", "b")] } := by
  decide +kernel

/-- a refused duplicate changes nothing -/
example : (runOp db0 mem0 (.adsToDb (some "N2") [] true false) none).out = .parsingError ∧
          (runOp db0 mem0 (.adsToDb (some "N2") [] true false) none).db = db0 := by decide +kernel

/-- a referenced adsorbate cannot be deleted; the isotherm can, and then the adsorbate can -/
example : (runOp db0 mem0 (.adsDelete "N2") none).out = .parsingError ∧
          (runOp (runOp db0 mem0 (.isoDelete "iso1") none).db mem0 (.adsDelete "N2") none).out = .ok := by decide +kernel

/-- an isotherm upload with both auto-insertions: 13 statements, accepted, the file changes and stays well formed -/
example : (runOp db0 mem0 (.isoToDb iso2 true true) none).out = .ok ∧
          (runOp db0 mem0 (.isoToDb iso2 true true) none).db ≠ db0 ∧
          (runOp db0 mem0 (.isoToDb iso2 true true) none).db.wellFormed = true ∧
          stmtCount db0 mem0 (.isoToDb iso2 true true) = 13 := by decide +kernel

/-- a fault at statement 3 of that upload leaves the file unchanged -/
example : (runOp db0 mem0 (.isoToDb iso2 true true) (some (3, .operational))).out = .otherError ∧
          (runOp db0 mem0 (.isoToDb iso2 true true) (some (3, .operational))).db = db0 := by decide +kernel

/-- **finding** (`unbindable_value_other_error`): a property value sqlite cannot bind (a dict or a list) is NOT refused with a
`ParsingError` — the `ProgrammingError` propagates untranslated (the file is still unchanged); so the hypothesis
`bindable` of `refusal_is_parsingError` cannot be dropped -/
theorem unbindable_value_other_error :
    (runOp db0 mem0 (.isoToDb { iso2 with props := [("x", .unsupported)] } true true) none).out = .otherError ∧
    (runOp db0 mem0 (.isoToDb { iso2 with props := [("x", .unsupported)] } true true) none).db = db0 := by decide +kernel

/-- **finding S39** (`isoPropType_other_error`): the three entry points for *isotherm property types*
(`isotherm_property_type_to_db`, `isotherm_property_types_from_db`, `isotherm_property_type_delete_db`) address a table the schema
does not create; whatever the database content and the arguments, the call ends in an untranslated `OperationalError` (not a
`ParsingError`), and — the part of the property that does hold — the file and the process-global lists are unchanged.  So the
hypothesis `bindable` of `refusal_is_parsingError` cannot be dropped for these operations either. -/
theorem isoPropType_other_error (db : Db) (mem : Mem) (w : String) :
    (runOp db mem (.isoPropTypeOp w) none).out = .otherError ∧
    (runOp db mem (.isoPropTypeOp w) none).db = db ∧
    (runOp db mem (.isoPropTypeOp w) none).mem = mem := by
  refine ⟨?_, ?_, ?_⟩ <;> rfl

/-- an isotherm on the STORED material `MOF-1` and the new adsorbate `CO2` -/
def iso3 : IsoIn := { iso2 with id := "iso3", material := some "MOF-1", matProps := [] }

/-- an isotherm on the new material `MOF-2` and the STORED adsorbate `N2` -/
def iso4 : IsoIn := { iso2 with id := "iso4", adsorbate := some "N2", adsProps := [] }

/-- **the two auto-insertion options are independent and not interchangeable** (witness; every public route to the upload — the
function and the method `isotherm.to_db` — is tied to this one model operation by the harness, each with independent option values):
each option governs its own reference only.  With the material stored and the adsorbate new, `(autoMat, autoAds) = (true, false)` is
refused and changes nothing while `(false, true)` is accepted and inserts exactly the adsorbate; with the adsorbate stored and the
material new it is the other way round.  An entry point that forwards one option in the place of the other is therefore observable on
a well-formed file whenever exactly one of the two references is unknown and the two option values differ. -/
theorem autoinsert_options_independent :
    ((runOp db0 mem0 (.isoToDb iso3 true false) none).out = .parsingError ∧ (runOp db0 mem0 (.isoToDb iso3 true false) none).db = db0 ∧
     (runOp db0 mem0 (.isoToDb iso3 false true) none).out = .ok ∧ (runOp db0 mem0 (.isoToDb iso3 false true) none).db.ads = ["N2", "CO2"] ∧
     (runOp db0 mem0 (.isoToDb iso3 false true) none).db.mats = db0.mats) ∧
    ((runOp db0 mem0 (.isoToDb iso4 false true) none).out = .parsingError ∧ (runOp db0 mem0 (.isoToDb iso4 false true) none).db = db0 ∧
     (runOp db0 mem0 (.isoToDb iso4 true false) none).out = .ok ∧ (runOp db0 mem0 (.isoToDb iso4 true false) none).db.mats = ["MOF-1", "MOF-2"] ∧
     (runOp db0 mem0 (.isoToDb iso4 true false) none).db.ads = db0.ads) := by decide +kernel

end PgVerif.C08
