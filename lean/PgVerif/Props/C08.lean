/-
C08 — the SQLite store behaves as a keyed collection over any operation history (placeholder; theorems follow).
-/
import PgVerif.Model.Store

namespace PgVerif.C08
open PgVerif.Model.Store

/-- the empty store is well formed -/
theorem empty_wellFormed : Db.empty.wellFormed = true := by decide

end PgVerif.C08
