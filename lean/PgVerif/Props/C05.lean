/-
C05 — isotherm identity is determined by content, and only by content (placeholder; theorems follow).
-/
import PgVerif.Model.Json

namespace PgVerif.C05
open PgVerif.Model.Json

/-- equal canonical forms give equal identifiers, whatever the hash -/
theorem id_of_equal_canon {ι : Type} (H : Dict × Payload → ι) (a b : Iso) (h : canon a = canon b) : isoId H a = isoId H b := by
  unfold isoId; rw [h]

end PgVerif.C05
