/-
C05 — isotherm identity is determined by content, and only by content.

Statements are about the executable model `PgVerif.Model.Json`: `canon` (the key-sorted dictionary and the payload, i.e. what
`json.dumps(raw_dict, sort_keys=True)` serialises), `sortKeys`/`insertSorted` (the key sort) and `isoId H` (the identifier with an
uninterpreted hash `H`).  Keys are compared with String's lexicographic order (`Mathlib.Data.String.Basic` supplies the proof that it
is a linear order; its `<` is the core `String` `<` used by the model).
-/
import Mathlib.Tactic
import Mathlib.Data.String.Basic
import Mathlib.Data.List.Sort
import PgVerif.Model.Json

namespace PgVerif.C05
open PgVerif.Model.Json

/-- the test of `insertSorted` is `≤` on keys (String's lexicographic order) -/
private lemma test_iff (a b : String) : (a < b || a == b) = true ↔ a ≤ b := by
  rw [Bool.or_eq_true, decide_eq_true_iff, beq_iff_eq, le_iff_lt_or_eq]

lemma insertSorted_perm (kv : String × MVal) (d : Dict) : (insertSorted kv d).Perm (kv :: d) := by
  induction d with
  | nil => exact List.Perm.refl _
  | cons h t ih =>
    unfold insertSorted
    split_ifs
    · exact List.Perm.refl _
    · exact (List.Perm.cons h ih).trans (List.Perm.swap kv h t)

lemma insertSorted_sorted (kv : String × MVal) (d : Dict) (hd : d.Pairwise (fun a b => a.1 ≤ b.1)) :
    (insertSorted kv d).Pairwise (fun a b => a.1 ≤ b.1) := by
  induction d with
  | nil => simp [insertSorted]
  | cons h t ih =>
    rw [List.pairwise_cons] at hd
    unfold insertSorted
    split_ifs with hc
    · rw [test_iff] at hc
      rw [List.pairwise_cons]
      refine ⟨?_, List.pairwise_cons.2 hd⟩
      intro b hb
      rcases List.mem_cons.1 hb with rfl | hb
      · exact hc
      · exact le_trans hc (hd.1 b hb)
    · rw [test_iff, not_le] at hc
      rw [List.pairwise_cons]
      refine ⟨?_, ih hd.2⟩
      intro b hb
      rcases List.mem_cons.1 ((insertSorted_perm kv t).subset hb) with rfl | hb
      · exact hc.le
      · exact hd.1 b hb

theorem sortKeys_perm (d : Dict) : (sortKeys d).Perm d := by
  induction d with
  | nil => exact List.Perm.refl _
  | cons h t ih =>
    unfold sortKeys
    exact (insertSorted_perm h (sortKeys t)).trans (List.Perm.cons h ih)

theorem sortKeys_sorted (d : Dict) : (sortKeys d).Pairwise (fun a b => a.1 ≤ b.1) := by
  induction d with
  | nil => exact List.Pairwise.nil
  | cons h t ih => unfold sortKeys; exact insertSorted_sorted h _ ih

/-- with pairwise distinct keys the sorted dictionary is STRICTLY increasing in its keys -/
theorem sortKeys_sorted_strict (d : Dict) (hn : (d.map (·.1)).Nodup) : (sortKeys d).Pairwise (fun a b => a.1 < b.1) := by
  have hn' : ((sortKeys d).map (·.1)).Nodup := ((sortKeys_perm d).map _).nodup_iff.2 hn
  have hne : (sortKeys d).Pairwise (fun a b => a.1 ≠ b.1) := by
    rw [List.Nodup, List.pairwise_map] at hn'
    exact hn'
  exact ((sortKeys_sorted d).and hne).imp (fun h => lt_of_le_of_ne h.1 h.2)

/-- the canonical form does not depend on the order in which the metadata was given -/
theorem canon_perm_invariant (d₁ d₂ : Dict) (hp : d₁.Perm d₂) (hn : (d₁.map (·.1)).Nodup) : sortKeys d₁ = sortKeys d₂ := by
  have hn₂ : (d₂.map (·.1)).Nodup := (hp.map _).nodup_iff.1 hn
  refine List.Perm.eq_of_pairwise (le := fun a b => a.1 < b.1) ?_ (sortKeys_sorted_strict d₁ hn)
    (sortKeys_sorted_strict d₂ hn₂) (((sortKeys_perm d₁).trans hp).trans (sortKeys_perm d₂).symm)
  intro a b _ _ hab hba
  exact absurd hab (lt_asymm hba)

theorem id_of_equal_canon {ι : Type} (H : Dict × Payload → ι) (a b : Iso) (h : canon a = canon b) : isoId H a = isoId H b := by
  unfold isoId; rw [h]

/-- the construction route is not an input of the identifier -/
theorem id_of_equal_content {ι : Type} (H : Dict × Payload → ι) (a b : Iso) (h : a = b) : isoId H a = isoId H b := by
  rw [h]

/-- ... nor is the order of the metadata -/
theorem id_of_permuted_content {ι : Type} (H : Dict × Payload → ι) (a b : Iso) (hp : a.core.Perm b.core)
    (hn : (a.core.map (·.1)).Nodup) (hpay : a.payload = b.payload) : isoId H a = isoId H b := by
  apply id_of_equal_canon
  unfold canon
  rw [canon_perm_invariant _ _ hp hn, hpay]

/-- nothing is ignored: equal canonical forms force equal content (the dictionaries up to order, the payload exactly) -/
theorem canon_injective (a b : Iso) (h : canon a = canon b) : a.core.Perm b.core ∧ a.payload = b.payload := by
  unfold canon at h
  rw [Prod.mk.injEq] at h
  refine ⟨?_, h.2⟩
  exact ((sortKeys_perm a.core).symm.trans (h.1 ▸ List.Perm.refl _)).trans (sortKeys_perm b.core)

/-- for dictionaries with distinct keys: same canonical form iff same content -/
theorem canon_eq_iff (a b : Iso) (hn : (a.core.map (·.1)).Nodup) :
    canon a = canon b ↔ a.core.Perm b.core ∧ a.payload = b.payload := by
  refine ⟨canon_injective a b, fun h => ?_⟩
  unfold canon
  rw [canon_perm_invariant _ _ h.1 hn, h.2]

/-- changing any metadata value, label, datum, branch mark or model parameter changes the identifier, unless the hash collides -/
theorem id_differs_of_content_differs {ι : Type} (H : Dict × Payload → ι) (hH : Function.Injective H) (a b : Iso)
    (h : ¬ (a.core.Perm b.core ∧ a.payload = b.payload)) : isoId H a ≠ isoId H b := by
  intro he
  exact h (canon_injective a b (hH he))

/-- with an injective hash and distinct keys: same identifier iff same content -/
theorem id_eq_iff {ι : Type} (H : Dict × Payload → ι) (hH : Function.Injective H) (a b : Iso)
    (hn : (a.core.map (·.1)).Nodup) : isoId H a = isoId H b ↔ a.core.Perm b.core ∧ a.payload = b.payload := by
  unfold isoId
  rw [hH.eq_iff, canon_eq_iff a b hn]

/-! ### `canon_ignores_nothing`: concrete pairs differing in one place -/

/-- one branch mark -/
theorem canon_ignores_nothing_branch :
    canon ⟨[("material", .scalar (.str "m")), ("adsorbate", .scalar (.str "N2"))],
            .points [⟨.int 1, .int 10, 0, []⟩, ⟨.int 2, .int 20, 0, []⟩]⟩ ≠
    canon ⟨[("material", .scalar (.str "m")), ("adsorbate", .scalar (.str "N2"))],
            .points [⟨.int 1, .int 10, 0, []⟩, ⟨.int 2, .int 20, 1, []⟩]⟩ := by decide

/-- one metadata value -/
theorem canon_ignores_nothing_metadata :
    canon ⟨[("material", .scalar (.str "m")), ("user", .scalar (.str "A"))], .none⟩ ≠
    canon ⟨[("material", .scalar (.str "m")), ("user", .scalar (.str "B"))], .none⟩ := by decide

/-- one datum -/
theorem canon_ignores_nothing_datum :
    canon ⟨[("material", .scalar (.str "m"))], .points [⟨.int 1, .num "10.00000001", 0, []⟩]⟩ ≠
    canon ⟨[("material", .scalar (.str "m"))], .points [⟨.int 1, .num "10.00000002", 0, []⟩]⟩ := by decide

/-- one model parameter -/
theorem canon_ignores_nothing_param :
    canon ⟨[("material", .scalar (.str "m"))], .model ⟨"Henry", .int 0, [("K", .int 2)], (.int 0, .int 1), (.int 0, .int 2)⟩⟩ ≠
    canon ⟨[("material", .scalar (.str "m"))], .model ⟨"Henry", .int 0, [("K", .int 3)], (.int 0, .int 1), (.int 0, .int 2)⟩⟩ := by
  decide

/-- the guard of `canon_perm_invariant` is needed: with a repeated key (impossible for a python dict) the order shows -/
theorem canon_perm_needs_distinct_keys :
    sortKeys [("a", .scalar (.int 1)), ("a", .scalar (.int 2))] ≠ sortKeys [("a", .scalar (.int 2)), ("a", .scalar (.int 1))] := by
  decide

/-- the order of the metadata IS ignored (and nothing else) -/
theorem canon_order_example :
    canon ⟨[("material", .scalar (.str "m")), ("adsorbate", .scalar (.str "N2"))], .none⟩ =
    canon ⟨[("adsorbate", .scalar (.str "N2")), ("material", .scalar (.str "m"))], .none⟩ := by decide

end PgVerif.C05
