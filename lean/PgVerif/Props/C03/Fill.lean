/-
C03, continued — fill rules of `loading_at` / `pressure_at` ("refused outside the measured range UNLESS A FILL RULE IS GIVEN").

  I  `interpFill`: `interpLin` completed by an optional fill rule, a pair (value below the first knot, value above the last one);
     a single number `c` is the pair `(c, c)` (`fillNumber`).  The rule is an `Option`: "no rule" is `none` and nothing else — the
     VALUE of a rule is never truth-tested, so the rule "zero outside the data" (`fillNumber 0`, falsy in Python) is a rule like any
     other: `interpFill_below`, `interpFill_above` hold for every value, `interpFill_zero_rule` spells the instance out.
     Inside the range the rule is irrelevant (`interpFill_inside`), so the laws of section E (knots, straight line) carry over;
     without a rule the accessor is `interpLin` (`interpFill_no_rule`, refusal outside by `interpLin_outside`).
     Tie: harness/props/c03.py section (8a)-(8b) evaluates exactly these four clauses on the real accessors for every rule kind
     with the number zero in eight Python / numpy types.
-/
import PgVerif.Props.C03
set_option linter.unusedSectionVars false
set_option linter.unusedVariables false

namespace PgVerif.C03
open PgVerif.Model

section Fill
variable {α : Type} [Field α] [LinearOrder α]

/-- the rule given as a single number: the same value on both sides (`interp1d(fill_value=c)`) -/
def fillNumber (c : α) : α × α := (c, c)

/-- `interp1d(kind='linear', fill_value=rule, bounds_error=False)` when a rule is given, `interp1d(kind='linear')` when none is -/
def interpFill (fill : Option (α × α)) (ps ls : List α) (x : α) : Option α :=
  match interpLin ps ls x with
  | some y => some y
  | none =>
    match fill, ps with
    | some (lo, hi), p0 :: _ => some (if x < p0 then lo else hi)
    | _, _ => none

/-- without a rule the accessor is the bare interpolant (refusal outside the measured range: `interpLin_outside`) -/
theorem interpFill_no_rule (ps ls : List α) (x : α) : interpFill none ps ls x = interpLin ps ls x := by
  unfold interpFill
  cases interpLin ps ls x <;> rfl

/-- where the interpolant answers, the rule plays no part (data at the knots, straight line between: section E) -/
theorem interpFill_inside (fill : Option (α × α)) (ps ls : List α) (x y : α) (h : interpLin ps ls x = some y) :
    interpFill fill ps ls x = some y := by
  unfold interpFill
  rw [h]

private lemma head_le_getLast (ps : List α) (hs : ps.Pairwise (· < ·)) (hne : ps ≠ []) : ps.head hne ≤ ps.getLast hne := by
  cases ps with
  | nil => exact absurd rfl hne
  | cons p0 t =>
    have hm : (p0 :: t).getLast hne ∈ p0 :: t := List.getLast_mem hne
    rcases List.mem_cons.mp hm with h | h
    · simp only [List.head_cons]; exact h.ge
    · simp only [List.head_cons]; exact (List.rel_of_pairwise_cons hs h).le

/-- below the first measured point a rule answers with its lower value — WHATEVER that value is (zero included) -/
theorem interpFill_below (lo hi : α) (ps ls : List α) (hs : ps.Pairwise (· < ·)) (hne : ps ≠ []) (x : α)
    (h : x < ps.head hne) : interpFill (some (lo, hi)) ps ls x = some lo := by
  have ho := interpLin_outside ps ls hs hne x (Or.inl h)
  cases ps with
  | nil => exact absurd rfl hne
  | cons p0 t =>
    unfold interpFill
    rw [ho]
    simp only [List.head_cons] at h
    simp [h]

/-- above the last measured point a rule answers with its upper value — whatever that value is -/
theorem interpFill_above (lo hi : α) (ps ls : List α) (hs : ps.Pairwise (· < ·)) (hne : ps ≠ []) (x : α)
    (h : ps.getLast hne < x) : interpFill (some (lo, hi)) ps ls x = some hi := by
  have ho := interpLin_outside ps ls hs hne x (Or.inr h)
  have hle := head_le_getLast ps hs hne
  cases ps with
  | nil => exact absurd rfl hne
  | cons p0 t =>
    unfold interpFill
    rw [ho]
    simp only [List.head_cons] at hle
    have : ¬ x < p0 := not_lt.mpr (hle.trans h.le)
    simp [this]

/-- the falsy member of the rules: "zero outside the data" is honoured on both sides, never refused -/
theorem interpFill_zero_rule (ps ls : List α) (hs : ps.Pairwise (· < ·)) (hne : ps ≠ []) (x : α)
    (h : x < ps.head hne ∨ ps.getLast hne < x) : interpFill (some (fillNumber 0)) ps ls x = some 0 := by
  rcases h with h | h
  · exact interpFill_below 0 0 ps ls hs hne x h
  · exact interpFill_above 0 0 ps ls hs hne x h

/-- a rule is given: the query is answered everywhere (no refusal), for every rule -/
theorem interpFill_answers (rule : α × α) (ps ls : List α) (hne : ps ≠ []) (x : α) :
    (interpFill (some rule) ps ls x).isSome := by
  cases ps with
  | nil => exact absurd rfl hne
  | cons p0 t =>
    unfold interpFill
    cases interpLin (p0 :: t) ls x <;> simp

/-- a number `c` and the pair `(c, c)` are the same rule (definitionally): one answer for both spellings -/
theorem interpFill_number_eq_pair (c : α) (ps ls : List α) (x : α) :
    interpFill (some (fillNumber c)) ps ls x = interpFill (some (c, c)) ps ls x := rfl

-- non-vacuity / behaviour on an instance: knots 1 < 2 < 4, the zero rule and a pair with a zero member
example : interpFill (some (fillNumber (0 : ℚ))) [1, 2, 4] [10, 20, 60] (1 / 2) = some 0 := by decide +kernel
example : interpFill (some (fillNumber (0 : ℚ))) [1, 2, 4] [10, 20, 60] 5 = some 0 := by decide +kernel
example : interpFill (some (fillNumber (0 : ℚ))) [1, 2, 4] [10, 20, 60] 3 = some 40 := by decide +kernel
example : interpFill (some ((0 : ℚ), 15 / 2)) [1, 2, 4] [10, 20, 60] 5 = some (15 / 2) := by decide +kernel
example : interpFill (none : Option (ℚ × ℚ)) [1, 2, 4] [10, 20, 60] 5 = none := by decide +kernel
example : ([1, 2, 4] : List ℚ).Pairwise (· < ·) := by decide +kernel

/-- finding S60-C03, stated by the accessor model as the code has it (`applyLimits_inactive`): an UPPER limit of zero is taken for
"no limits" — on a branch that holds the origin the whole branch comes back, not the single point inside `(-∞, 0]` -/
theorem applyLimits_upper_zero_witness :
    applyLimits ([0, 1, 2] : List ℚ) (some (none, some 0)) = [0, 1, 2] ∧ ([0, 1, 2] : List ℚ).filter (· ≤ 0) = [0] := by
  decide +kernel

/-- limits on data that are NOT ascending (a hysteresis loop: up, then down; a desorption branch alone, stored descending): the selection is by
VALUE, in measurement order — a bisection that assumes ascending data returns `[2, 3]` on the first and nothing on the second (round 8, C03-m1) -/
theorem applyLimits_hysteresis_witness :
    applyLimits ([1, 2, 3, 4, 5 / 2, 3 / 2] : List ℚ) (some (some (6 / 5), some (7 / 2))) = [2, 3, 5 / 2, 3 / 2] ∧
    applyLimits ([4, 5 / 2, 3 / 2, 1 / 2] : List ℚ) (some (some 1, none)) = [4, 5 / 2, 3 / 2] := by
  decide +kernel

end Fill
end PgVerif.C03
