/-
C03, continued — whole accessors, model-isotherm columns, `find_limit_indices`, and the temperature seen by the accessors.

  F  `column` (branch → conversion → limits): a slice in requested units = the same slice of the permanently converted
     copy read natively (`pressureColumn_eq_convert`, `loadingColumn_eq_convert`); `other_data`, `has_branch`, the
     ordered read of the characterisation routines; model isotherms (`linspace`, strict limits, branch guard, one factor);
     `find_limit_indices` on an increasing array.
  G  `kelvin`: the accessors take adsorbate constants at the temperature IN KELVIN, hence do not depend on the stored
     temperature unit and are invariant under `convert_temperature`.
  H  `loading_at` / `pressure_at` as a whole (input conversion → interpolation / model → output conversion):
     `interpLin_scale` (interpolation commutes with a change of representation), hence the value in requested units is the
     native interpolation of the permanently converted copy; model isotherms: bare model between the two factors.
-/
import PgVerif.Props.C03
set_option linter.unusedSectionVars false
set_option linter.unusedSimpArgs false
set_option linter.unusedVariables false

namespace PgVerif.C03
open PgVerif.Model PgVerif.Gen

section Whole
variable {α : Type} [Field α] [LinearOrder α]

lemma mapM_ok' {β γ : Type} (g : β → γ) (l : List β) :
    l.mapM (fun v => (Except.ok (g v) : Except Err γ)) = .ok (l.map g) := by
  induction l with
  | nil => rfl
  | cons x t ih => simp only [List.mapM_cons, ih, List.map_cons]; rfl

lemma dataBranch_map {β γ : Type} (g : β → γ) (rows : List (β × Nat)) (branch : Option String) :
    dataBranch (rows.map fun r => (g r.1, r.2)) branch = (dataBranch rows branch).map (List.map g) := by
  unfold dataBranch
  cases branch with
  | none => simp [Except.map, Function.comp_def]
  | some b =>
    simp only []
    split_ifs <;> simp [Except.map, List.filter_map, Function.comp_def]

/-- a column whose conversion is "multiply by `f`" is the native column of the data multiplied by `f`:
same branch rows, same order, and the limits act on the converted numbers -/
lemma column_of_factor (acc : α → Except Err α) (f : α) (h : ∀ v, acc v = .ok (v * f)) (base : List α) (marks : List Nat)
    (branch : Option String) (limits : Option (Option α × Option α)) :
    column acc (base.zip marks) branch limits
      = column (fun v => .ok v) ((base.map (· * f)).zip marks) branch limits := by
  have hz : (base.map (· * f)).zip marks = (base.zip marks).map fun r => (r.1 * f, r.2) := by
    rw [List.zip_map_left]; rfl
  have hacc : acc = fun v => Except.ok (v * f) := funext h
  have hdm := dataBranch_map (fun v : α => v * f) (base.zip marks) branch
  unfold column
  rw [hz, hdm, hacc]
  cases hd : dataBranch (base.zip marks) branch with
  | error e => rfl
  | ok vs =>
    have h1 := mapM_ok' (fun v : α => v * f) vs
    have h2 := mapM_ok' (fun v : α => v) (vs.map (· * f))
    simp only [Except.map, bind, Except.bind, pure, Except.pure] at h1 h2 ⊢
    rw [h1, h2]
    simp [Function.comp_def]

lemma accessPressure_native (c : Ctx α) (lab : Labels) (v : α) : accessPressure c lab v none none = .ok v := by
  simp [accessPressure, truthy]

lemma accessLoadingTarget_native (c : Ctx α) (lab : Labels) (v : α) :
    accessLoadingTarget c lab v none none none none = .ok v := by
  simp [accessLoadingTarget, truthy]; rfl

/-- **whole-branch pressure accessor, with limits = native read of the permanently converted copy** (same branch,
same limits): `iso.pressure(branch, pressure_mode, pressure_unit, limits)` returns what `copy.convert_pressure(...)`
followed by `copy.pressure(branch, limits=limits)` returns — in particular the limits are bounds on the REQUESTED
representation, and the rows come in stored order. -/
theorem pressureColumn_eq_convert [CharZero α] (c : Ctx α) (s : Iso α) (marks : List Nat) (branch pm pu : Option String)
    (limits : Option (Option α × Option α))
    (harg : truthy pm = true ∨ truthy pu = true) (hlab : PLabelsOk s.lab) :
    ∀ s', convertPressure c s pm pu = (s', .ok) →
      pressureColumn c s.lab (s.ps.zip marks) branch pm pu limits
        = pressureColumn c s'.lab (s'.ps.zip marks) branch none none limits := by
  intro s' hs'
  obtain ⟨f, hps, hacc⟩ := (accessPressure_eq_convert c s pm pu harg hlab).1 s' hs'
  unfold pressureColumn
  rw [column_of_factor _ f hacc, hps]
  rfl

/-- the same for the loading accessor (stored loading basis physical; material step then loading step) -/
theorem loadingColumn_eq_convert [CharZero α] (c : Ctx α) (s : Iso α) (marks : List Nat) (branch lb lu mb mu : Option String)
    (limits : Option (Option α × Option α)) (hF : isFrac s.lab.lbasis = false)
    (hL : (loadingMode.lookup s.lab.lbasis).isSome = true) (hM : (materialMode.lookup s.lab.mbasis).isSome = true) :
    ∀ s', convertAll c s none none lb lu mb mu = (s', .ok) →
      loadingColumn c s.lab (s.ls.zip marks) branch lb lu mb mu limits
        = loadingColumn c s'.lab (s'.ls.zip marks) branch none none none none limits := by
  intro s' hs'
  obtain ⟨f, hls, hacc⟩ := (accessLoadingTarget_eq_convert c s lb lu mb mu hF hL hM).1 s' hs'
  unfold loadingColumn
  rw [column_of_factor _ f hacc, hls]
  rfl

/-- a native column (pressure, loading or a supplementary column read without unit arguments) returns stored values of
that branch only, in measurement order -/
theorem column_native_sublist (rows : List (α × Nat)) (branch : Option String) (limits : Option (Option α × Option α))
    (out : List α) (h : column (fun v => .ok v) rows branch limits = .ok out) :
    ∃ vs, dataBranch rows branch = .ok vs ∧ out = applyLimits vs limits ∧ out.Sublist (rows.map (·.1)) := by
  unfold column at h
  cases hd : dataBranch rows branch with
  | error e => rw [hd] at h; cases h
  | ok vs =>
    rw [hd] at h
    have h2 := mapM_ok' (fun v : α => v) vs
    simp only [bind, Except.bind, pure, Except.pure, List.map_id'] at h h2
    rw [h2] at h
    cases h
    exact ⟨vs, rfl, rfl, (applyLimits_sublist vs limits).trans (dataBranch_sublist rows branch vs hd)⟩

/-- `other_data`: an unknown key is refused; a known key is the native column -/
theorem otherColumn_unknown (rows : List (α × Nat)) (branch : Option String) (limits : Option (Option α × Option α)) :
    otherColumn false rows branch limits = .error .param := rfl

theorem otherColumn_known (rows : List (α × Nat)) (branch : Option String) (limits : Option (Option α × Option α)) :
    otherColumn true rows branch limits = column (fun v => .ok v) rows branch limits := rfl

/-- `has_branch`: true exactly when some stored row carries the mark of the branch -/
theorem hasBranch_ads (marks : List Nat) : hasBranch marks (some "ads") = .ok (decide (0 ∈ marks)) := by
  unfold hasBranch
  rw [dataBranch_ads]
  simp only [Except.map]
  congr 1
  induction marks with
  | nil => rfl
  | cons m t ih => by_cases hm : m = 0 <;> simp_all [List.filter_cons]; (intro h; exact absurd h.symm hm)

theorem hasBranch_des (marks : List Nat) : hasBranch marks (some "des") = .ok (decide (1 ∈ marks)) := by
  unfold hasBranch
  rw [dataBranch_des]
  simp only [Except.map]
  congr 1
  induction marks with
  | nil => rfl
  | cons m t ih => by_cases hm : m = 1 <;> simp_all [List.filter_cons]; (intro h; exact absurd h.symm hm)

/-- the reading layer of the characterisation routines returns the two whole-branch accessors, reversed together on the
desorption branch (so that row `i` of one still belongs to row `i` of the other) -/
theorem orderedRead_spec (c : Ctx α) (lab : Labels) (prow lrow : List (α × Nat)) (branch : String)
    (pm pu lb lu mb mu : Option String) (p l : List α)
    (hp : pressureColumn c lab prow (some branch) pm pu none = .ok p)
    (hl : loadingColumn c lab lrow (some branch) lb lu mb mu none = .ok l) :
    orderedRead c lab prow lrow branch pm pu lb lu mb mu =
      .ok (if branch = "des" then (p.reverse, l.reverse) else (p, l)) := by
  unfold orderedRead
  rw [hp, hl]
  by_cases hb : branch = "des" <;> simp [orderedForBranch, hb, bind, Except.bind, pure, Except.pure]

/-! ### model isotherms -/

theorem applyLimitsStrict_sublist (vs : List α) (l : Option (Option α × Option α)) :
    (applyLimitsStrict vs l).Sublist vs := by
  unfold applyLimitsStrict
  cases l with
  | none => exact List.Sublist.refl _
  | some p =>
    obtain ⟨lo, hi⟩ := p
    simp only []
    split_ifs
    · exact List.Sublist.refl _
    · exact List.filter_sublist

/-- model isotherms slice with strict bounds: a point is kept iff it lies strictly inside the bounds given -/
theorem applyLimitsStrict_spec (vs : List α) (lo hi : Option α) (x : α) :
    x ∈ applyLimitsStrict vs (some (lo, hi)) ↔
      x ∈ vs ∧ (limitsActive lo hi → (∀ a, lo = some a → a < x) ∧ (∀ b, hi = some b → x < b)) := by
  unfold limitsActive applyLimitsStrict
  cases lo <;> cases hi <;> simp only [] <;> split_ifs <;> simp_all
  tauto

theorem linspace_length (a b : α) (n : Nat) : (linspace a b n).length = n := by simp [linspace]

/-- the points are `a + i (b - a)/(n - 1)`: the first is `a`, the last is `b` -/
theorem linspace_getElem (a b : α) (n i : Nat) (h : i < (linspace a b n).length) :
    (linspace a b n)[i] = a + (b - a) * (i : α) / ((n : α) - 1) := by
  simp [linspace]

theorem linspace_first (a b : α) (n : Nat) (hn : 0 < n) : (linspace a b n)[0]'(by simp [linspace]; exact hn) = a := by
  simp [linspace]

theorem linspace_last [CharZero α] (a b : α) (n : Nat) (hn : 2 ≤ n) :
    (linspace a b n)[n - 1]'(by simp [linspace]; omega) = b := by
  have h1 : ((n - 1 : Nat) : α) = (n : α) - 1 := by
    rw [Nat.cast_sub (by omega)]; simp
  have h2 : (n : α) - 1 ≠ 0 := by
    rw [← h1]; exact_mod_cast (by omega : n - 1 ≠ 0)
  simp only [linspace, List.getElem_map, List.getElem_range, h1]
  field_simp
  ring

/-- scaling the range scales the equidistant points -/
theorem linspace_mul (a b f : α) (n : Nat) : (linspace a b n).map (· * f) = linspace (a * f) (b * f) n := by
  simp only [linspace, List.map_map]
  apply List.map_congr_left
  intro i _
  simp only [Function.comp]
  ring

/-- `ModelIsotherm.pressure_at` converts its result exactly like `PointIsotherm.pressure` converts a stored value
(only the error is not re-wrapped), so the SI statements of section B apply to model isotherms as well -/
theorem outputPressureModel_ok_iff (c : Ctx α) (lab : Labels) (v r : α) (pm pu : Option String) :
    outputPressureModel c lab v pm pu = .ok r ↔ accessPressure c lab v pm pu = .ok r := by
  unfold outputPressureModel accessPressure
  split_ifs
  · cases cPressure c.psat c.tempOk v (some lab.pmode) (orDefault pm (some lab.pmode)) lab.punit (orDefault pu lab.punit) <;>
      simp
  · rfl

/-- a branch other than the one the model was fitted on is refused (`'all'` passes for `pressure()` only) -/
theorem modelPressureColumn_wrong_branch (c : Ctx α) (lab : Labels) (own : String) (lo hi : α) (n : Nat)
    (branch pm pu : Option String) (limits : Option (Option α × Option α)) (h : modelBranchOk own true branch = false) :
    modelPressureColumn c lab own lo hi n branch pm pu limits = .error .param := by
  simp [modelPressureColumn, h]

theorem modelLoadingColumn_wrong_branch (c : Ctx α) (lab : Labels) (own : String) (m : α → α) (lo hi : α) (n : Nat)
    (branch lb lu mb mu : Option String) (limits : Option (Option α × Option α)) (h : modelBranchOk own false branch = false) :
    modelLoadingColumn c lab own m lo hi n branch lb lu mb mu limits = .error .param := by
  simp [modelLoadingColumn, h]

/-- **whole-branch pressure of a model isotherm in requested units**: the equidistant points of the pressure range
EXPRESSED IN THE REQUESTED REPRESENTATION (what a model isotherm stored in that representation would return natively),
strictly inside the limits, which therefore are bounds in the requested representation -/
theorem modelPressureColumn_eq_factor [CharZero α] (c : Ctx α) (lab : Labels) (own : String) (lo hi : α) (n : Nat)
    (branch pm pu : Option String) (limits : Option (Option α × Option α)) (f : α)
    (hb : modelBranchOk own true branch = true) (harg : truthy pm = true ∨ truthy pu = true)
    (hf : pFactor c lab pm pu = .ok f) :
    modelPressureColumn c lab own lo hi n branch pm pu limits
      = .ok (applyLimitsStrict (linspace (lo * f) (hi * f) n) limits) := by
  have hacc : (fun v => outputPressureModel c lab v pm pu) = fun v => Except.ok (v * f) := by
    funext v
    have h1 := accessPressure_eq_factor c lab v pm pu harg
    rw [hf] at h1
    exact (outputPressureModel_ok_iff c lab v (v * f) pm pu).2 h1
  unfold modelPressureColumn
  rw [hb, hacc]
  have h1 := mapM_ok' (fun v : α => v * f) (linspace lo hi n)
  simp only [Bool.not_true, Bool.false_eq_true, if_false, bind, Except.bind, pure, Except.pure] at h1 ⊢
  rw [h1, linspace_mul]

/-- native read of a model isotherm: the equidistant points themselves -/
theorem modelPressureColumn_native (c : Ctx α) (lab : Labels) (own : String) (lo hi : α) (n : Nat)
    (branch : Option String) (limits : Option (Option α × Option α)) (hb : modelBranchOk own true branch = true) :
    modelPressureColumn c lab own lo hi n branch none none limits = .ok (applyLimitsStrict (linspace lo hi n) limits) := by
  have hacc : (fun v => outputPressureModel c lab v none none) = fun v => Except.ok v := by
    funext v; simp [outputPressureModel, truthy]
  unfold modelPressureColumn
  rw [hb, hacc]
  have h1 := mapM_ok' (fun v : α => v) (linspace lo hi n)
  simp only [Bool.not_true, Bool.false_eq_true, if_false, bind, Except.bind, pure, Except.pure, List.map_id'] at h1 ⊢
  rw [h1]

/-- **whole-branch loading of a model isotherm in requested units**: the bare model on the native equidistant
pressures, every value multiplied by the one factor `tFactor` of the request (material step, then loading step) -/
theorem modelLoadingColumn_eq_factor [CharZero α] (c : Ctx α) (lab : Labels) (own : String) (m : α → α) (lo hi : α) (n : Nat)
    (branch lb lu mb mu : Option String) (limits : Option (Option α × Option α)) (f : α)
    (hb : modelBranchOk own false branch = true) (hf : tFactor c lab lb lu mb mu = .ok f) :
    modelLoadingColumn c lab own m lo hi n branch lb lu mb mu limits
      = .ok (applyLimitsStrict (((linspace lo hi n).map m).map (· * f)) limits) := by
  have hacc : (fun v => accessLoadingTarget c lab (m v) lb lu mb mu) = fun v => Except.ok (m v * f) := by
    funext v
    rw [accessLoadingTarget_eq_factor, hf]; rfl
  unfold modelLoadingColumn
  rw [hb, hacc]
  have h1 := mapM_ok' (fun v : α => m v * f) (linspace lo hi n)
  simp only [Bool.not_true, Bool.false_eq_true, if_false, bind, Except.bind, pure, Except.pure] at h1 ⊢
  rw [h1]
  simp [List.map_map, Function.comp_def]

/-! ### `find_limit_indices` on an increasing array -/

lemma searchLeft_cons (x : α) (t : List α) (a : α) :
    searchLeft (x :: t) a = (if x < a then 1 else 0) + searchLeft t a := by
  unfold searchLeft
  by_cases h : x < a <;> simp [List.filter_cons, h, Nat.add_comm]

/-- on an increasing array the elements `< a` are exactly those at the positions before `searchLeft xs a` -/
theorem searchLeft_spec (xs : List α) (hs : xs.Pairwise (· ≤ ·)) (a : α) (k : Nat) (hk : k < xs.length) :
    xs[k] < a ↔ k < searchLeft xs a := by
  induction xs generalizing k with
  | nil => simp at hk
  | cons x t ih =>
    rw [List.pairwise_cons] at hs
    rw [searchLeft_cons]
    by_cases hx : x < a
    · cases k with
      | zero => simp [hx]
      | succ k' =>
        have := ih hs.2 k' (by simpa using hk)
        simp only [List.getElem_cons_succ, hx, if_true]
        rw [this]; omega
    · have hall : ∀ y ∈ t, ¬ y < a := fun y hy hya => hx (lt_of_le_of_lt (hs.1 y hy) hya)
      have h0 : searchLeft t a = 0 := by
        unfold searchLeft
        rw [List.length_eq_zero_iff, List.filter_eq_nil_iff]
        intro y hy; simpa using hall y hy
      simp only [hx, if_false, h0, Nat.add_zero, Nat.not_lt_zero, iff_false]
      cases k with
      | zero => simpa using hx
      | succ k' =>
        simp only [List.getElem_cons_succ]
        exact hall _ (List.getElem_mem _)

/-- **`find_limit_indices` selects exactly the points inside the limits**: on an increasing array the returned
positions `(i, j)` delimit the elements `x` with `lo ≤ x` (when a non-zero lower limit is given) and `x < hi` (when a
non-zero upper limit is given) — the upper bound is exclusive, unlike `Series.between` of the accessors. -/
theorem findLimitIndices_spec (xs : List α) (hs : xs.Pairwise (· ≤ ·)) (lo hi : Option α) (sm : Int) (i j : Int)
    (h : findLimitIndices xs (some (lo, hi)) sm = .ok (i, j)) (k : Nat) (hk : k < xs.length) :
    (i ≤ (k : Int) ∧ (k : Int) ≤ j) ↔
      ((∀ a, lo = some a → a ≠ 0 → a ≤ xs[k]) ∧ (∀ b, hi = some b → b ≠ 0 → xs[k] < b)) := by
  unfold findLimitIndices at h
  simp only [Option.getD_some] at h
  split_ifs at h with hsm
  simp only [Except.ok.injEq, Prod.mk.injEq] at h
  obtain ⟨hi', hj'⟩ := h
  subst hi' hj'
  have key := fun a => searchLeft_spec xs hs a k hk
  constructor
  · rintro ⟨h1, h2⟩
    refine ⟨fun a ha ha0 => ?_, fun b hb hb0 => ?_⟩
    · subst ha
      simp only [ha0, ne_eq, not_false_eq_true, if_true] at h1
      by_contra hlt
      have := (key a).1 (not_le.1 hlt)
      omega
    · subst hb
      simp only [hb0, ne_eq, not_false_eq_true, if_true] at h2
      exact (key b).2 (by omega)
  · rintro ⟨h1, h2⟩
    constructor
    · cases lo with
      | none => simp
      | some a =>
        by_cases ha0 : a = 0
        · simp [ha0]
        · simp only [ne_eq, ha0, not_false_eq_true, if_true]
          have := h1 a rfl ha0
          have hn : ¬ k < searchLeft xs a := fun hlt => not_le.2 ((key a).2 hlt) this
          omega
    · cases hi with
      | none => simp; omega
      | some b =>
        by_cases hb0 : b = 0
        · simp [hb0]; omega
        · simp only [ne_eq, hb0, not_false_eq_true, if_true]
          have := (key b).1 (h2 b rfl hb0)
          omega

/-- fewer than `smallest_selection` steps between the two positions is refused -/
theorem findLimitIndices_refused (xs : List α) (limits : Option (Option α × Option α)) (sm : Int) (e : Err)
    (h : findLimitIndices xs limits sm = .error e) : e = .calc := by
  unfold findLimitIndices at h
  dsimp only at h
  split_ifs at h
  cases h; rfl

example : findLimitIndices ([1, 2, 3, 4, 5, 6] : List ℚ) (some (some 2, some 5)) 1 = .ok (1, 3) := by decide +kernel
example : findLimitIndices ([1, 2, 3, 4, 5, 6] : List ℚ) none 3 = .ok (0, 5) := by decide +kernel
example : findLimitIndices ([1, 2, 3] : List ℚ) (some (some 2, none)) 3 = .error .calc := by decide +kernel
example : linspace (0 : ℚ) 1 5 = [0, 1 / 4, 1 / 2, 3 / 4, 1] := by decide +kernel
example : applyLimitsStrict ([0, 25, 50, 75, 100] : List ℚ) (some (some 0, some 100)) = [25, 50, 75] := by decide +kernel
example : hasBranch [0, 0, 1] (some "des") = .ok true ∧ hasBranch [0, 0] (some "des") = .ok false := by decide +kernel

end Whole

/-! ## G. The temperature seen by the accessors

The saturation pressure of a pressure-MODE change and the densities of a loading-BASIS change are taken at
`self.temperature`, the stored temperature expressed in kelvin — not at the raw stored number.  Consequences proved here:
the accessors do not depend on the unit the temperature is stored in, they are unchanged by `convert_temperature`, and
"accessor = read ∘ permanent conversion" holds in every temperature state. -/

section Temperature
variable {α : Type} [Field α] [LinearOrder α]

lemma containsC_degC : containsC "°C" = true := by decide +kernel
lemma containsC_K : containsC "K" = false := by decide +kernel

lemma normTemp_K : normTemp (some "K") = some "K" := by
  simp [normTemp, containsC_K]

lemma normTemp_degC : normTemp (some "°C") = some "°C" := by
  simp [normTemp, containsC_degC]

lemma tempOffset_K : (tempOffset "K" : Option α) = some (-(5463 / 20)) := by
  simp [tempOffset, temperatureUnits, List.lookup]
  ring

lemma tempOffset_degC : (tempOffset "°C" : Option α) = some (5463 / 20) := by
  have h : ("°C" == "K") = false := by decide +kernel
  simp [tempOffset, temperatureUnits, List.lookup, h]

/-- an accepted temperature label is `K` or `°C` (the two rows of the generated table) -/
lemma checkTemp_ok_cases (u : Option String) (o : α) (h : checkTemp u = .ok o) : u = some "K" ∨ u = some "°C" := by
  unfold checkTemp at h
  cases u with
  | none => cases h
  | some s =>
    simp only [] at h
    split_ifs at h with h0
    have : (temperatureUnits.lookup s).isSome = true := by
      unfold tempOffset at h
      cases hl : temperatureUnits.lookup s with
      | none => rw [hl] at h; cases h
      | some e => rfl
    simp only [temperatureUnits, List.lookup] at this
    by_cases h1 : s = "K"
    · left; rw [h1]
    · by_cases h2 : s = "°C"
      · right; rw [h2]
      · have e1 : (s == "K") = false := by simpa using h1
        have e2 : (s == "°C") = false := by simpa using h2
        simp [e1, e2] at this

/-- kelvin stays kelvin -/
theorem kelvin_K (t : α) : kelvin (some "K") t = .ok t := by simp [kelvin]

/-- degrees Celsius are shifted by 273.15 -/
theorem kelvin_degC (t : α) : kelvin (some "°C") t = .ok (t + 5463 / 20) := by
  have hne : (some "°C" : Option String) ≠ some "K" := by decide +kernel
  unfold kelvin cTemperature
  rw [if_neg hne, normTemp_K, normTemp_degC]
  simp only [checkTemp, tempOffset_K, tempOffset_degC, bind, Except.bind, pure, Except.pure]
  have h1 : ("K" : String) ≠ "" := by decide
  have h2 : ("°C" : String) ≠ "" := by decide +kernel
  simp only [h1, h2, if_false, hne, ite_false]
  congr 1
  ring

/-- **the temperature in kelvin is invariant under `convert_temperature`**: whatever accepted spelling is asked for,
the converted state describes the same physical temperature -/
theorem kelvin_convertTemperature (s : Iso α) (u : Option String)
    (hu : s.lab.tunit = some "K" ∨ s.lab.tunit = some "°C") (s' : Iso α)
    (h : convertTemperature s u = (s', .ok)) :
    kelvin s'.lab.tunit s'.temp = kelvin s.lab.tunit s.temp := by
  unfold convertTemperature at h
  cases hc : cTemperature s.temp s.lab.tunit u with
  | error e => rw [hc] at h; cases h
  | ok t =>
    rw [hc] at h
    simp only [Prod.mk.injEq, and_true] at h
    subst h
    simp only []
    unfold cTemperature at hc
    dsimp only at hc
    cases h1 : (checkTemp (normTemp u) : Except Err α) with
    | error e => rw [h1] at hc; cases hc
    | ok ot =>
      have hcases := checkTemp_ok_cases _ _ h1
      rcases hu with hK | hC
      · rw [hK, normTemp_K] at hc
        rw [hK, kelvin_K]
        rcases hcases with hn | hn
        · rw [hn] at hc ⊢
          simp [checkTemp, tempOffset_K, bind, Except.bind, pure, Except.pure] at hc
          rw [kelvin_K, hc]
        · rw [hn] at hc ⊢
          have hne : (some "K" : Option String) ≠ some "°C" := by decide +kernel
          have h2 : ("°C" : String) ≠ "" := by decide +kernel
          simp [checkTemp, tempOffset_K, tempOffset_degC, bind, Except.bind, pure, Except.pure, h2, hne] at hc
          rw [kelvin_degC, ← hc]; congr 1; ring
      · rw [hC, normTemp_degC] at hc
        rw [hC, kelvin_degC]
        rcases hcases with hn | hn
        · rw [hn] at hc ⊢
          have hne : (some "°C" : Option String) ≠ some "K" := by decide +kernel
          have h2 : ("°C" : String) ≠ "" := by decide +kernel
          simp [checkTemp, tempOffset_K, tempOffset_degC, bind, Except.bind, pure, Except.pure, h2, hne] at hc
          rw [kelvin_K, ← hc]
        · rw [hn] at hc ⊢
          have h2 : ("°C" : String) ≠ "" := by decide +kernel
          simp [checkTemp, tempOffset_degC, bind, Except.bind, pure, Except.pure, h2] at hc
          rw [kelvin_degC, hc]

/-- hence the constants the accessors work with are the same before and after -/
theorem ctx_convertTemperature (th : Thermo α) (s : Iso α) (u : Option String)
    (hu : s.lab.tunit = some "K" ∨ s.lab.tunit = some "°C") (s' : Iso α)
    (h : convertTemperature s u = (s', .ok)) :
    th.ctx s'.lab.tunit s'.temp = th.ctx s.lab.tunit s.temp := by
  unfold Thermo.ctx
  rw [kelvin_convertTemperature s u hu s' h]

/-- only the temperature label and number move: the other labels and the data are those of `s` -/
lemma convertTemperature_rest (s : Iso α) (u : Option String) (s' : Iso α) (h : convertTemperature s u = (s', .ok)) :
    s'.lab = { s.lab with tunit := normTemp u } ∧ s'.ps = s.ps ∧ s'.ls = s.ls := by
  unfold convertTemperature at h
  cases hc : cTemperature s.temp s.lab.tunit u with
  | error e => rw [hc] at h; cases h
  | ok t =>
    rw [hc] at h
    simp only [Prod.mk.injEq, and_true] at h
    subst h
    exact ⟨rfl, rfl, rfl⟩

lemma accessPressure_tunit (c : Ctx α) (lab : Labels) (tu : Option String) (v : α) (pm pu : Option String) :
    accessPressure c { lab with tunit := tu } v pm pu = accessPressure c lab v pm pu := rfl

lemma accessLoadingTarget_tunit (c : Ctx α) (lab : Labels) (tu : Option String) (v : α) (lb lu mb mu : Option String) :
    accessLoadingTarget c { lab with tunit := tu } v lb lu mb mu = accessLoadingTarget c lab v lb lu mb mu := rfl

/-- **the pressure accessor does not depend on the unit the temperature is stored in**: every request (in particular a
pressure-mode change, which needs `p0(T)`) gives the same answer before and after `convert_temperature` -/
theorem accessPressureAt_convertTemperature (th : Thermo α) (s : Iso α) (u : Option String)
    (hu : s.lab.tunit = some "K" ∨ s.lab.tunit = some "°C") (s' : Iso α)
    (h : convertTemperature s u = (s', .ok)) (v : α) (pm pu : Option String) :
    accessPressureAt th s' v pm pu = accessPressureAt th s v pm pu := by
  unfold accessPressureAt
  rw [ctx_convertTemperature th s u hu s' h, (convertTemperature_rest s u s' h).1]
  rfl

/-- the same for the loading accessor (a loading-basis change needs the densities at `T`) -/
theorem accessLoadingAt_convertTemperature (th : Thermo α) (s : Iso α) (u : Option String)
    (hu : s.lab.tunit = some "K" ∨ s.lab.tunit = some "°C") (s' : Iso α)
    (h : convertTemperature s u = (s', .ok)) (v : α) (lb lu mb mu : Option String) :
    accessLoadingAt th s' v lb lu mb mu = accessLoadingAt th s v lb lu mb mu := by
  unfold accessLoadingAt
  rw [ctx_convertTemperature th s u hu s' h, (convertTemperature_rest s u s' h).1]
  rfl

/-- an isotherm stored in °C at `t` reads like the one stored in K at `t + 273.15` (same labels otherwise) -/
theorem accessPressureAt_degC (th : Thermo α) (lab : Labels) (ps ls : List α) (t : α) (b1 b2 : Bool) (v : α)
    (pm pu : Option String) :
    accessPressureAt th ⟨{ lab with tunit := some "°C" }, ps, ls, t, b1, b2⟩ v pm pu
      = accessPressureAt th ⟨{ lab with tunit := some "K" }, ps, ls, t + 5463 / 20, b1, b2⟩ v pm pu := by
  unfold accessPressureAt Thermo.ctx
  simp only [kelvin_K, kelvin_degC]
  rfl

/-- **accessor = read ∘ permanent conversion in every temperature state**: with the constants taken at the kelvin
temperature of the state (`Thermo.ctx`), the three clauses of `accessPressure_eq_convert` hold for the state-level
accessor; the permanent conversion is the one of C02 run with the same constants. -/
theorem accessPressureAt_eq_convert [CharZero α] (th : Thermo α) (s : Iso α) (c : Ctx α)
    (hc : th.ctx s.lab.tunit s.temp = .ok c) (pm pu : Option String)
    (harg : truthy pm = true ∨ truthy pu = true) (hlab : PLabelsOk s.lab) :
    (∀ s', convertPressure c s pm pu = (s', .ok) →
      ∃ f, s'.ps = s.ps.map (· * f) ∧ ∀ v, accessPressureAt th s v pm pu = .ok (v * f)) ∧
    (∀ s' e, convertPressure c s pm pu = (s', .err e) →
      e = .calc ∧ s' = s ∧ ∀ v, accessPressureAt th s v pm pu = .error .calc) := by
  have hcond : (truthy pm || truthy pu) = true := by simpa using harg
  have hat : ∀ v, accessPressureAt th s v pm pu = accessPressure c s.lab v pm pu := by
    intro v; unfold accessPressureAt; rw [if_pos hcond, hc]
  obtain ⟨h1, _, h3⟩ := accessPressure_eq_convert c s pm pu harg hlab
  refine ⟨fun s' hs' => ?_, fun s' e hs' => ?_⟩
  · obtain ⟨f, hf, hv⟩ := h1 s' hs'
    exact ⟨f, hf, fun v => by rw [hat, hv]⟩
  · obtain ⟨he, hs, hv⟩ := h3 s' e hs'
    exact ⟨he, hs, fun v => by rw [hat, hv]⟩

/-! non-vacuity: 25 °C is 298.15 K; an adsorbate known only at 298.15 K serves an isotherm stored at 25 °C, and a reading
at the raw number 25 would find nothing -/
def thW : Thermo ℚ := ⟨fun T => if T = 5963 / 20 then some 100000 else none, fun _ _ => none⟩
def isoC : Iso ℚ := ⟨⟨"absolute", some "bar", "molar", some "mmol", "mass", some "g", some "°C"⟩, [1], [2], 25, false, false⟩

example : kelvin (some "°C") (25 : ℚ) = .ok (5963 / 20) := by decide +kernel
example : accessPressureAt thW isoC 1 (some "relative") none = .ok 1 := by decide +kernel
example : (convertTemperature isoC (some "K")).1.temp = 5963 / 20 ∧ (convertTemperature isoC (some "K")).2 = .ok := by
  decide +kernel
example : accessPressureAt thW (convertTemperature isoC (some "K")).1 1 (some "relative") none = .ok 1 := by decide +kernel

end Temperature
/-! ## H. Interpolated / model-evaluated values at a point in requested units -/

section AtPoint
variable {α : Type} [Field α] [LinearOrder α] [IsStrictOrderedRing α]

/-- **interpolation commutes with a change of representation**: scaling the pressures by a positive factor `f`, the
loadings by any factor `g` and the query by `f` scales the interpolated value by `g` (and keeps "outside the range") -/
theorem interpLin_scale (f g : α) (hf : 0 < f) (ps ls : List α) (x : α) :
    interpLin (ps.map (· * f)) (ls.map (· * g)) (x * f) = (interpLin ps ls x).map (· * g) := by
  induction ps generalizing ls with
  | nil => cases ls <;> simp [interpLin]
  | cons p0 pt ih =>
    cases ls with
    | nil => cases pt <;> simp [interpLin]
    | cons l0 lt =>
      cases pt with
      | nil =>
        cases lt with
        | nil =>
          simp only [List.map_cons, List.map_nil, interpLin]
          by_cases h : x = p0
          · simp [h]
          · have : ¬ x * f = p0 * f := fun hh => h (mul_right_cancel₀ hf.ne' hh)
            simp [h, this]
        | cons l1 lt' => simp [interpLin]
      | cons p1 pt' =>
        cases lt with
        | nil => simp [interpLin]
        | cons l1 lt' =>
          have ih' := ih (l1 :: lt')
          simp only [List.map_cons] at ih' ⊢
          unfold interpLin
          have h1 : x * f < p0 * f ↔ x < p0 := mul_lt_mul_iff_of_pos_right hf
          have h2 : x * f ≤ p1 * f ↔ x ≤ p1 := mul_le_mul_iff_of_pos_right hf
          by_cases c1 : x < p0
          · simp [c1, h1.2 c1]
          · have c1' : ¬ x * f < p0 * f := fun h => c1 (h1.1 h)
            by_cases c2 : x ≤ p1
            · simp only [c1, c1', c2, h2.2 c2, if_false, if_true, Option.map_some]
              congr 1
              by_cases hz : p1 - p0 = 0
              · have hz' : p1 * f - p0 * f = 0 := by rw [← sub_mul, hz, zero_mul]
                simp [hz, hz']
              · have hz' : p1 * f - p0 * f ≠ 0 := by
                  rw [← sub_mul]; exact mul_ne_zero hz hf.ne'
                field_simp
            · have c2' : ¬ x * f ≤ p1 * f := fun h => c2 (h2.1 h)
              simp only [c1, c1', c2, c2', if_false]
              exact ih'

/-- **`loading_at` in requested units = native `loading_at` of the permanently converted copy**: if the request
re-expresses stored pressures by the positive factor `fp` (so a supplied pressure is read as `q / fp`) and loadings by
the factor `fl`, then the interpolated value in the requested representation is the linear interpolation through the
CONVERTED knots at the supplied query; a query outside the converted range is refused. -/
theorem pointLoadingAt_eq_converted (c : Ctx α) (lab : Labels) (ps ls : List α) (q fp fl : α) (hfp : 0 < fp)
    (pm pu lb lu mb mu : Option String)
    (hin : ∀ w, inputPressure c lab w pm pu = .ok (w / fp))
    (hout : ∀ v, accessLoadingStored c lab v lb lu mb mu = .ok (v * fl)) :
    pointLoadingAt c lab ps ls q pm pu lb lu mb mu =
      match interpLin (ps.map (· * fp)) (ls.map (· * fl)) q with
      | none => .error .value
      | some l => .ok l := by
  have hq : q = q / fp * fp := by field_simp
  unfold pointLoadingAt
  rw [hin]
  simp only [bind, Except.bind]
  conv_rhs => rw [hq, interpLin_scale fp fl hfp]
  cases interpLin ps ls (q / fp) with
  | none => rfl
  | some l => simp [hout]

/-- the same for `pressure_at`: the supplied loading is read as `q / fl` (`fl > 0`), the interpolated pressure is
re-expressed by `fp` -/
theorem pointPressureAt_eq_converted (c : Ctx α) (lab : Labels) (ls ps : List α) (q fp fl : α) (hfl : 0 < fl)
    (lb lu mb mu pm pu : Option String)
    (hin : ∀ w, inputLoading false c lab w lb lu mb mu = .ok (w / fl))
    (hout : ∀ v, outputPressurePoint c lab v pm pu = .ok (v * fp)) :
    pointPressureAt c lab ls ps q lb lu mb mu pm pu =
      match interpLin (ls.map (· * fl)) (ps.map (· * fp)) q with
      | none => .error .value
      | some p => .ok p := by
  have hq : q = q / fl * fl := by field_simp
  unfold pointPressureAt
  rw [hin]
  simp only [bind, Except.bind]
  conv_rhs => rw [hq, interpLin_scale fl fp hfl]
  cases interpLin ls ps (q / fl) with
  | none => rfl
  | some l => simp [hout]

/-- native query: plain linear interpolation through the stored knots -/
theorem pointLoadingAt_native (c : Ctx α) (lab : Labels) (ps ls : List α) (q : α) :
    pointLoadingAt c lab ps ls q none none none none none none =
      match interpLin ps ls q with
      | none => .error .value
      | some l => .ok l := by
  unfold pointLoadingAt
  simp only [inputPressure, truthy, Bool.or_self, Bool.false_eq_true, if_false, bind, Except.bind]
  cases interpLin ps ls q with
  | none => rfl
  | some l => simp [accessLoadingStored, truthy]; rfl

/-- **model isotherms**: `loading_at` in requested units is the bare model at the supplied pressure brought to the stored
representation, times the one factor of the loading request — what a model isotherm stored in the requested
representation evaluates to -/
theorem modelLoadingAt_eq_factor (c : Ctx α) (lab : Labels) (m : α → α) (q fp fl : α)
    (pm pu lb lu mb mu : Option String)
    (hin : inputPressure c lab q pm pu = .ok (q / fp))
    (hout : ∀ v, accessLoadingTarget c lab v lb lu mb mu = .ok (v * fl)) :
    modelLoadingAt c lab m q pm pu lb lu mb mu = .ok (m (q / fp) * fl) := by
  unfold modelLoadingAt
  rw [hin]
  simp only [bind, Except.bind]
  exact hout _

theorem modelPressureAt_eq_factor (c : Ctx α) (lab : Labels) (mi : α → α) (q fp fl : α)
    (lb lu mb mu pm pu : Option String)
    (hin : inputLoading true c lab q lb lu mb mu = .ok (q / fl))
    (hout : ∀ v, outputPressureModel c lab v pm pu = .ok (v * fp)) :
    modelPressureAt c lab mi q lb lu mb mu pm pu = .ok (mi (q / fl) * fp) := by
  unfold modelPressureAt
  rw [hin]
  simp only [bind, Except.bind]
  exact hout _

/-! non-vacuity: knots 1, 2, 4 bar read in kPa; the query 300 kPa lies on the converted segment 200–400 kPa -/
example : interpLin ([1, 2, 4].map (· * (100 : ℚ))) ([10, 20, 60].map (· * (2 : ℚ))) 300 = some 80 := by decide +kernel
example : pointLoadingAt ctxW labMolar [1, 2, 4] [10, 20, 60] 300 none (some "kPa") none none none none = .ok 40 := by
  decide +kernel
example : pointLoadingAt ctxW labMolar [1, 2, 4] [10, 20, 60] 500 none (some "kPa") none none none none = .error .value := by
  decide +kernel

end AtPoint
end PgVerif.C03
