/-
C05 — "changing ANY unit label, the material, adsorbate, temperature, any metadata entry or anything of the payload changes the
identifier", for EVERY configuration (every pressure mode, every loading / material basis, all three isotherm classes).

Statements are about `PgVerif.Model.Identity`: a `Content` (material, adsorbate, temperature, the seven labels, metadata, payload)
is turned into the hashed dictionary by `Content.toIso` (constructor + `to_dict`), the identifier is `contentId H c = H (canon (toIso c))`.

  * `canon_entry_eq`                — equal canonical forms have equal values under every key
  * `stored_labels_of_canon_eq`     — … hence equal stored labels: all seven, no side condition on mode or basis
  * `content_id_eq_iff`             — same identifier ⇔ same stored content (metadata up to order), for an injective hash
  * `*_label_changes_id`            — one theorem per label; the only side condition in the whole family is "pressure mode not relative"
                                      for the pressure unit, and `pressure_unit_not_stored_when_relative` shows that it is needed
  * `row_change_changes_id`, `column_change_changes_rows` — every column of every row is part of the payload
-/
import Mathlib.Tactic
import Mathlib.Data.List.Nodup
import PgVerif.Model.Identity
import PgVerif.Props.C05

namespace PgVerif.C05
open PgVerif.Model.Json PgVerif.Model.Identity

/-! ### dictionaries with distinct keys: a key has one value, and `canon` keeps it -/

/-- in a dictionary with pairwise distinct keys a key has at most one value -/
lemma value_unique {d : Dict} (hn : (d.map (·.1)).Nodup) {k : String} {v w : MVal} (hv : (k, v) ∈ d) (hw : (k, w) ∈ d) : v = w := by
  have := List.inj_on_of_nodup_map hn hv hw rfl
  exact (Prod.mk.injEq _ _ _ _ ▸ this).2

/-- equal canonical forms: whatever one dictionary stores under a key, the other stores under that key -/
theorem canon_entry_mem (a b : Iso) (h : canon a = canon b) {k : String} {v : MVal} (hv : (k, v) ∈ a.core) : (k, v) ∈ b.core :=
  ((canon_injective a b h).1).subset hv

/-- equal canonical forms + distinct keys: the values under every key present in both coincide -/
theorem canon_entry_eq (a b : Iso) (hn : (b.core.map (·.1)).Nodup) (h : canon a = canon b) {k : String} {v w : MVal}
    (hv : (k, v) ∈ a.core) (hw : (k, w) ∈ b.core) : v = w :=
  value_unique hn (canon_entry_mem a b h hv) hw

/-- an entry that differs (any key: a label, a metadata key, material, adsorbate, temperature) shows in the canonical form -/
theorem canon_differs_of_entry_differs (a b : Iso) (hn : (b.core.map (·.1)).Nodup) {k : String} {v w : MVal}
    (hv : (k, v) ∈ a.core) (hw : (k, w) ∈ b.core) (hne : v ≠ w) : canon a ≠ canon b :=
  fun h => hne (canon_entry_eq a b hn h hv hw)

/-- an entry present in one content and absent from the other shows in the canonical form -/
theorem canon_differs_of_entry_missing (a b : Iso) {k : String} {v : MVal} (hv : (k, v) ∈ a.core) (hb : (k, v) ∉ b.core) :
    canon a ≠ canon b :=
  fun h => hb (canon_entry_mem a b h hv)

/-! ### contents -/

/-- well-formed content: metadata keys are pairwise distinct and none of them is owned by the constructor (python: a `dict`
passed as `**properties` next to the named parameters) -/
def WF (c : Content) : Prop := (c.metadata.map (·.1)).Nodup ∧ ∀ k ∈ c.metadata.map (·.1), k ∉ fixedKeys

lemma fixed_keys (c : Content) : c.fixed.map (·.1) = fixedKeys := rfl

lemma fixedKeys_nodup : fixedKeys.Nodup := by decide

lemma toIso_keys_nodup (c : Content) (h : WF c) : ((c.toIso).core.map (·.1)).Nodup := by
  unfold Content.toIso
  rw [List.map_append, fixed_keys]
  refine List.Nodup.append fixedKeys_nodup h.1 ?_
  intro k hk hk'
  exact h.2 k hk' hk

lemma optStr_injective : Function.Injective optStr := by
  intro a b h
  cases a <;> cases b <;> simp_all [optStr]

lemma str_injective : Function.Injective strVal := by
  intro a b h
  simpa [strVal] using h

/-- `to_dict()` keeps every label apart: the labels' entries determine all seven labels -/
theorem labels_toDict_injective : Function.Injective Labels.toDict := by
  intro u v h
  simp only [Labels.toDict, List.cons.injEq, Prod.mk.injEq, true_and, and_true] at h
  obtain ⟨h1, h2, h3, h4, h5, h6, h7⟩ := h
  cases u; cases v
  simp only [Labels.mk.injEq]
  exact ⟨str_injective h1, optStr_injective h2, str_injective h5, optStr_injective h6, str_injective h3, optStr_injective h4,
    str_injective h7⟩

private lemma mem_fixed_of_mem_labels (c : Content) {kv : String × MVal} (h : kv ∈ c.labels.stored.toDict) : kv ∈ c.toIso.core := by
  unfold Content.toIso Content.fixed
  exact List.mem_append_left _ (List.mem_append_right _ h)

/-- the constructor-owned part of the dictionary is determined by the canonical form -/
theorem fixed_of_canon_eq (c₁ c₂ : Content) (h₂ : WF c₂) (h : canon c₁.toIso = canon c₂.toIso) : c₁.fixed = c₂.fixed := by
  have hn := toIso_keys_nodup c₂ h₂
  have key : ∀ (k : String) (v w : MVal), (k, v) ∈ c₁.fixed → (k, w) ∈ c₂.fixed → v = w := fun k v w hv hw =>
    canon_entry_eq c₁.toIso c₂.toIso hn h (List.mem_append_left _ hv) (List.mem_append_left _ hw)
  have e1 := key "material" c₁.material c₂.material (by simp [Content.fixed]) (by simp [Content.fixed])
  have e2 := key "adsorbate" (strVal c₁.adsorbate) (strVal c₂.adsorbate) (by simp [Content.fixed]) (by simp [Content.fixed])
  have e3 := key "temperature" (.scalar c₁.temperature) (.scalar c₂.temperature) (by simp [Content.fixed]) (by simp [Content.fixed])
  have l1 := key "pressure_mode" (strVal c₁.labels.stored.pressureMode) (strVal c₂.labels.stored.pressureMode)
    (by simp [Content.fixed, Labels.toDict]) (by simp [Content.fixed, Labels.toDict])
  have l2 := key "pressure_unit" (optStr c₁.labels.stored.pressureUnit) (optStr c₂.labels.stored.pressureUnit)
    (by simp [Content.fixed, Labels.toDict]) (by simp [Content.fixed, Labels.toDict])
  have l3 := key "material_basis" (strVal c₁.labels.stored.materialBasis) (strVal c₂.labels.stored.materialBasis)
    (by simp [Content.fixed, Labels.toDict]) (by simp [Content.fixed, Labels.toDict])
  have l4 := key "material_unit" (optStr c₁.labels.stored.materialUnit) (optStr c₂.labels.stored.materialUnit)
    (by simp [Content.fixed, Labels.toDict]) (by simp [Content.fixed, Labels.toDict])
  have l5 := key "loading_basis" (strVal c₁.labels.stored.loadingBasis) (strVal c₂.labels.stored.loadingBasis)
    (by simp [Content.fixed, Labels.toDict]) (by simp [Content.fixed, Labels.toDict])
  have l6 := key "loading_unit" (optStr c₁.labels.stored.loadingUnit) (optStr c₂.labels.stored.loadingUnit)
    (by simp [Content.fixed, Labels.toDict]) (by simp [Content.fixed, Labels.toDict])
  have l7 := key "temperature_unit" (strVal c₁.labels.stored.temperatureUnit) (strVal c₂.labels.stored.temperatureUnit)
    (by simp [Content.fixed, Labels.toDict]) (by simp [Content.fixed, Labels.toDict])
  unfold Content.fixed Labels.toDict
  rw [e1, e2, e3, l1, l2, l3, l4, l5, l6, l7]

lemma fixed_eq_iff (c₁ c₂ : Content) : c₁.fixed = c₂.fixed ↔
    c₁.material = c₂.material ∧ c₁.adsorbate = c₂.adsorbate ∧ c₁.temperature = c₂.temperature ∧ c₁.labels.stored = c₂.labels.stored := by
  constructor
  · intro h
    unfold Content.fixed at h
    simp only [List.cons_append, List.nil_append, List.cons.injEq, Prod.mk.injEq, true_and] at h
    obtain ⟨hm, ha, ht, hl⟩ := h
    refine ⟨hm, str_injective ha, ?_, labels_toDict_injective hl⟩
    simpa using ht
  · rintro ⟨hm, ha, ht, hl⟩
    unfold Content.fixed
    rw [hm, ha, ht, hl]

/-- equal canonical forms ⇒ equal stored labels — ALL seven, for every pressure mode and every loading / material basis -/
theorem stored_labels_of_canon_eq (c₁ c₂ : Content) (h₂ : WF c₂) (h : canon c₁.toIso = canon c₂.toIso) :
    c₁.labels.stored = c₂.labels.stored := by
  exact ((fixed_eq_iff c₁ c₂).1 (fixed_of_canon_eq c₁ c₂ h₂ h)).2.2.2

/-- two contents whose stored labels differ — in whichever label, in whichever configuration — have different canonical forms -/
theorem canon_differs_of_label_differs (c₁ c₂ : Content) (h₂ : WF c₂) (hne : c₁.labels.stored ≠ c₂.labels.stored) :
    canon c₁.toIso ≠ canon c₂.toIso :=
  fun h => hne (stored_labels_of_canon_eq c₁ c₂ h₂ h)

/-- … and different identifiers unless the hash collides -/
theorem id_differs_of_label_differs {ι : Type} (H : Dict × Payload → ι) (hH : Function.Injective H) (c₁ c₂ : Content) (h₂ : WF c₂)
    (hne : c₁.labels.stored ≠ c₂.labels.stored) : contentId H c₁ ≠ contentId H c₂ :=
  fun h => canon_differs_of_label_differs c₁ c₂ h₂ hne (hH h)

/-- the stored content: everything but the order of the metadata (and the pressure unit of a relative mode) -/
def SameStored (c₁ c₂ : Content) : Prop :=
  c₁.material = c₂.material ∧ c₁.adsorbate = c₂.adsorbate ∧ c₁.temperature = c₂.temperature ∧
    c₁.labels.stored = c₂.labels.stored ∧ c₁.metadata.Perm c₂.metadata ∧ c₁.payload = c₂.payload

/-- FULL STRENGTH: with an injective hash, two (well-formed) contents have the same identifier iff they store the same content —
same material, adsorbate, temperature, same seven labels as stored, same metadata up to order, same payload.  No label, no
configuration is exempt. -/
theorem content_id_eq_iff {ι : Type} (H : Dict × Payload → ι) (hH : Function.Injective H) (c₁ c₂ : Content) (h₁ : WF c₁) (h₂ : WF c₂) :
    contentId H c₁ = contentId H c₂ ↔ SameStored c₁ c₂ := by
  unfold contentId
  rw [id_eq_iff H hH _ _ (toIso_keys_nodup c₁ h₁)]
  constructor
  · rintro ⟨hp, hpay⟩
    have hc : canon c₁.toIso = canon c₂.toIso := (canon_eq_iff _ _ (toIso_keys_nodup c₁ h₁)).2 ⟨hp, hpay⟩
    have hf := fixed_of_canon_eq c₁ c₂ h₂ hc
    obtain ⟨hm, ha, ht, hl⟩ := (fixed_eq_iff c₁ c₂).1 hf
    refine ⟨hm, ha, ht, hl, ?_, hpay⟩
    unfold Content.toIso at hp
    simp only at hp
    rw [hf] at hp
    exact (List.perm_append_left_iff _).1 hp
  · rintro ⟨hm, ha, ht, hl, hp, hpay⟩
    refine ⟨?_, hpay⟩
    unfold Content.toIso
    simp only
    rw [(fixed_eq_iff c₁ c₂).2 ⟨hm, ha, ht, hl⟩]
    exact List.Perm.append_left _ hp

/-! ### one theorem per label: a changed label is a changed identifier -/

section PerLabel
variable {ι : Type} (H : Dict × Payload → ι) (hH : Function.Injective H) (c : Content) (hc : WF c)
include hH hc

/-- pressure mode: any change (absolute ↔ relative ↔ relative%) -/
theorem pressure_mode_label_changes_id (m : String) (hm : m ≠ c.labels.pressureMode) :
    contentId H { c with labels := { c.labels with pressureMode := m } } ≠ contentId H c := by
  apply id_differs_of_label_differs H hH _ _ hc
  intro h
  have := congrArg Labels.pressureMode h
  unfold Labels.stored at this
  split_ifs at this <;> exact hm this

/-- pressure unit: any change, in a mode that is not relative (in the relative modes the constructor does not store it) -/
theorem pressure_unit_label_changes_id (hrel : isRelative c.labels.pressureMode = false) (v : Option String)
    (hv : v ≠ c.labels.pressureUnit) : contentId H { c with labels := { c.labels with pressureUnit := v } } ≠ contentId H c := by
  apply id_differs_of_label_differs H hH _ _ hc
  intro h
  have := congrArg Labels.pressureUnit h
  simp only [Labels.stored, hrel, Bool.false_eq_true, if_false] at this
  exact hv this

/-- loading basis: any change -/
theorem loading_basis_label_changes_id (b : String) (hb : b ≠ c.labels.loadingBasis) :
    contentId H { c with labels := { c.labels with loadingBasis := b } } ≠ contentId H c := by
  apply id_differs_of_label_differs H hH _ _ hc
  intro h
  have := congrArg Labels.loadingBasis h
  unfold Labels.stored at this
  split_ifs at this <;> exact hb this

/-- loading unit: any change (to another unit, to `None`, to `''`), on EVERY loading basis — fraction and percent included -/
theorem loading_unit_label_changes_id (v : Option String) (hv : v ≠ c.labels.loadingUnit) :
    contentId H { c with labels := { c.labels with loadingUnit := v } } ≠ contentId H c := by
  apply id_differs_of_label_differs H hH _ _ hc
  intro h
  have := congrArg Labels.loadingUnit h
  unfold Labels.stored at this
  split_ifs at this <;> exact hv this

/-- material basis: any change -/
theorem material_basis_label_changes_id (b : String) (hb : b ≠ c.labels.materialBasis) :
    contentId H { c with labels := { c.labels with materialBasis := b } } ≠ contentId H c := by
  apply id_differs_of_label_differs H hH _ _ hc
  intro h
  have := congrArg Labels.materialBasis h
  unfold Labels.stored at this
  split_ifs at this <;> exact hb this

/-- material unit: any change, on every basis -/
theorem material_unit_label_changes_id (v : Option String) (hv : v ≠ c.labels.materialUnit) :
    contentId H { c with labels := { c.labels with materialUnit := v } } ≠ contentId H c := by
  apply id_differs_of_label_differs H hH _ _ hc
  intro h
  have := congrArg Labels.materialUnit h
  unfold Labels.stored at this
  split_ifs at this <;> exact hv this

/-- temperature unit: any change -/
theorem temperature_unit_label_changes_id (t : String) (ht : t ≠ c.labels.temperatureUnit) :
    contentId H { c with labels := { c.labels with temperatureUnit := t } } ≠ contentId H c := by
  apply id_differs_of_label_differs H hH _ _ hc
  intro h
  have := congrArg Labels.temperatureUnit h
  unfold Labels.stored at this
  split_ifs at this <;> exact ht this

/-- material (name or any of its properties), adsorbate, temperature -/
theorem material_changes_id (m : MVal) (hm : m ≠ c.material) : contentId H { c with material := m } ≠ contentId H c := by
  intro h
  exact hm ((content_id_eq_iff H hH { c with material := m } c hc hc).1 h).1

theorem adsorbate_changes_id (a : String) (ha : a ≠ c.adsorbate) : contentId H { c with adsorbate := a } ≠ contentId H c := by
  intro h
  exact ha ((content_id_eq_iff H hH { c with adsorbate := a } c hc hc).1 h).2.1

theorem temperature_changes_id (t : Scalar) (ht : t ≠ c.temperature) : contentId H { c with temperature := t } ≠ contentId H c := by
  intro h
  exact ht ((content_id_eq_iff H hH { c with temperature := t } c hc hc).1 h).2.2.1

/-- the payload: any change of the rows (a value of any column of any row, a branch mark, a row added or removed) or of the
model dictionary (name, any parameter, rmse, either range) -/
theorem payload_changes_id (p : Payload) (hp : p ≠ c.payload) : contentId H { c with payload := p } ≠ contentId H c := by
  intro h
  exact hp ((content_id_eq_iff H hH { c with payload := p } c hc hc).1 h).2.2.2.2.2

end PerLabel

/-- the side condition of `pressure_unit_label_changes_id` is needed: in a relative mode the pressure unit handed to the
constructor is not stored, hence not content -/
theorem pressure_unit_not_stored_when_relative (c : Content) (hrel : isRelative c.labels.pressureMode = true) (v : Option String) :
    ({ c with labels := { c.labels with pressureUnit := v } } : Content).toIso = c.toIso := by
  unfold Content.toIso Content.fixed Labels.stored
  simp [hrel]

/-! ### every column of every row is in the payload -/

/-- two row lists that differ in one cell — pressure, loading, branch mark or any extra column (numeric or text) of row `i` — are
different payloads -/
theorem column_change_changes_rows (r₁ r₂ : List Row) (i : Nat) (h₁ : i < r₁.length) (h₂ : i < r₂.length)
    (hne : r₁[i].p ≠ r₂[i].p ∨ r₁[i].l ≠ r₂[i].l ∨ r₁[i].branch ≠ r₂[i].branch ∨ r₁[i].extra ≠ r₂[i].extra) :
    Payload.points r₁ ≠ Payload.points r₂ := by
  intro h
  have hr : r₁ = r₂ := by simpa using h
  subst hr
  simp at hne

/-- an extra column that is absent / present / named differently in one row is a different payload as well -/
theorem row_change_changes_id {ι : Type} (H : Dict × Payload → ι) (hH : Function.Injective H) (c : Content) (hc : WF c)
    (r₁ r₂ : List Row) (hp : c.payload = .points r₁) (i : Nat) (h₁ : i < r₁.length) (h₂ : i < r₂.length)
    (hne : r₁[i].p ≠ r₂[i].p ∨ r₁[i].l ≠ r₂[i].l ∨ r₁[i].branch ≠ r₂[i].branch ∨ r₁[i].extra ≠ r₂[i].extra) :
    contentId H { c with payload := .points r₂ } ≠ contentId H c := by
  apply payload_changes_id H hH c hc
  rw [hp]
  exact (column_change_changes_rows r₁ r₂ i h₁ h₂ hne).symm

/-- a model parameter, wherever it sits in the parameter list -/
theorem model_param_changes_payload (m : ModelDict) (ps : List (String × Scalar)) (hne : ps ≠ m.params) :
    Payload.model { m with params := ps } ≠ Payload.model m := by
  intro h
  have : ({ m with params := ps } : ModelDict) = m := by simpa using h
  exact hne (congrArg ModelDict.params this)

/-! ### non-vacuity: concrete instances (fraction / percent bases, `None` and `''` labels, relative modes) -/

/-- a percent-basis content with the default loading-unit label … -/
def exPercent : Content :=
  ⟨.scalar (.str "carbon"), "nitrogen", .int 77,
   ⟨"absolute", some "bar", "percent", some "mmol", "mass", some "g", "K"⟩, [("user", .scalar (.str "A"))], .none⟩

example : WF exPercent := by
  refine ⟨by decide, ?_⟩
  intro k hk
  simp only [exPercent, List.map_cons, List.map_nil, List.mem_singleton] at hk
  subst hk
  decide

/-- … differs in canonical form from the same content with the label `mol`, `None` or `''` -/
theorem canon_percent_loading_unit :
    canon exPercent.toIso ≠ canon ({ exPercent with labels := { exPercent.labels with loadingUnit := some "mol" } } : Content).toIso ∧
    canon exPercent.toIso ≠ canon ({ exPercent with labels := { exPercent.labels with loadingUnit := none } } : Content).toIso ∧
    canon ({ exPercent with labels := { exPercent.labels with loadingUnit := none } } : Content).toIso ≠
      canon ({ exPercent with labels := { exPercent.labels with loadingUnit := some "" } } : Content).toIso := by
  decide

/-- relative mode: the pressure unit is not stored, every other label still is -/
theorem canon_relative_labels :
    let c : Content := ⟨.scalar (.str "carbon"), "nitrogen", .int 77,
      ⟨"relative%", some "bar", "fraction", none, "volume", some "cm3", "°C"⟩, [], .none⟩
    canon c.toIso = canon ({ c with labels := { c.labels with pressureUnit := some "Pa" } } : Content).toIso ∧
    canon c.toIso ≠ canon ({ c with labels := { c.labels with materialUnit := none } } : Content).toIso ∧
    canon c.toIso ≠ canon ({ c with labels := { c.labels with temperatureUnit := "K" } } : Content).toIso ∧
    canon c.toIso ≠ canon ({ c with labels := { c.labels with pressureMode := "relative" } } : Content).toIso := by
  decide

/-- an extra column (numeric or text) of one row -/
theorem canon_extra_column :
    let c (e : Scalar) (t : String) : Content := ⟨.scalar (.str "carbon"), "nitrogen", .int 77,
      ⟨"absolute", some "bar", "molar", some "mmol", "mass", some "g", "K"⟩, [],
      .points [⟨.int 1, .int 10, 0, [("enthalpy", .int 5), ("phase", .str "a")]⟩, ⟨.int 2, .int 20, 0, [("enthalpy", e), ("phase", .str t)]⟩]⟩
    canon (c (.int 6) "a").toIso ≠ canon (c (.int 7) "a").toIso ∧ canon (c (.int 6) "a").toIso ≠ canon (c (.int 6) "b").toIso := by
  decide

end PgVerif.C05
