/-
C05 — where the real identifier is NOT the `isoId H` of `Props/C05.lean` with an injective `H` (the two recorded findings), stated in the
model so that the hypothesis that fails is visible, with what does hold proved as `…_partial`.

The full-strength statements (`id_differs_of_content_differs`, `id_eq_iff`, `content_id_eq_iff`) take the hash as ONE uninterpreted injective
function of (key-sorted dictionary, payload).  `utilities/hashgen.isotherm_to_hash` is of that form for metadata-only and model isotherms.
For measured points it is not, in two places:

  * S46-C05  the payload enters through `hash_pandas_object(rows).sum()`: the hashes of the rows are ADDED.  `rowSumId` is that shape
             (`h` the hash of one row, `G` the md5 of the serialised dictionary).  `rowSumId_perm`: a permutation of the points leaves it
             unchanged, WHATEVER `h` and `G` are; `no_injective_hash_agrees`: so it is `isoId H` for no injective `H` (as soon as two different
             rows exist).  `rowSumId_eq_iff_partial` is what holds: with collision-free `G` and row-hash sums, same identifier ⇔ same
             dictionary (up to order) and the same points UP TO THEIR ORDER.
  * S47-C05  the data hash is stored INTO the dictionary under the key `data_hash` (`raw_dict["data_hash"] = …`, python item assignment =
             `setKey`) before serialisation.  `setKey_shadows`: whatever the user stored under that key is gone;
             `setKey_injective_partial`: for dictionaries that do not use the key nothing is lost.

A third finding is about the CONTENT that is hashed, not the hash:
  * S63-C05  branch marks handed over as a pandas Series are stored by `data_raw['branch'] = <Series>`, which aligns on ROW LABELS (`alignMarks`).
             `alignMarks_same_labels_partial`: right when the Series carries the (distinct) labels of the points; `alignMarks_shifted_labels_witness`,
             `alignMarks_other_labels_witness`: otherwise the marks are shifted / permuted / lost, so the same marks by another route are another content.
-/
import Mathlib.Tactic
import Mathlib.Algebra.BigOperators.Group.Multiset.Basic
import PgVerif.Model.Json
import PgVerif.Props.C05

namespace PgVerif.C05
open PgVerif.Model.Json

/-! ### S46-C05: the row hashes are added -/

/-- the identifier of a point isotherm as the library computes it: `G` of the key-sorted dictionary and of the SUM of the row hashes -/
def rowSumId {ι μ : Type} [AddCommMonoid μ] (G : Dict × μ → ι) (h : Row → μ) (core : Dict) (rows : List Row) : ι :=
  G (sortKeys core, (rows.map h).sum)

/-- any reordering of the points leaves the identifier unchanged — for every row hash and every outer hash -/
theorem rowSumId_perm {ι μ : Type} [AddCommMonoid μ] (G : Dict × μ → ι) (h : Row → μ) (core : Dict) {rows rows' : List Row}
    (hp : rows.Perm rows') : rowSumId G h core rows = rowSumId G h core rows' := by
  unfold rowSumId
  rw [(hp.map h).sum_eq]

/-- the witness of the finding: two points exchanged -/
theorem rowSumId_swap {ι μ : Type} [AddCommMonoid μ] (G : Dict × μ → ι) (h : Row → μ) (core : Dict) (r₁ r₂ : Row) (rest : List Row) :
    rowSumId G h core (r₁ :: r₂ :: rest) = rowSumId G h core (r₂ :: r₁ :: rest) :=
  rowSumId_perm G h core (List.Perm.swap r₂ r₁ rest)

/-- the hypothesis `Function.Injective H` of the full-strength theorems cannot be met by the real hash: no injective `H` gives the
identifiers that `rowSumId` gives (two different rows suffice) -/
theorem no_injective_hash_agrees {ι μ : Type} [AddCommMonoid μ] (G : Dict × μ → ι) (h : Row → μ) (r₁ r₂ : Row) (hne : r₁ ≠ r₂)
    (H : Dict × Payload → ι) (hH : Function.Injective H) :
    ¬ ∀ (core : Dict) (rows : List Row), isoId H ⟨core, .points rows⟩ = rowSumId G h core rows := by
  intro hall
  have e : isoId H ⟨[], .points [r₁, r₂]⟩ = isoId H ⟨[], .points [r₂, r₁]⟩ := by
    rw [hall, hall]
    exact rowSumId_swap G h [] r₁ r₂ []
  have := hH e
  simp only [canon, Prod.mk.injEq, Payload.points.injEq, List.cons.injEq, and_true, true_and] at this
  exact hne this.1

/-- what DOES hold (the order of the points apart, the property as stated): if the outer hash and the sums of row hashes are collision-free,
two point isotherms have the same identifier exactly when their dictionaries agree up to order and their points agree up to order -/
theorem rowSumId_eq_iff_partial {ι μ : Type} [AddCommMonoid μ] (G : Dict × μ → ι) (hG : Function.Injective G) (h : Row → μ)
    (hh : ∀ m m' : Multiset Row, (m.map h).sum = (m'.map h).sum → m = m')
    (a b : Dict) (hn : (a.map (·.1)).Nodup) (rows rows' : List Row) :
    rowSumId G h a rows = rowSumId G h b rows' ↔ a.Perm b ∧ rows.Perm rows' := by
  constructor
  · intro he
    have hp := hG he
    rw [Prod.mk.injEq] at hp
    refine ⟨((sortKeys_perm a).symm.trans (hp.1 ▸ List.Perm.refl _)).trans (sortKeys_perm b), ?_⟩
    have hm : (((rows : Multiset Row)).map h).sum = (((rows' : Multiset Row)).map h).sum := by
      simpa [Multiset.map_coe, Multiset.sum_coe] using hp.2
    exact Multiset.coe_eq_coe.1 (hh _ _ hm)
  · rintro ⟨hp, hr⟩
    unfold rowSumId
    rw [canon_perm_invariant _ _ hp hn, (hr.map h).sum_eq]

/-- a point removed, added or changed (anything but a reordering) changes the identifier -/
theorem rowSumId_differs_of_rows_differ_partial {ι μ : Type} [AddCommMonoid μ] (G : Dict × μ → ι) (hG : Function.Injective G) (h : Row → μ)
    (hh : ∀ m m' : Multiset Row, (m.map h).sum = (m'.map h).sum → m = m')
    (a : Dict) (hn : (a.map (·.1)).Nodup) (rows rows' : List Row) (hne : ¬ rows.Perm rows') :
    rowSumId G h a rows ≠ rowSumId G h a rows' := fun he =>
  hne ((rowSumId_eq_iff_partial G hG h hh a a hn rows rows').1 he).2

/-- non-vacuity of the collision-freeness hypothesis `hh`: the "hash" that keeps the row (sums = the multiset of rows itself) meets it -/
example : ∀ m m' : Multiset Row, (m.map (fun r => ({r} : Multiset Row))).sum = (m'.map (fun r => ({r} : Multiset Row))).sum → m = m' := by
  intro m m' he
  simpa [Multiset.sum_map_singleton] using he

/-- a concrete instance of the finding in the executable model: the full-strength model tells the two isotherms apart … -/
example : canon ⟨[], .points [⟨.int 1, .int 10, 0, []⟩, ⟨.int 2, .int 20, 0, []⟩]⟩ ≠
    canon ⟨[], .points [⟨.int 2, .int 20, 0, []⟩, ⟨.int 1, .int 10, 0, []⟩]⟩ := by decide

/-- … the library's shape does not (row hash = pressure + 100 · loading, say) -/
example : rowSumId (μ := ℕ) id (fun r => match r.p, r.l with | .int p, .int l => p.toNat + 100 * l.toNat | _, _ => 0) []
      [⟨.int 1, .int 10, 0, []⟩, ⟨.int 2, .int 20, 0, []⟩] =
    rowSumId (μ := ℕ) id (fun r => match r.p, r.l with | .int p, .int l => p.toNat + 100 * l.toNat | _, _ => 0) []
      [⟨.int 2, .int 20, 0, []⟩, ⟨.int 1, .int 10, 0, []⟩] := by decide

/-! ### S47-C05: the data hash is written into the dictionary under the key `data_hash` -/

/-- python's `d[k] = v` on a dictionary -/
def setKey (k : String) (v : MVal) (d : Dict) : Dict := (k, v) :: d.filter (fun kv => kv.1 != k)

/-- whatever the dictionary held under the key is overwritten: two contents that differ only there are hashed as one -/
theorem setKey_shadows (k : String) (v x y : MVal) (d : Dict) : setKey k v ((k, x) :: d) = setKey k v ((k, y) :: d) := by
  simp [setKey]

/-- … and so is a content that has no such entry at all -/
theorem setKey_shadows_absent (k : String) (v x : MVal) (d : Dict) : setKey k v ((k, x) :: d) = setKey k v d := by
  simp [setKey]

/-- what does hold: for dictionaries that do not use the key (every metadata key but the hashing function's own) nothing is lost -/
theorem setKey_injective_partial (k : String) (v w : MVal) (a b : Dict) (ha : ∀ kv ∈ a, kv.1 ≠ k) (hb : ∀ kv ∈ b, kv.1 ≠ k)
    (he : setKey k v a = setKey k w b) : v = w ∧ a = b := by
  have fa : a.filter (fun kv => kv.1 != k) = a := List.filter_eq_self.2 fun kv hkv => by simpa using ha kv hkv
  have fb : b.filter (fun kv => kv.1 != k) = b := List.filter_eq_self.2 fun kv hkv => by simpa using hb kv hkv
  unfold setKey at he
  rw [fa, fb, List.cons.injEq, Prod.mk.injEq] at he
  exact ⟨he.1.2, he.2⟩

/-- the hypothesis is needed: the instance the harness finds (`data_hash='x'` against `data_hash='y'`) -/
example : setKey "data_hash" (.scalar (.str "5871…")) [("data_hash", .scalar (.str "x")), ("material", .scalar (.str "m"))] =
    setKey "data_hash" (.scalar (.str "5871…")) [("data_hash", .scalar (.str "y")), ("material", .scalar (.str "m"))] := by decide

/-! ### S63-C05: branch marks handed over as a pandas Series are aligned on the row labels of the points -/

/-- `data_raw['branch'] = <Series>` (pandas column assignment of a Series): every row of the frame gets the mark that the Series holds under
the row's LABEL, and no mark (`none` = NaN) when the Series has no such label.  `rowLabels` = the labels of the points,
`markLabels` / `marks` = the labels and values of the Series handed over as `branch=` -/
def alignMarks {L β : Type} [DecidableEq L] (rowLabels markLabels : List L) (marks : List β) : List (Option β) :=
  rowLabels.map fun l => (markLabels.zip marks).lookup l

/-- what the property asks for (and what a list / ndarray / pandas.Index of the same marks gives): the marks by POSITION -/
def positionalMarks {β : Type} (marks : List β) : List (Option β) := marks.map some

/-- what holds: when the marks Series carries the labels of the points (distinct labels, as many as marks), alignment on labels IS the
positional reading — the route is right exactly under this hypothesis on the labels, which the property ("any row labelling") does not grant -/
theorem alignMarks_same_labels_partial {L β : Type} [DecidableEq L] :
    ∀ (labels : List L) (marks : List β), labels.Nodup → labels.length = marks.length →
      alignMarks labels labels marks = positionalMarks marks
  | [], [], _, _ => rfl
  | [], _ :: _, _, h => by simp at h
  | _ :: _, [], _, h => by simp at h
  | l :: ls, m :: ms, hn, hl => by
      have hn' := List.nodup_cons.mp hn
      have ih := alignMarks_same_labels_partial ls ms hn'.2 (by simpa using hl)
      unfold alignMarks positionalMarks at ih ⊢
      simp only [List.zip_cons_cons, List.map_cons, List.lookup_cons_self, List.cons.injEq, true_and]
      rw [← ih]
      apply List.map_congr_left
      intro x hx
      have hxl : x ≠ l := fun e => hn'.1 (e ▸ hx)
      have hb : (x == l) = false := by simpa using hxl
      simp [List.lookup_cons, hb]

/-- non-vacuity of the hypotheses -/
example : alignMarks [1, 2, 3, 4] [1, 2, 3, 4] [0, 0, 0, 1] = positionalMarks [0, 0, 0, 1] :=
  alignMarks_same_labels_partial (L := ℕ) (β := ℕ) _ _ (by decide) rfl

/-- the witness of the finding: points labelled 1..4, marks `pandas.Series([0, 0, 0, 1])` (labels 0..3) — the marks are shifted by one and the
last point is in no branch; the hypothesis "same labels" of `alignMarks_same_labels_partial` is needed -/
theorem alignMarks_shifted_labels_witness :
    alignMarks [1, 2, 3, 4] [0, 1, 2, 3] [0, 0, 0, 1] = [some 0, some 0, some 1, none] ∧
    alignMarks [1, 2, 3, 4] [0, 1, 2, 3] [0, 0, 0, 1] ≠ positionalMarks [0, 0, 0, 1] := by decide

/-- labels in another order: the marks are permuted (reverse labels: reversed marks); disjoint labels: every mark is lost -/
theorem alignMarks_other_labels_witness :
    alignMarks [0, 1, 2, 3] [3, 2, 1, 0] [0, 0, 0, 1] = [some 1, some 0, some 0, some 0] ∧
    alignMarks [0, 1, 2, 3] [10, 11, 12, 13] [0, 0, 0, 1] = [none, none, none, none] := by decide

end PgVerif.C05
