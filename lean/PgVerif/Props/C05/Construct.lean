/-
C05 (used by C02, C03, C06, C07, C08) — the content of an isotherm as a function of the constructor's arguments.

`Model/Construct.lean` follows `BaseIsotherm.__init__` / `to_dict` statement by statement and runs on the GENERATED tables
`Gen/IsoParams.lean` (`_required_params`, `_unit_params`, `_reserved_params`, `SHORTHANDS`, the key-naming statements of `__init__`);
`harness/pgv/constructlib.py` ties it to the three real classes on every run.  Here:

  * the generated tables say what the manual documents (`Spec/IsoParams.lean`) and are consistent with each other (by kernel evaluation);
  * `construct_accepts_iff_validLabels` — the constructor accepts exactly the label states `Model/IsoState.validLabels` accepts, after
    defaulting and after the forcing of `pressure_unit` (the tie the C02 invariant "labels would be accepted by the constructor" needs);
  * `missing_required_refused`, `defaults_applied`, `relative_mode_forces_no_pressure_unit`, `reserved_keys_not_in_properties`,
    `shorthand_equiv` (+ what happens when both spellings are given);
  * `toDict_construct` / `construct_toDict`: the dictionary route reproduces the isotherm (what `from_isotherm`, JSON / CSV / Excel / SQLite
    import rely on); `properties_order_irrelevant` and `id_independent_of_keyword_order`: content and identifier do not depend on the
    order of keyword arguments.
As the code has it (witnesses below): reserved names that are not consumed (`_material`, …) are NOT filtered out of the metadata; the
deprecated `loading_basis='volume'` is refused (the rewrite tests the class default, not the argument); an invalid material unit under a
gas/liquid-volume loading basis raises KeyError, not ParameterError.  Repaired (S58-C05): a material dictionary is no longer emptied of its
`name` in the CALLER's hands (`arguments_unchanged_by_call`, `second_construction_same`; `popping_setter_breaks_reuse_witness` = why).
-/
import Mathlib.Tactic
import Mathlib.Algebra.Order.Field.Rat
import PgVerif.Lemmas.ConstructFacts
import PgVerif.Spec.IsoParams
import PgVerif.Props.C05

set_option linter.unusedSimpArgs false

namespace PgVerif.C05
open PgVerif.Model PgVerif.Model.Construct PgVerif.Gen PgVerif.Gen.IsoParams

variable {α : Type}

/-! ### the generated tables: documented, and consistent with each other -/

/-- the unit parameters and their defaults are the documented ones -/
theorem generated_unit_defaults_documented : unitParams.Perm Spec.IsoParams.unitDefaults := by decide

/-- the required descriptors: the class attribute, the signature, the `None` test and the setters name the same three -/
theorem generated_required_documented :
    requiredParams.Perm Spec.IsoParams.required ∧ initParams = Spec.IsoParams.required ∧ requiredChecked.Perm initParams ∧
      setterOrder = initParams := by decide

/-- the shorthands are the documented ones and every one of them is handled by the loop -/
theorem generated_shorthands_documented :
    shorthands.Perm Spec.IsoParams.shorthands ∧ (∀ sp ∈ shorthands, sp.2 ∈ shorthandTargets) ∧ ∀ t ∈ shorthandTargets, t ∈ initParams := by
  decide

/-- every unit parameter with a default is popped into an attribute and vice versa: no `KeyError`, nothing of them left in the metadata -/
theorem unit_pops_cover_unit_params : unitPops.Perm (unitParams.map (·.1)) ∧ unitPops.Nodup ∧ (unitParams.map (·.1)).Nodup := by decide

/-- every key the constructor consumes without storing it under its own name is declared reserved; no reserved name hides a unit label
or a required descriptor from `to_dict`; the subclasses only add to the list -/
theorem consumed_keys_are_reserved :
    (∀ sp ∈ shorthands, sp.1 ∈ reservedBase) ∧ (∀ k ∈ reservedBase, k ∉ unitPops ∧ k ∉ initParams) ∧
      (∀ k ∈ reservedBase, k ∈ reservedPoint ∧ k ∈ reservedModel) ∧
      (∀ k ∈ reservedPoint ++ reservedModel, k ∉ unitPops ∧ k ∉ initParams) := by decide

/-- `to_dict` hides the private attributes and the data-carrying attributes of a point isotherm; of a model isotherm's two extra attributes
exactly `branch` is exported (and is a named parameter of its constructor, so the dictionary route hands it back) -/
theorem subclass_attributes :
    (∀ k ∈ ["_material", "_adsorbate", "_temperature"], k ∈ baseAttrs ∧ k ∈ reservedBase) ∧ (∀ k ∈ pointAttrs, k ∈ reservedPoint) ∧
      modelAttrs.filter (fun k => !reservedModel.contains k) = ["branch"] ∧ "branch" ∈ modelInitParams.map (·.1) ∧
      "branch" ∈ pointInitParams.map (·.1) := by decide

/-- what `from_isotherm` adds to the template's dictionary is bound by the constructor's signature (never leaks into the metadata) -/
theorem from_isotherm_keys_are_parameters :
    (∀ k ∈ pointFromIsothermKeys, k ∈ pointInitParams.map (·.1)) ∧ (∀ k ∈ modelFromIsothermKeys, k ∈ modelInitParams.map (·.1)) := by decide

/-- the named parameters of the subclasses do not shadow a unit parameter, a required descriptor or a shorthand -/
theorem subclass_parameters_disjoint :
    ∀ k ∈ pointInitParams.map (·.1) ++ modelInitParams.map (·.1), k ∉ unitPops ∧ k ∉ initParams ∧ k ∉ shorthands.map (·.1) := by decide

/-- the statement `if self._unit_params['loading_basis'] == 'volume'` tests the class default, which is not `volume`: it never fires -/
theorem volume_rewrite_is_dead : unitParams.lookup "loading_basis" ≠ some "volume" := by decide

/-- every pressure mode other than `absolute` is caught by the prefix test of the forcing -/
theorem non_absolute_modes_have_prefix : ∀ kv ∈ pressureMode, kv.1 ≠ "absolute" → hasPrefix relativePrefix kv.1 = true := by decide

/-! ### required descriptors -/

section
variable [Field α]

/-- a required descriptor that is `None` after the shorthands have been applied is refused with a ParameterError, whatever else is passed -/
theorem missing_required_refused (w : World α) (a : Args α)
    (h : (prepCall a).material.isNone = true ∨ (prepCall a).adsorbate.isNone = true ∨ (prepCall a).temperature.isNone = true) :
    construct w a = .error .param := by
  rw [construct_eq, missingRequired_eq]
  rcases h with h | h | h <;> simp [h]

/-- absent or `None` -/
def AbsentOrNone (o : Option (Val α)) : Prop := o = none ∨ o = some .none

omit [Field α] in
lemma pick_none {o : Option (Val α)} {d : Val α} (ho : AbsentOrNone o) (hd : d.isNone = true) : (pick o d).isNone = true := by
  unfold pick
  have hn : (Val.none : Val α).isNone = true := rfl
  rcases ho with rfl | rfl <;> simp [hn, hd]

omit [Field α] in
lemma getD_none {o : Option (Val α)} (ho : AbsentOrNone o) : (o.getD Val.none).isNone = true := by
  have hn : (Val.none : Val α).isNone = true := rfl
  rcases ho with rfl | rfl <;> simp [hn]

/-- … in terms of the keyword dictionary: neither spelling gives a value -/
theorem missing_temperature_refused (w : World α) (a : Args α) (h1 : AbsentOrNone (a.lookup "temperature")) (h2 : AbsentOrNone (a.lookup "t")) :
    construct w a = .error .param := by
  apply missing_required_refused
  right; right
  rw [prepCall_eq]
  exact pick_none h2 (getD_none h1)

theorem missing_material_refused (w : World α) (a : Args α) (h1 : AbsentOrNone (a.lookup "material")) (h2 : AbsentOrNone (a.lookup "m")) :
    construct w a = .error .param := by
  apply missing_required_refused
  left
  rw [prepCall_eq]
  exact pick_none h2 (getD_none h1)

theorem missing_adsorbate_refused (w : World α) (a : Args α) (h1 : AbsentOrNone (a.lookup "adsorbate")) (h2 : AbsentOrNone (a.lookup "a")) :
    construct w a = .error .param := by
  apply missing_required_refused
  right; left
  rw [prepCall_eq]
  exact pick_none h2 (getD_none h1)

/-! ### accepted ⇔ valid labels after defaulting -/

omit [Field α] in
/-- the label checks of the constructor accept exactly the states `validLabels` accepts -/
theorem checkLabels_accepts_iff_validLabels (kw : Args α) :
    (∃ l, checkLabels (eff kw "pressure_mode") (eff kw "pressure_unit") (eff kw "loading_basis") (eff kw "loading_unit")
        (eff kw "material_basis") (eff kw "material_unit") (eff kw "temperature_unit") = .ok l ∧ effLabels kw = some l.labels) ↔
      ∃ L, effLabels kw = some L ∧ validLabels L = true :=
  Construct.checkLabels_accepts_iff_validLabels kw

/-- **the constructor accepts exactly the label states `validLabels` accepts** (after defaulting and forcing), once the three required
descriptors are usable; and the labels it stores are that state -/
theorem construct_accepts_iff_validLabels (w : World α) (a : Args α) (ads : String) (t : α)
    (hreq : missingRequired (prepCall a) = false) (hads : setAdsorbate w (prepCall a).adsorbate = .ok ads)
    (ht : toFloat (prepCall a).temperature = .ok t) :
    (∃ i, construct w a = .ok i ∧ effLabels (prepCall a).kw = some i.lab.labels) ↔
      ∃ L, effLabels (prepCall a).kw = some L ∧ validLabels L = true :=
  Construct.construct_accepts_iff_validLabels w a ads t hreq hads ht

/-- every accepted isotherm carries a valid label set -/
theorem accepted_labels_valid (w : World α) (a : Args α) (i : Construct.Iso α) (h : construct w a = .ok i) : validLabels i.lab.labels = true :=
  Construct.accepted_labels_valid w a i h

/-! ### defaults -/

omit [Field α] in
/-- an omitted unit parameter is read as the default of the (generated) table … -/
theorem defaults_applied (kw : Args α) (k d : String) (habs : kw.lookup k = none) (hd : unitParams.lookup k = some d) :
    eff kw k = .str d := by
  simp [eff, habs, hd]

omit [Field α] in
/-- … and a given one as given (even `None`: presence of the key is what counts) -/
theorem given_unit_param_kept (kw : Args α) (k : String) (v : Val α) (h : kw.lookup k = some v) : eff kw k = v := by
  simp [eff, h]

omit [Field α] in
lemma kw_lookup_none (a : Args α) (k : String) (h : a.lookup k = none) : (prepCall a).kw.lookup k = none := by
  rw [prepCall_eq]
  show (a.filter fun kv => !specialKeys.contains kv.1).lookup k = none
  rw [lookup_filter_key a (fun k => !specialKeys.contains k) k, h]
  simp

/-- with no unit parameter given an accepted isotherm carries the DOCUMENTED defaults: absolute pressure in bar, mmol per g, kelvin -/
theorem documented_defaults_applied (w : World α) (a : Args α) (i : Construct.Iso α) (h : construct w a = .ok i)
    (hno : ∀ k ∈ unitPops, a.lookup k = none) :
    i.lab = ⟨"absolute", .str "bar", "molar", .str "mmol", "mass", .str "g", "K"⟩ := by
  obtain ⟨-, -, -, hl, -, -⟩ := (construct_ok_iff w a i).1 h
  have e (k d : String) (hk : k ∈ unitPops) (hd : unitParams.lookup k = some d) : eff (prepCall a).kw k = .str d :=
    defaults_applied _ k d (kw_lookup_none a k (hno k hk)) hd
  rw [e "pressure_mode" "absolute" (by decide) (by decide), e "pressure_unit" "bar" (by decide) (by decide),
    e "loading_basis" "molar" (by decide) (by decide), e "loading_unit" "mmol" (by decide) (by decide),
    e "material_basis" "mass" (by decide) (by decide), e "material_unit" "g" (by decide) (by decide),
    e "temperature_unit" "K" (by decide) (by decide)] at hl
  obtain ⟨pms, lbs, mbs, tus, h1, h2, h3, h4, h5, -⟩ := (checkLabels_ok_iff _ _ _ _ _ _ _ _).1 hl
  have := str_inj h1; subst this
  have := str_inj h2; subst this
  have := str_inj h3; subst this
  have := str_inj h4; subst this
  rw [h5]
  have : hasPrefix relativePrefix "absolute" = false := by decide
  simp [forced, this]

/-- and such a call IS accepted whenever the three descriptors are usable -/
theorem documented_defaults_accepted (w : World α) (a : Args α) (ads : String) (t : α)
    (hreq : missingRequired (prepCall a) = false) (hads : setAdsorbate w (prepCall a).adsorbate = .ok ads)
    (ht : toFloat (prepCall a).temperature = .ok t) (hno : ∀ k ∈ unitPops, a.lookup k = none) :
    ∃ i, construct w a = .ok i := by
  have e (k d : String) (hk : k ∈ unitPops) (hd : unitParams.lookup k = some d) : eff (prepCall a).kw k = .str d :=
    defaults_applied _ k d (kw_lookup_none a k (hno k hk)) hd
  refine ⟨⟨setMaterial w (prepCall a).material, ads, t, ⟨"absolute", .str "bar", "molar", .str "mmol", "mass", .str "g", "K"⟩,
    (prepCall a).kw.filter fun kv => !unitPops.contains kv.1⟩, ?_⟩
  rw [construct_ok_iff]
  refine ⟨hreq, hads, ht, ?_, rfl, rfl⟩
  rw [e "pressure_mode" "absolute" (by decide) (by decide), e "pressure_unit" "bar" (by decide) (by decide),
    e "loading_basis" "molar" (by decide) (by decide), e "loading_unit" "mmol" (by decide) (by decide),
    e "material_basis" "mass" (by decide) (by decide), e "material_unit" "g" (by decide) (by decide),
    e "temperature_unit" "K" (by decide) (by decide)]
  apply (checkLabels_ok_iff _ _ _ _ _ _ _ _).2
  refine ⟨"absolute", "molar", "mass", "K", rfl, rfl, rfl, rfl, ?_, ?_⟩
  · have : hasPrefix relativePrefix "absolute" = false := by decide
    simp [forced, this]
  · simp only [LabelVals.labels, strOf_str]
    decide

/-! ### relative modes -/

/-- under a mode that starts with `relative` no pressure unit is stored, whatever was passed -/
theorem relative_mode_forces_no_pressure_unit (w : World α) (a : Args α) (i : Construct.Iso α) (h : construct w a = .ok i)
    (hp : hasPrefix relativePrefix i.lab.pmode = true) : i.lab.punit = Val.none := by
  obtain ⟨-, -, -, hl, -, -⟩ := (construct_ok_iff w a i).1 h
  obtain ⟨pms, lbs, mbs, tus, -, -, -, -, h5, -⟩ := (checkLabels_ok_iff _ _ _ _ _ _ _ _).1 hl
  rw [h5] at hp ⊢
  simp only at hp
  simp [forced, hp]

/-- every accepted isotherm whose mode is not `absolute` stores no pressure unit (all other modes of the generated table carry the prefix) -/
theorem non_absolute_isotherm_has_no_pressure_unit (w : World α) (a : Args α) (i : Construct.Iso α) (h : construct w a = .ok i)
    (hp : i.lab.pmode ≠ "absolute") : i.lab.punit = Val.none ∧ i.lab.labels.punit = none := by
  have hv := accepted_labels_valid w a i h
  have hm : (pressureMode.lookup i.lab.pmode).isSome = true := by
    unfold validLabels LabelVals.labels at hv
    simp only [Bool.and_eq_true] at hv
    exact hv.1.1.1.1.1
  have hk : i.lab.pmode ∈ keys pressureMode := (mem_keys_iff _ _).2 hm
  obtain ⟨kv, hkv, hkv'⟩ := List.mem_map.1 hk
  have hpre : hasPrefix relativePrefix i.lab.pmode = true := by
    rw [← hkv']
    exact non_absolute_modes_have_prefix kv hkv (by rw [hkv']; exact hp)
  have := relative_mode_forces_no_pressure_unit w a i h hpre
  exact ⟨this, by simp [LabelVals.labels, this, strOf, Val.none]⟩

/-! ### what ends up among the metadata -/

/-- **the metadata are exactly the keyword arguments that are not a unit parameter, a named parameter or a shorthand** -/
theorem properties_are_the_other_keys (w : World α) (a : Args α) (i : Construct.Iso α) (h : construct w a = .ok i) (k : String) :
    i.properties.lookup k = if unitPops.contains k || specialKeys.contains k then none else a.lookup k :=
  Construct.properties_are_the_other_keys w a i h k

/-- no unit parameter, required descriptor or shorthand appears among the metadata; every metadata key was passed by the caller -/
theorem reserved_keys_not_in_properties (w : World α) (a : Args α) (i : Construct.Iso α) (h : construct w a = .ok i) :
    ∀ k ∈ keys i.properties, k ∉ unitPops ∧ k ∉ initParams ∧ k ∉ shorthands.map (·.1) ∧ k ∈ keys a :=
  Construct.reserved_keys_not_in_properties w a i h

/-- as the code has it: the reserved PRIVATE names are not consumed, so they pass as metadata like any other key -/
theorem private_names_pass_as_metadata (w : World α) (a : Args α) (i : Construct.Iso α) (h : construct w a = .ok i) :
    i.properties.lookup "_material" = a.lookup "_material" ∧ i.properties.lookup "_temperature" = a.lookup "_temperature" := by
  constructor <;> rw [properties_are_the_other_keys w a i h] <;> rfl

/-- distinct keyword arguments give distinct metadata keys -/
theorem properties_keys_nodup (w : World α) (a : Args α) (i : Construct.Iso α) (h : construct w a = .ok i) (hn : (keys a).Nodup) :
    (keys i.properties).Nodup :=
  Construct.properties_keys_nodup w a i h hn

/-! ### shorthands -/

/-- the constructor sees a call only through the three descriptors after the shorthand loop and the remaining keywords -/
theorem shorthand_equiv (w : World α) (a a' : Args α) (h : prepCall a = prepCall a') : construct w a = construct w a' := by
  rw [construct_eq, construct_eq, h]

omit [Field α] in
lemma filter_special_cons (k : String) (v : Val α) (a : Args α) (hk : specialKeys.contains k = true) :
    ((k, v) :: a).filter (fun kv => !specialKeys.contains kv.1) = a.filter (fun kv => !specialKeys.contains kv.1) := by
  have hk' : k ∈ specialKeys := by simpa using hk
  simp [List.filter_cons, hk']

omit [Field α] in
lemma pick_some {v d : Val α} (hv : v.isNone = false) : pick (some v) d = v := by simp [pick, hv]

omit [Field α] in
lemma pick_absent {d : Val α} : pick (none : Option (Val α)) d = d := by
  have hn : (Val.none : Val α).isNone = true := rfl
  simp [pick, hn]

omit [Field α] in
lemma pick_None {d : Val α} : pick (some (Val.none : Val α)) d = d := by
  have hn : (Val.none : Val α).isNone = true := rfl
  simp [pick, hn]

/-- `m=v` ≡ `material=v` -/
theorem shorthand_material (w : World α) (a : Args α) (v : Val α) (hv : v.isNone = false) (h1 : "m" ∉ keys a) (h2 : "material" ∉ keys a) :
    construct w (("m", v) :: a) = construct w (("material", v) :: a) := by
  apply shorthand_equiv
  have e1 := lookup_none_of_not_mem h1
  have e2 := lookup_none_of_not_mem h2
  rw [prepCall_eq, prepCall_eq]
  simp only [filter_special_cons _ _ _ (show specialKeys.contains "m" = true by decide), filter_special_cons _ _ _ (show specialKeys.contains "a" = true by decide),
    filter_special_cons _ _ _ (show specialKeys.contains "t" = true by decide), filter_special_cons _ _ _ (show specialKeys.contains "material" = true by decide),
    filter_special_cons _ _ _ (show specialKeys.contains "adsorbate" = true by decide),
    filter_special_cons _ _ _ (show specialKeys.contains "temperature" = true by decide)]
  simp only [lookup_cons_eq, lookup_cons_ne (show "m" ≠ "material" by decide), lookup_cons_ne (show "material" ≠ "m" by decide),
    lookup_cons_ne (show "a" ≠ "m" by decide), lookup_cons_ne (show "a" ≠ "material" by decide), lookup_cons_ne (show "t" ≠ "m" by decide),
    lookup_cons_ne (show "t" ≠ "material" by decide), lookup_cons_ne (show "adsorbate" ≠ "m" by decide),
    lookup_cons_ne (show "adsorbate" ≠ "material" by decide), lookup_cons_ne (show "temperature" ≠ "m" by decide),
    lookup_cons_ne (show "temperature" ≠ "material" by decide), e1, e2, pick_some hv, pick_absent, Option.getD_some, Option.getD_none]

/-- `a=v` ≡ `adsorbate=v` -/
theorem shorthand_adsorbate (w : World α) (a : Args α) (v : Val α) (hv : v.isNone = false) (h1 : "a" ∉ keys a) (h2 : "adsorbate" ∉ keys a) :
    construct w (("a", v) :: a) = construct w (("adsorbate", v) :: a) := by
  apply shorthand_equiv
  have e1 := lookup_none_of_not_mem h1
  have e2 := lookup_none_of_not_mem h2
  rw [prepCall_eq, prepCall_eq]
  simp only [filter_special_cons _ _ _ (show specialKeys.contains "m" = true by decide), filter_special_cons _ _ _ (show specialKeys.contains "a" = true by decide),
    filter_special_cons _ _ _ (show specialKeys.contains "t" = true by decide), filter_special_cons _ _ _ (show specialKeys.contains "material" = true by decide),
    filter_special_cons _ _ _ (show specialKeys.contains "adsorbate" = true by decide),
    filter_special_cons _ _ _ (show specialKeys.contains "temperature" = true by decide)]
  simp only [lookup_cons_eq, lookup_cons_ne (show "a" ≠ "adsorbate" by decide), lookup_cons_ne (show "adsorbate" ≠ "a" by decide),
    lookup_cons_ne (show "m" ≠ "a" by decide), lookup_cons_ne (show "m" ≠ "adsorbate" by decide), lookup_cons_ne (show "t" ≠ "a" by decide),
    lookup_cons_ne (show "t" ≠ "adsorbate" by decide), lookup_cons_ne (show "material" ≠ "a" by decide),
    lookup_cons_ne (show "material" ≠ "adsorbate" by decide), lookup_cons_ne (show "temperature" ≠ "a" by decide),
    lookup_cons_ne (show "temperature" ≠ "adsorbate" by decide), e1, e2, pick_some hv, pick_absent, Option.getD_some, Option.getD_none]

/-- `t=v` ≡ `temperature=v`, for every value that is not `None` — zero and `False` included -/
theorem shorthand_temperature (w : World α) (a : Args α) (v : Val α) (hv : v.isNone = false) (h1 : "t" ∉ keys a) (h2 : "temperature" ∉ keys a) :
    construct w (("t", v) :: a) = construct w (("temperature", v) :: a) := by
  apply shorthand_equiv
  have e1 := lookup_none_of_not_mem h1
  have e2 := lookup_none_of_not_mem h2
  rw [prepCall_eq, prepCall_eq]
  simp only [filter_special_cons _ _ _ (show specialKeys.contains "m" = true by decide), filter_special_cons _ _ _ (show specialKeys.contains "a" = true by decide),
    filter_special_cons _ _ _ (show specialKeys.contains "t" = true by decide), filter_special_cons _ _ _ (show specialKeys.contains "material" = true by decide),
    filter_special_cons _ _ _ (show specialKeys.contains "adsorbate" = true by decide),
    filter_special_cons _ _ _ (show specialKeys.contains "temperature" = true by decide)]
  simp only [lookup_cons_eq, lookup_cons_ne (show "t" ≠ "temperature" by decide), lookup_cons_ne (show "temperature" ≠ "t" by decide),
    lookup_cons_ne (show "m" ≠ "t" by decide), lookup_cons_ne (show "m" ≠ "temperature" by decide), lookup_cons_ne (show "a" ≠ "t" by decide),
    lookup_cons_ne (show "a" ≠ "temperature" by decide), lookup_cons_ne (show "material" ≠ "t" by decide),
    lookup_cons_ne (show "material" ≠ "temperature" by decide), lookup_cons_ne (show "adsorbate" ≠ "t" by decide),
    lookup_cons_ne (show "adsorbate" ≠ "temperature" by decide), e1, e2, pick_some hv, pick_absent, Option.getD_some, Option.getD_none]

/-- both spellings given: the shorthand wins … -/
theorem shorthand_wins (w : World α) (a : Args α) (v v' : Val α) (hv : v.isNone = false) (h1 : "t" ∉ keys a) (h2 : "temperature" ∉ keys a) :
    construct w (("t", v) :: ("temperature", v') :: a) = construct w (("temperature", v) :: a) := by
  apply shorthand_equiv
  have e1 := lookup_none_of_not_mem h1
  have e2 := lookup_none_of_not_mem h2
  rw [prepCall_eq, prepCall_eq]
  simp only [filter_special_cons _ _ _ (show specialKeys.contains "m" = true by decide), filter_special_cons _ _ _ (show specialKeys.contains "a" = true by decide),
    filter_special_cons _ _ _ (show specialKeys.contains "t" = true by decide), filter_special_cons _ _ _ (show specialKeys.contains "material" = true by decide),
    filter_special_cons _ _ _ (show specialKeys.contains "adsorbate" = true by decide),
    filter_special_cons _ _ _ (show specialKeys.contains "temperature" = true by decide)]
  simp only [lookup_cons_eq, lookup_cons_ne (show "t" ≠ "temperature" by decide), lookup_cons_ne (show "temperature" ≠ "t" by decide),
    lookup_cons_ne (show "m" ≠ "t" by decide), lookup_cons_ne (show "m" ≠ "temperature" by decide), lookup_cons_ne (show "a" ≠ "t" by decide),
    lookup_cons_ne (show "a" ≠ "temperature" by decide), lookup_cons_ne (show "material" ≠ "t" by decide),
    lookup_cons_ne (show "material" ≠ "temperature" by decide), lookup_cons_ne (show "adsorbate" ≠ "t" by decide),
    lookup_cons_ne (show "adsorbate" ≠ "temperature" by decide), e1, e2, pick_some hv, pick_absent, Option.getD_some, Option.getD_none]

/-- … unless it is `None`, which counts as not given -/
theorem shorthand_none_ignored (w : World α) (a : Args α) (v' : Val α) (h1 : "t" ∉ keys a) (h2 : "temperature" ∉ keys a) :
    construct w (("t", Val.none) :: ("temperature", v') :: a) = construct w (("temperature", v') :: a) := by
  apply shorthand_equiv
  have e1 := lookup_none_of_not_mem h1
  have e2 := lookup_none_of_not_mem h2
  rw [prepCall_eq, prepCall_eq]
  simp only [filter_special_cons _ _ _ (show specialKeys.contains "m" = true by decide), filter_special_cons _ _ _ (show specialKeys.contains "a" = true by decide),
    filter_special_cons _ _ _ (show specialKeys.contains "t" = true by decide), filter_special_cons _ _ _ (show specialKeys.contains "material" = true by decide),
    filter_special_cons _ _ _ (show specialKeys.contains "adsorbate" = true by decide),
    filter_special_cons _ _ _ (show specialKeys.contains "temperature" = true by decide)]
  simp only [lookup_cons_eq, lookup_cons_ne (show "t" ≠ "temperature" by decide), lookup_cons_ne (show "temperature" ≠ "t" by decide),
    lookup_cons_ne (show "m" ≠ "t" by decide), lookup_cons_ne (show "m" ≠ "temperature" by decide), lookup_cons_ne (show "a" ≠ "t" by decide),
    lookup_cons_ne (show "a" ≠ "temperature" by decide), lookup_cons_ne (show "material" ≠ "t" by decide),
    lookup_cons_ne (show "material" ≠ "temperature" by decide), lookup_cons_ne (show "adsorbate" ≠ "t" by decide),
    lookup_cons_ne (show "adsorbate" ≠ "temperature" by decide), e1, e2, pick_None, pick_absent, Option.getD_some, Option.getD_none]

/-! ### the dictionary route -/

/-- an accepted isotherm is well-formed: valid labels, no pressure unit under a relative mode, metadata keys distinct and none of them a
key the constructor consumes -/
theorem construct_wellformed (w : World α) (a : Args α) (i : Construct.Iso α) (h : construct w a = .ok i) (hn : (keys a).Nodup) :
    validLabels i.lab.labels = true ∧ forced i.lab.pmode i.lab.punit = i.lab.punit ∧
      (∀ k ∈ keys i.properties, k ∉ specialKeys ∧ k ∉ unitPops) ∧ (keys i.properties).Nodup :=
  Construct.construct_wellformed w a i h hn

/-- `to_dict()` of a well-formed metadata-only isotherm: its ten own entries followed by the metadata; and **handing that dictionary back
to the constructor reproduces the isotherm** — in any session `w'` whose registries resolve the material and the adsorbate to themselves -/
theorem toDict_construct (w' : World α) (i : Construct.Iso α) (m : Val α)
    (hm : matVal i.material = .ok m) (hm' : setMaterial w' m = i.material)
    (ha : (w'.adsFind i.adsorbate).getD i.adsorbate = i.adsorbate)
    (hl : validLabels i.lab.labels = true) (hf : forced i.lab.pmode i.lab.punit = i.lab.punit)
    (hp : ∀ k ∈ keys i.properties, k ∉ specialKeys ∧ k ∉ unitPops) (hn : (keys i.properties).Nodup) :
    toDictBase i = .ok (topDict i m ++ i.properties) ∧ construct w' (topDict i m ++ i.properties) = .ok i := by
  refine ⟨toDictBase_eq i m hm ?_ hn, construct_topDict w' i m hm hm' ha hl hf hp⟩
  intro k hk hk'
  rcases topKeys_special_or_unit k hk' with h | h
  · exact (hp k hk).1 h
  · exact (hp k hk).2 h

/-- **construct, export, construct again**: for any keyword dictionary the constructor accepts, `to_dict()` succeeds as soon as the material
can be named, and the constructor applied to it gives the same isotherm (same material, adsorbate, temperature, labels, metadata in the
same order) -/
theorem construct_toDict (w w' : World α) (a : Args α) (i : Construct.Iso α) (m : Val α) (h : construct w a = .ok i) (hn : (keys a).Nodup)
    (hm : matVal i.material = .ok m) (hm' : setMaterial w' m = i.material)
    (ha : (w'.adsFind i.adsorbate).getD i.adsorbate = i.adsorbate) :
    ∃ d, toDictBase i = .ok d ∧ construct w' d = .ok i ∧ (∀ k ∈ unitPops ++ initParams, (d.lookup k).isSome = true) := by
  obtain ⟨hl, hf, hp, hnp⟩ := construct_wellformed w a i h hn
  obtain ⟨h1, h2⟩ := toDict_construct w' i m hm hm' ha hl hf hp hnp
  refine ⟨_, h1, h2, ?_⟩
  intro k hk
  rw [← mem_keys_iff, keys_append, keys_topDict]
  have : ∀ k ∈ unitPops ++ initParams, k ∈ topKeys := by decide
  exact List.mem_append_left _ (this k hk)

omit [Field α] in
/-- the material resolves to itself when it is not registered in the session: a name … -/
theorem material_fixpoint_name (w' : World α) (s : String) (h : w'.matFind s = none) :
    matVal (⟨.str s, []⟩ : Mat α) = .ok (.str s) ∧ setMaterial w' (.str s) = ⟨.str s, []⟩ := by
  constructor
  · rfl
  · simp [setMaterial, Val.str, h]

omit [Field α] in
/-- … or a name with properties (exported as a dictionary whose first entry is the name) -/
theorem material_fixpoint_dict (w' : World α) (s : String) (kv : String × Sc α) (p : List (String × Sc α)) (h : w'.matFind s = none)
    (hk : "name" ∉ keys (kv :: p)) :
    matVal (⟨.str s, kv :: p⟩ : Mat α) = .ok (.dict (("name", .str s) :: kv :: p)) ∧
      setMaterial w' (.dict (("name", .str s) :: kv :: p)) = ⟨.str s, kv :: p⟩ := by
  constructor
  · rfl
  · have hd : del (("name", Sc.str s) :: kv :: p) "name" = kv :: p := by
      unfold del
      rw [List.filter_cons]
      simp only [bne_self_eq_false, Bool.false_eq_true, if_false]
      apply List.filter_eq_self.2
      intro x hx
      have : x.1 ≠ "name" := fun hc => hk (hc ▸ List.mem_map_of_mem hx)
      simpa using this
    simp only [setMaterial, lookup_cons_eq, Option.getD_some, h, hd]
    rfl

/-! ### the order of keyword arguments -/

/-- **the content does not depend on the order of the keyword arguments**: a permuted call is accepted / refused alike (same error class),
and an accepted one differs at most in the order of the metadata -/
theorem properties_order_irrelevant (w : World α) (a₁ a₂ : Args α) (hp : a₁.Perm a₂) (hn : (keys a₁).Nodup) :
    (∀ i₁, construct w a₁ = .ok i₁ → ∃ i₂, construct w a₂ = .ok i₂ ∧ i₂.material = i₁.material ∧ i₂.adsorbate = i₁.adsorbate ∧
        i₂.temperature = i₁.temperature ∧ i₂.lab = i₁.lab ∧ i₁.properties.Perm i₂.properties) ∧
      (∀ e, construct w a₁ = .error e → construct w a₂ = .error e) := by
  obtain ⟨hc, hperm⟩ := construct_perm w hp hn
  constructor
  · intro i₁ h₁
    obtain ⟨-, -, -, -, -, hprops⟩ := (construct_ok_iff w a₁ i₁).1 h₁
    rw [hc, h₁]
    exact ⟨_, rfl, rfl, rfl, rfl, rfl, by rw [hprops]; exact hperm⟩
  · intro e h₁
    rw [hc, h₁]
    rfl

/-- … hence **the identifier does not depend on the order of the keyword arguments** (identifier = uninterpreted hash of the key-sorted
`to_dict()`, `Model/Json.isoId`; `pr` prints floats) -/
theorem id_independent_of_keyword_order {ι : Type} (H : Json.Dict × Json.Payload → ι) (pr : α → String) (w : World α) (a₁ a₂ : Args α)
    (hp : a₁.Perm a₂) (hn : (keys a₁).Nodup) (i₁ i₂ : Construct.Iso α) (h₁ : construct w a₁ = .ok i₁) (h₂ : construct w a₂ = .ok i₂)
    (d₁ d₂ : Args α) (hd₁ : toDictBase i₁ = .ok d₁) (hd₂ : toDictBase i₂ = .ok d₂) :
    Json.isoId H (content pr d₁) = Json.isoId H (content pr d₂) := by
  obtain ⟨i₂', h₂', e1, e2, e3, e4, e5⟩ := (properties_order_irrelevant w a₁ a₂ hp hn).1 i₁ h₁
  rw [h₂] at h₂'
  injection h₂' with h₂'
  subst h₂'
  obtain ⟨-, -, hp₁, hn₁⟩ := construct_wellformed w a₁ i₁ h₁ hn
  obtain ⟨-, -, hp₂, hn₂⟩ := construct_wellformed w a₂ i₂ h₂ (perm_nodup_keys hp hn)
  have top_free : ∀ (i : Construct.Iso α), (∀ k ∈ keys i.properties, k ∉ specialKeys ∧ k ∉ unitPops) → ∀ k ∈ keys i.properties, k ∉ topKeys := by
    intro i hpi k hk hk'
    rcases topKeys_special_or_unit k hk' with h | h
    · exact (hpi k hk).1 h
    · exact (hpi k hk).2 h
  cases hm : matVal i₁.material with
  | error e => simp [toDictBase, toDict, hm] at hd₁
  | ok m =>
    have hm₂ : matVal i₂.material = .ok m := by rw [e1]; exact hm
    rw [toDictBase_eq i₁ m hm (top_free i₁ hp₁) hn₁] at hd₁
    rw [toDictBase_eq i₂ m hm₂ (top_free i₂ hp₂) hn₂] at hd₂
    injection hd₁ with hd₁
    injection hd₂ with hd₂
    subst hd₁; subst hd₂
    have htop : topDict i₂ m = topDict i₁ m := by simp [topDict, e2, e3, e4]
    rw [htop]
    apply id_of_permuted_content
    · exact (List.Perm.append_left _ e5).map _
    · show ((render pr (topDict i₁ m ++ i₁.properties)).map (·.1)).Nodup
      rw [keys_render, keys_append, keys_topDict, List.nodup_append]
      refine ⟨by decide, hn₁, ?_⟩
      intro x hx y hy hxy
      subst hxy
      exact top_free i₁ hp₁ x hy hx
    · rfl

end

/-! ### witnesses and non-vacuity (α = ℚ, by kernel evaluation of the model on the generated tables) -/

/-- a session in which `N2` is an alias of the registered `nitrogen` and no material is registered -/
def w0 : World ℚ := ⟨fun s => if s = "N2" ∨ s = "nitrogen" then some "nitrogen" else none, fun _ => none⟩

/-- non-vacuity: a minimal call is accepted with the documented defaults (hypotheses of `documented_defaults_applied`,
`construct_accepts_iff_validLabels`, `construct_wellformed`) -/
example : construct w0 [("material", .str "M"), ("adsorbate", .str "N2"), ("t", .sc (.int 77))] =
    .ok ⟨⟨.str "M", []⟩, "nitrogen", 77, ⟨"absolute", .str "bar", "molar", .str "mmol", "mass", .str "g", "K"⟩, []⟩ := by decide

def aRoundTrip : Args ℚ :=
  [("user", .str "x"), ("material", .dict [("name", .str "M"), ("density", .num 2)]), ("a", .str "N2"),
   ("temperature", .sc (.num 78)), ("pressure_mode", .str "relative%"), ("pressure_unit", .str "bar"), ("n", .sc (.int 3))]

def iRoundTrip : Construct.Iso ℚ :=
  ⟨⟨.str "M", [("density", .num 2)]⟩, "nitrogen", 78, ⟨"relative%", .none, "molar", .str "mmol", "mass", .str "g", "K"⟩,
   [("user", .str "x"), ("n", .sc (.int 3))]⟩

/-- non-vacuity of the dictionary route (`toDict_construct`, `construct_toDict`) with a material dictionary, metadata and a relative mode:
construct, export, construct again gives the same isotherm -/
example :
    construct w0 aRoundTrip = .ok iRoundTrip ∧ (toDictBase iRoundTrip).bind (construct w0) = .ok iRoundTrip ∧
      (toDictBase iRoundTrip).map (fun d => (d.lookup "material", d.lookup "pressure_unit", d.lookup "n")) =
        .ok (some (.dict [("name", .str "M"), ("density", .num 2)]), some Val.none, some (.sc (.int 3))) := by
  decide

/-- both spellings given: the shorthand wins (`shorthand_wins`), zero is a value (`shorthand_temperature`), `None` is not (`shorthand_none_ignored`) -/
theorem both_spellings_witness :
    (construct w0 [("material", .str "M"), ("a", .str "N2"), ("t", .sc (.int 0)), ("temperature", .sc (.int 77))]).map (·.temperature) = .ok 0 ∧
    (construct w0 [("material", .str "M"), ("a", .str "N2"), ("t", .none), ("temperature", .sc (.int 77))]).map (·.temperature) = .ok 77 ∧
    construct w0 [("material", .str "M"), ("a", .str "N2"), ("t", .none)] = .error .param := by decide

/-- as the code has it: the deprecated `loading_basis='volume'` is refused — the rewrite to `volume_gas` tests the class default
(`volume_rewrite_is_dead`), not the argument -/
theorem deprecated_volume_basis_refused_witness :
    construct w0 [("material", .str "M"), ("adsorbate", .str "N2"), ("temperature", .sc (.int 77)), ("loading_basis", .str "volume"),
      ("loading_unit", .str "cm3")] = .error .param := by decide

/-- as the code has it: an invalid material unit is refused with a KeyError when the loading basis is not also a material basis (the
message of the ParameterError reads `_MATERIAL_MODE[self.loading_basis]`), with a ParameterError otherwise -/
theorem material_unit_refusal_class_witness :
    construct w0 [("material", .str "M"), ("adsorbate", .str "N2"), ("temperature", .sc (.int 77)), ("loading_basis", .str "volume_gas"),
      ("loading_unit", .str "mL"), ("material_basis", .str "molar"), ("material_unit", .str "g")] = .error .key ∧
    construct w0 [("material", .str "M"), ("adsorbate", .str "N2"), ("temperature", .sc (.int 77)), ("loading_basis", .str "mass"),
      ("loading_unit", .str "mg"), ("material_basis", .str "molar"), ("material_unit", .str "g")] = .error .param := by decide

def dNamed : Val ℚ := .dict [("name", .str "X"), ("density", .num 2)]

def aNamed : Args ℚ := [("material", dNamed), ("adsorbate", .str "N2"), ("temperature", .sc (.int 77))]

/-- **the arguments can be used again** (finding S58-C05, repaired: the material setter works on a copy of a dictionary): what the caller
holds after a call is what was passed, so a second construction from the same argument OBJECTS is the same isotherm — same content, same
identifier (`construct` is a function of the arguments; `id_independent_of_keyword_order` for the identifier) -/
theorem arguments_unchanged_by_call (a : Args α) : argsAfterCall dictAfterCall a = a := by
  induction a with
  | nil => rfl
  | cons kv t ih =>
    have h : argsAfterCall dictAfterCall (kv :: t) = (if kv.1 = "material" ∨ kv.1 = "m" then (kv.1, dictAfterCall kv.2) else kv) ::
        argsAfterCall dictAfterCall t := rfl
    rw [h, ih]
    by_cases hk : kv.1 = "material" ∨ kv.1 = "m" <;> simp [hk, dictAfterCall]

theorem second_construction_same [Field α] (w : World α) (a : Args α) :
    construct w (argsAfterCall dictAfterCall a) = construct w a := by
  rw [arguments_unchanged_by_call]

/-- non-vacuity: the dictionary route of the material, twice from the same arguments -/
example : construct w0 (argsAfterCall dictAfterCall aNamed) = construct w0 aNamed ∧
    (construct w0 aNamed).map (·.material) = .ok ⟨.str "X", [("density", .num 2)]⟩ := by decide

/-- the copy is NEEDED: a setter that takes `name` out of the argument itself (`dictAfterPoppingCall`, the tree before S58-C05) leaves the
caller a dictionary without the name, and the SAME dictionary object handed to a second constructor call describes a nameless material —
the two isotherms differ although the program passed the same arguments twice -/
theorem popping_setter_breaks_reuse_witness :
    dictAfterPoppingCall dNamed = .dict [("density", .num 2)] ∧ setMaterial w0 dNamed = ⟨.str "X", [("density", .num 2)]⟩ ∧
      setMaterial w0 (dictAfterPoppingCall dNamed) = ⟨.sc .none, [("density", .num 2)]⟩ ∧
      construct w0 (argsAfterCall dictAfterPoppingCall aNamed) ≠ construct w0 aNamed := by decide

/-- labels of the wrong type: a mode that is not a string is an AttributeError, an unhashable unit a TypeError,
an adsorbate that is not a string an AttributeError — refused all the same -/
theorem wrong_types_refused_witness :
    construct w0 [("material", .str "M"), ("adsorbate", .str "N2"), ("temperature", .sc (.int 77)), ("pressure_mode", .none)] = .error .attr ∧
    construct w0 [("material", .str "M"), ("adsorbate", .str "N2"), ("temperature", .sc (.int 77)), ("loading_unit", .list [.str "mmol"])] = .error .type ∧
    construct w0 [("material", .str "M"), ("adsorbate", .sc (.int 5)), ("temperature", .sc (.int 77))] = .error .attr := by decide

/-- under fraction / percent the loading and material units are stored unchecked (`validLabels` does not look at them either) -/
theorem fraction_units_unchecked_witness :
    (construct w0 [("material", .str "M"), ("adsorbate", .str "N2"), ("temperature", .sc (.int 77)), ("loading_basis", .str "fraction"),
      ("loading_unit", .sc (.int 5)), ("material_unit", .str "nonsense")]).map (fun i => (i.lab.lunit, i.lab.munit)) =
      .ok (.sc (.int 5), .str "nonsense") := by decide

/-! ### the data arguments of the two data-carrying classes (control logic only) -/

/-- the literal defaults of the `branch` parameter -/
theorem default_branches :
    pointInitParams.lookup "branch" = some (some "guess") ∧ modelInitParams.lookup "branch" = some (some "ads") := by decide

/-- arrays: standard keys, no other keys, marks guessed from the pressures (`splitAds`); a table: the given keys first, `branch` third — also when
the table has such a column (then it is used as it is and `branch=` is ignored) —, the remaining columns sorted -/
theorem point_data_witness :
    pointData (⟨some [1, 2, 3, 2], some [1, 2, 3, 4], none, none, none, .str "guess"⟩ : PointArgs ℚ) =
      .ok ⟨"pressure", "loading", ["pressure", "loading", "branch"], [], [some 0, some 0, some 0, some 1]⟩ ∧
    pointData (⟨none, none, some ⟨["z", "p", "n", "branch", "a"], 2, [("p", [1, 2]), ("branch", [1, 0])]⟩, some "p", some "n", .str "ads"⟩ : PointArgs ℚ) =
      .ok ⟨"p", "n", ["p", "n", "branch", "a", "z"], ["a", "z"], [some 1, some 0]⟩ ∧
    pointData (⟨none, none, some ⟨["z", "p", "n"], 2, [("p", [1, 2])]⟩, some "p", some "n", .str "des"⟩ : PointArgs ℚ) =
      .ok ⟨"p", "n", ["p", "n", "branch", "z"], ["z"], [some 1, some 1]⟩ ∧
    pointData (⟨some [1, 2], none, none, none, none, .str "guess"⟩ : PointArgs ℚ) = .error .param ∧
    pointData (⟨some [1, 2], some [1, 2], none, none, none, .str "both"⟩ : PointArgs ℚ) = .error .param := by decide

/-- a model isotherm around a model INSTANCE stores the instance and the branch unchecked; with data the branch must be `ads` / `des` and
select at least one point; without a model nothing is accepted -/
theorem model_route_witness :
    modelRoute (⟨none, none, none, none, none, .str "guess", .inst "Henry"⟩ : ModelArgs ℚ) = .ok (.stored "Henry" (.str "guess")) ∧
    modelRoute (⟨none, none, some ⟨["p", "n"], 3, [("p", [1, 3, 2])]⟩, some "p", some "n", .str "des", .name "Henry"⟩ : ModelArgs ℚ) =
      .ok (.fit (.str "des") [2]) ∧
    modelRoute (⟨none, none, some ⟨["p", "n"], 3, [("p", [1, 2, 3])]⟩, some "p", some "n", .str "des", .name "Henry"⟩ : ModelArgs ℚ) = .error .param ∧
    modelRoute (⟨some [1], some [1], none, none, none, .str "ads", .none⟩ : ModelArgs ℚ) = .error .param ∧
    modelRoute (⟨none, none, none, none, none, .str "ads", .name "Henry"⟩ : ModelArgs ℚ) = .error .param := by decide

def iPlain : Construct.Iso ℚ :=
  ⟨⟨.str "M", []⟩, "nitrogen", 77, ⟨"absolute", .str "bar", "molar", .str "mmol", "mass", .str "g", "K"⟩, [("user", .str "x")]⟩

/-- `ModelIsotherm.to_dict()` exports the branch (and not the model); `PointIsotherm.to_dict()` is the metadata-only dictionary -/
theorem subclass_toDict_witness :
    (toDictModel iPlain (.str "des")).map (fun d => (d.lookup "branch", d.lookup "model")) = .ok (some (.str "des"), none) ∧
      toDictPoint iPlain = toDictBase iPlain := by decide

end PgVerif.C05
