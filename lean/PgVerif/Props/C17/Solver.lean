/-
C17 — "each reported pore width solves the method's potential equation AT THE CORRESPONDING relative pressure" is a statement per point:
the loops `_solve_hk` / `_solve_hk_cy` (model: `PgVerif.Model.Micro.solveLoop`, `solveHK`, `solveHKCY`, tied to the code on every run by
the harness through `Drv/Char.lean`, request `hksolve`) hand every point to the same minimisation, so the width reported for a point does
not depend on the other points of the call, on their order, or on how many there are.

A. the loop is a prefix of `map solve`; entry `j` is `solve (points[j])`; where it stops
B. independence of the other points: single point, sub-sequences, re-ordering (`List.Perm`), repeated pressures, congruence in `solve`
   (the driver runs the loop with the measured single-point widths as `solve`)
C. widths are a non-decreasing FUNCTION of pressure whatever the order of the points, provided the minimiser is monotone on them
D. slit HK: pressures computed from the published equation for chosen wall distances IN ANY ORDER are mapped back to those distances by
   any exact solver (with A4 of Props/C17.lean: the solution is unique)
E. the Cheng-Yang loop: per point (pressure, coverage); F. non-vacuity examples
G. adequacy of the generator: an (idealised) loop that carries its search interval over agrees with the library's loop on increasing
   sequences and differs at every point that lies below an earlier one — the harness therefore generates such points

The hypothesis `∀ x ∈ xs, solve x ≤ wmax` ("no width above 10/geo") is the one under which the code reports every point; without it
the loop stops early (A4-A6) and WHICH points are reported does depend on the order — that part of the behaviour is stated, not hidden.
-/
import PgVerif.Props.C17
import Mathlib.Data.List.Perm.Basic
import Mathlib.Data.List.Sort

namespace PgVerif.Props.C17
open PgVerif.Gen.CharR PgVerif.Model.Micro

section Loop
variable {β γ : Type} [LinearOrder γ]

@[simp] lemma solveLoop_nil (solve : β → γ) (wmax : γ) : solveLoop solve wmax [] = [] := rfl

lemma solveLoop_cons (solve : β → γ) (wmax : γ) (x : β) (xs : List β) :
    solveLoop solve wmax (x :: xs) = if wmax < solve x then [solve x] else solve x :: solveLoop solve wmax xs := rfl

/-! ## A. structure of the result -/

/-- A1. the reported widths are the widths of the first points, in their order: a prefix of `map solve` -/
theorem solveLoop_prefix (solve : β → γ) (wmax : γ) (xs : List β) :
    solveLoop solve wmax xs <+: xs.map solve := by
  induction xs with
  | nil => simp
  | cons x xs ih =>
    rw [solveLoop_cons]
    split_ifs
    · simp [List.map_cons]
    · simpa [List.map_cons] using ih

theorem solveLoop_length_le (solve : β → γ) (wmax : γ) (xs : List β) :
    (solveLoop solve wmax xs).length ≤ xs.length := by
  simpa using (solveLoop_prefix solve wmax xs).length_le

/-- A2. per point: entry `j` of the result is the minimiser applied to point `j` — nothing else of the call enters -/
theorem solveLoop_getElem (solve : β → γ) (wmax : γ) (xs : List β) (j : Nat)
    (hj : j < (solveLoop solve wmax xs).length) :
    (solveLoop solve wmax xs)[j] = solve (xs[j]'(lt_of_lt_of_le hj (solveLoop_length_le solve wmax xs))) := by
  have h := (solveLoop_prefix solve wmax xs)
  rw [List.prefix_iff_eq_take] at h
  have e : (solveLoop solve wmax xs)[j] = (List.take (solveLoop solve wmax xs).length (xs.map solve))[j]'(by
      rw [← h]; exact hj) := by
    congr 1
  rw [e, List.getElem_take, List.getElem_map]

/-- A3. at least the first point is always solved -/
theorem solveLoop_length_pos (solve : β → γ) (wmax : γ) (xs : List β) (h : xs ≠ []) :
    0 < (solveLoop solve wmax xs).length := by
  cases xs with
  | nil => exact absurd rfl h
  | cons x xs => rw [solveLoop_cons]; split_ifs <;> simp

/-- A4. every point is reported when no width exceeds `wmax = 10 / geo` -/
theorem solveLoop_eq_map (solve : β → γ) (wmax : γ) (xs : List β) (h : ∀ x ∈ xs, solve x ≤ wmax) :
    solveLoop solve wmax xs = xs.map solve := by
  induction xs with
  | nil => rfl
  | cons x xs ih =>
    rw [solveLoop_cons, if_neg (not_lt.mpr (h x (by simp))), ih (fun y hy => h y (by simp [hy]))]
    rfl

/-- A5. all reported widths but the last are at most `wmax` -/
theorem solveLoop_le_before_last (solve : β → γ) (wmax : γ) (xs : List β) (j : Nat)
    (hj : j + 1 < (solveLoop solve wmax xs).length) :
    (solveLoop solve wmax xs)[j]'(by omega) ≤ wmax := by
  induction xs generalizing j with
  | nil => simp at hj
  | cons x xs ih =>
    have hc := solveLoop_cons solve wmax x xs
    by_cases hx : wmax < solve x
    · rw [if_pos hx] at hc
      have : (solveLoop solve wmax (x :: xs)).length = 1 := by rw [hc]; rfl
      omega
    · rw [if_neg hx] at hc
      have hl : (solveLoop solve wmax (x :: xs)).length = (solveLoop solve wmax xs).length + 1 := by rw [hc]; rfl
      cases j with
      | zero => simp only [hc, List.getElem_cons_zero]; exact not_lt.mp hx
      | succ j =>
        simp only [hc, List.getElem_cons_succ]
        exact ih j (by omega)

/-- A6. when points were dropped, the last reported width is the one that exceeded `wmax` (the `break`) -/
theorem solveLoop_last_of_short (solve : β → γ) (wmax : γ) (xs : List β)
    (h : (solveLoop solve wmax xs).length < xs.length) :
    ∃ hne : solveLoop solve wmax xs ≠ [], wmax < (solveLoop solve wmax xs).getLast hne := by
  induction xs with
  | nil => simp at h
  | cons x xs ih =>
    by_cases hx : wmax < solve x
    · have hc : solveLoop solve wmax (x :: xs) = [solve x] := by rw [solveLoop_cons, if_pos hx]
      refine ⟨by rw [hc]; simp, ?_⟩
      simp only [hc, List.getLast_singleton]
      exact hx
    · have hc : solveLoop solve wmax (x :: xs) = solve x :: solveLoop solve wmax xs := by rw [solveLoop_cons, if_neg hx]
      have h' : (solveLoop solve wmax xs).length < xs.length := by rw [hc] at h; simpa using h
      obtain ⟨hne, hlast⟩ := ih h'
      refine ⟨by rw [hc]; simp, ?_⟩
      simp only [hc]
      rw [List.getLast_cons hne]
      exact hlast

/-! ## B. independence of the other points -/

/-- B1. a call with one point: the reference against which the harness measures `solve` on the real code -/
theorem solveLoop_single (solve : β → γ) (wmax : γ) (x : β) : solveLoop solve wmax [x] = [solve x] := by
  rw [solveLoop_cons]; split_ifs <;> rfl

/-- B1'. the first width of any call is the width of the one-point call with that point -/
theorem solveLoop_head (solve : β → γ) (wmax : γ) (x : β) (xs : List β) :
    (solveLoop solve wmax (x :: xs)).head? = (solveLoop solve wmax [x]).head? := by
  rw [solveLoop_single, solveLoop_cons]; split_ifs <;> rfl

/-- B2. the width reported for point `j` of a call equals the width of the one-point call with that point -/
theorem solveLoop_getElem_eq_single (solve : β → γ) (wmax : γ) (xs : List β) (j : Nat)
    (hj : j < (solveLoop solve wmax xs).length) :
    [(solveLoop solve wmax xs)[j]]
      = solveLoop solve wmax [xs[j]'(lt_of_lt_of_le hj (solveLoop_length_le solve wmax xs))] := by
  rw [solveLoop_single, solveLoop_getElem]

/-- B3. two calls: a point that is reported by both gets the same width, wherever it stands and whatever surrounds it -/
theorem solveLoop_same_point (solve : β → γ) (wmax : γ) (xs ys : List β) (i j : Nat)
    (hi : i < (solveLoop solve wmax xs).length) (hj : j < (solveLoop solve wmax ys).length)
    (h : xs[i]'(lt_of_lt_of_le hi (solveLoop_length_le solve wmax xs))
        = ys[j]'(lt_of_lt_of_le hj (solveLoop_length_le solve wmax ys))) :
    (solveLoop solve wmax xs)[i] = (solveLoop solve wmax ys)[j] := by
  rw [solveLoop_getElem, solveLoop_getElem, h]

/-- B4. repeated pressures within one call get the same width -/
theorem solveLoop_duplicate (solve : β → γ) (wmax : γ) (xs : List β) (i j : Nat)
    (hi : i < (solveLoop solve wmax xs).length) (hj : j < (solveLoop solve wmax xs).length)
    (h : xs[i]'(lt_of_lt_of_le hi (solveLoop_length_le solve wmax xs))
        = xs[j]'(lt_of_lt_of_le hj (solveLoop_length_le solve wmax xs))) :
    (solveLoop solve wmax xs)[i] = (solveLoop solve wmax xs)[j] :=
  solveLoop_same_point solve wmax xs xs i j hi hj h

/-- B5. re-ordering the points re-orders the (point, width) pairs and changes none of them -/
theorem solveLoop_perm (solve : β → γ) (wmax : γ) (xs ys : List β) (hp : xs.Perm ys) (h : ∀ x ∈ xs, solve x ≤ wmax) :
    (xs.zip (solveLoop solve wmax xs)).Perm (ys.zip (solveLoop solve wmax ys)) := by
  rw [solveLoop_eq_map solve wmax xs h, solveLoop_eq_map solve wmax ys (fun y hy => h y (hp.mem_iff.mpr hy))]
  have e : ∀ l : List β, l.zip (l.map solve) = l.map (fun x => (x, solve x)) := by
    intro l
    induction l with
    | nil => rfl
    | cons a l ih => simp [ih]
  rw [e, e]
  exact hp.map _

/-- B5'. in particular the multiset of reported widths does not depend on the order -/
theorem solveLoop_perm_widths (solve : β → γ) (wmax : γ) (xs ys : List β) (hp : xs.Perm ys) (h : ∀ x ∈ xs, solve x ≤ wmax) :
    (solveLoop solve wmax xs).Perm (solveLoop solve wmax ys) := by
  rw [solveLoop_eq_map solve wmax xs h, solveLoop_eq_map solve wmax ys (fun y hy => h y (hp.mem_iff.mpr hy))]
  exact hp.map _

/-- B6. leaving points out (any sub-sequence) leaves the widths of the remaining points unchanged -/
theorem solveLoop_sublist (solve : β → γ) (wmax : γ) (xs ys : List β) (hs : ys.Sublist xs) (h : ∀ x ∈ xs, solve x ≤ wmax) :
    (solveLoop solve wmax ys).Sublist (solveLoop solve wmax xs) := by
  rw [solveLoop_eq_map solve wmax xs h, solveLoop_eq_map solve wmax ys (fun y hy => h y (hs.subset hy))]
  exact hs.map _

/-- B7. concatenating two data sets: the widths are those of the two separate calls -/
theorem solveLoop_append (solve : β → γ) (wmax : γ) (xs ys : List β) (h : ∀ x ∈ xs, solve x ≤ wmax) :
    solveLoop solve wmax (xs ++ ys) = solveLoop solve wmax xs ++ solveLoop solve wmax ys := by
  induction xs with
  | nil => rfl
  | cons x xs ih =>
    have hx : ¬ wmax < solve x := not_lt.mpr (h x (by simp))
    rw [List.cons_append, solveLoop_cons, if_neg hx, solveLoop_cons, if_neg hx, ih (fun y hy => h y (by simp [hy]))]
    rfl

/-- B8. only the values of the minimiser AT THE POINTS matter: the loop run with measured single-point widths (driver request
`hksolve`, `tableSolve`) is the loop run with the minimiser itself -/
theorem solveLoop_congr (solve solve' : β → γ) (wmax : γ) (xs : List β) (h : ∀ x ∈ xs, solve x = solve' x) :
    solveLoop solve wmax xs = solveLoop solve' wmax xs := by
  induction xs with
  | nil => rfl
  | cons x xs ih =>
    rw [solveLoop_cons, solveLoop_cons, h x (by simp), ih (fun y hy => h y (by simp [hy]))]

end Loop

section Table
variable {α : Type} [Field α] {β : Type} [DecidableEq β]

/-- B9. the table of measured widths reproduces a minimiser on the points it was measured on (first entry wins, as `List.lookup`) -/
theorem tableSolve_map (solve : β → α) (pts : List β) (x : β) (hx : x ∈ pts) :
    tableSolve (pts.map fun y => (y, solve y)) x = solve x := by
  unfold tableSolve
  induction pts with
  | nil => simp at hx
  | cons y pts ih =>
    by_cases hxy : x = y
    · subst hxy; simp
    · have hx' : x ∈ pts := by
        rcases List.mem_cons.mp hx with h | h
        · exact absurd h hxy
        · exact h
      have hb : (x == y) = false := by simpa using hxy
      simp only [List.map_cons, List.lookup, hb]
      exact ih hx'

/-- B9'. hence the driver's computation is the model loop for every minimiser that has the measured values -/
theorem solveLoop_table [LinearOrder α] (solve : β → α) (wmax : α) (xs : List β) :
    solveLoop (tableSolve (xs.map fun y => (y, solve y))) wmax xs = solveLoop solve wmax xs :=
  solveLoop_congr _ _ wmax xs (fun x hx => tableSolve_map solve xs x hx)

end Table

/-! ## C. widths as a function of pressure -/
section Mono
variable {α : Type} [Field α] [LinearOrder α]

/-- C1. `_solve_hk`: entry `j` is the minimiser at pressure `j` -/
theorem solveHK_getElem (solve : α → α) (geo : α) (ps : List α) (j : Nat) (hj : j < (solveHK solve geo ps).length) :
    (solveHK solve geo ps)[j] = solve (ps[j]'(lt_of_lt_of_le hj (solveLoop_length_le solve (10 / geo) ps))) :=
  solveLoop_getElem solve (10 / geo) ps j hj

/-- C2. widths are non-decreasing IN PRESSURE whatever the order in which the points are given, when the minimiser is monotone on the
pressures of the call (plain HK slit: A4 of Props/C17.lean; not the Rege-Yang potentials, finding S32) -/
theorem solveHK_mono_in_pressure (solve : α → α) (geo : α) (ps : List α)
    (hm : ∀ p ∈ ps, ∀ q ∈ ps, p ≤ q → solve p ≤ solve q) (i j : Nat)
    (hi : i < (solveHK solve geo ps).length) (hj : j < (solveHK solve geo ps).length)
    (h : ps[i]'(lt_of_lt_of_le hi (solveLoop_length_le solve (10 / geo) ps))
          ≤ ps[j]'(lt_of_lt_of_le hj (solveLoop_length_le solve (10 / geo) ps))) :
    (solveHK solve geo ps)[i] ≤ (solveHK solve geo ps)[j] := by
  rw [solveHK_getElem, solveHK_getElem]
  exact hm _ (List.getElem_mem _) _ (List.getElem_mem _) h

/-- C3. increasing pressures give non-decreasing widths (the usual call) -/
theorem solveHK_sorted (solve : α → α) (geo : α) (ps : List α)
    (hm : ∀ p ∈ ps, ∀ q ∈ ps, p ≤ q → solve p ≤ solve q) (hs : ps.Pairwise (· ≤ ·)) :
    (solveHK solve geo ps).Pairwise (· ≤ ·) := by
  have hp : (solveHK solve geo ps) <+: ps.map solve := solveLoop_prefix solve (10 / geo) ps
  refine List.Pairwise.sublist hp.sublist ?_
  rw [List.pairwise_map]
  exact List.Pairwise.imp_of_mem (fun {a b} ha hb hab => hm a ha b hb hab) hs

/-- C4. a point with a LOWER pressure than an earlier point is given a width that is not larger (the clause a carried-over search
interval breaks: there the later point cannot get below the earlier width) -/
theorem solveHK_dip (solve : α → α) (geo : α) (ps : List α)
    (hm : ∀ p ∈ ps, ∀ q ∈ ps, p ≤ q → solve p ≤ solve q) (i j : Nat) (_hij : i < j)
    (hi : i < (solveHK solve geo ps).length) (hj : j < (solveHK solve geo ps).length)
    (h : ps[j]'(lt_of_lt_of_le hj (solveLoop_length_le solve (10 / geo) ps))
          ≤ ps[i]'(lt_of_lt_of_le hi (solveLoop_length_le solve (10 / geo) ps))) :
    (solveHK solve geo ps)[j] ≤ (solveHK solve geo ps)[i] :=
  solveHK_mono_in_pressure solve geo ps hm j i hj hi h

end Mono

/-! ## D. slit HK: the round trip in any order -/

/-- D1. wall distances `ls` chosen in ANY order (each `> 2 d_eff`), pressures `exp(published equation)` for them, a minimiser that
returns an exact solution of `exp(potential(l)) = p` in `l > 2 d_eff` for each of these pressures, no width above `10 / geo`:
`_solve_hk` returns exactly the chosen distances, in the order given. -/
theorem hk_slit_round_trip_any_order (d NRT n_ads a_ads n_mat a_mat geo : ℝ) (hd : 0 < d) (hN : 0 < NRT)
    (hS : 0 < n_ads * a_ads + n_mat * a_mat) (solve : ℝ → ℝ) (ls : List ℝ)
    (hls : ∀ l ∈ ls, 2 * d < l ∧ l ≤ 10 / geo)
    (hsolve : ∀ l ∈ ls, 2 * d < solve (Real.exp (hkPublished d NRT n_ads a_ads n_mat a_mat l))
      ∧ Real.exp (hk_slit_potential d NRT n_ads a_ads n_mat a_mat (solve (Real.exp (hkPublished d NRT n_ads a_ads n_mat a_mat l))))
          = Real.exp (hkPublished d NRT n_ads a_ads n_mat a_mat l)) :
    solveHK solve geo (ls.map fun l => Real.exp (hkPublished d NRT n_ads a_ads n_mat a_mat l)) = ls := by
  have hfix : ∀ l ∈ ls, solve (Real.exp (hkPublished d NRT n_ads a_ads n_mat a_mat l)) = l := fun l hl =>
    hk_slit_round_trip d NRT n_ads a_ads n_mat a_mat l _ hd hN hS (hls l hl).1 (hsolve l hl).1 (hsolve l hl).2
  unfold solveHK
  rw [solveLoop_eq_map]
  · rw [List.map_map]
    calc ls.map (solve ∘ fun l => Real.exp (hkPublished d NRT n_ads a_ads n_mat a_mat l)) = ls.map id :=
          List.map_congr_left (fun l hl => by simpa using hfix l hl)
      _ = ls := List.map_id ls
  · intro p hp
    obtain ⟨l, hl, rfl⟩ := List.mem_map.mp hp
    rw [hfix l hl]
    exact (hls l hl).2

/-- D2. and the same pressures handed over in another order give the same distance for each pressure -/
theorem hk_slit_round_trip_perm (d NRT n_ads a_ads n_mat a_mat geo : ℝ) (hd : 0 < d) (hN : 0 < NRT)
    (hS : 0 < n_ads * a_ads + n_mat * a_mat) (solve : ℝ → ℝ) (ls ls' : List ℝ) (hp : ls.Perm ls')
    (hls : ∀ l ∈ ls, 2 * d < l ∧ l ≤ 10 / geo)
    (hsolve : ∀ l ∈ ls, 2 * d < solve (Real.exp (hkPublished d NRT n_ads a_ads n_mat a_mat l))
      ∧ Real.exp (hk_slit_potential d NRT n_ads a_ads n_mat a_mat (solve (Real.exp (hkPublished d NRT n_ads a_ads n_mat a_mat l))))
          = Real.exp (hkPublished d NRT n_ads a_ads n_mat a_mat l)) :
    (solveHK solve geo (ls.map fun l => Real.exp (hkPublished d NRT n_ads a_ads n_mat a_mat l))).Perm
      (solveHK solve geo (ls'.map fun l => Real.exp (hkPublished d NRT n_ads a_ads n_mat a_mat l))) := by
  rw [hk_slit_round_trip_any_order d NRT n_ads a_ads n_mat a_mat geo hd hN hS solve ls hls hsolve,
    hk_slit_round_trip_any_order d NRT n_ads a_ads n_mat a_mat geo hd hN hS solve ls'
      (fun l hl => hls l (hp.mem_iff.mpr hl)) (fun l hl => hsolve l (hp.mem_iff.mpr hl))]
  exact hp

/-! ## E. the Cheng-Yang loop -/
section CY
variable {α : Type} [Field α] [LinearOrder α]

/-- E1. `_solve_hk_cy`: entry `j` is the minimiser at (pressure `j`, coverage `j`); the other points enter only through the largest
loading in the coverage -/
theorem solveHKCY_getElem (solve : α → α → α) (c101 geo : α) (ps loading : List α) (j : Nat)
    (hj : j < (solveHKCY solve c101 geo ps loading).length) :
    ∃ (h1 : j < ps.length) (h2 : j < (coverage c101 loading).length),
      (solveHKCY solve c101 geo ps loading)[j] = solve ps[j] (coverage c101 loading)[j] := by
  have hl := lt_of_lt_of_le hj (solveLoop_length_le (fun pc : α × α => solve pc.1 pc.2) (10 / geo) (ps.zip (coverage c101 loading)))
  rw [List.length_zip] at hl
  refine ⟨by omega, by omega, ?_⟩
  have e := solveLoop_getElem (fun pc : α × α => solve pc.1 pc.2) (10 / geo) (ps.zip (coverage c101 loading)) j hj
  rw [List.getElem_zip] at e
  exact e

/-- E2. the coverage of a point is its loading over 1.01 times the largest loading: `coverage` is a `map` -/
theorem coverage_getElem (c101 : α) (loading : List α) (j : Nat) (hj : j < (coverage c101 loading).length) :
    (coverage c101 loading)[j]
      = loading[j]'(by simpa [coverage] using hj) / (loading.foldl max (loading.headD 0) * c101) := by
  simp [coverage]

/-- E3. without the correction in the minimiser (`solve p c` independent of `c`) the Cheng-Yang loop is the plain loop -/
theorem solveHKCY_const (solve : α → α) (c101 geo : α) (ps loading : List α) (h : ps.length ≤ loading.length) :
    solveHKCY (fun p _ => solve p) c101 geo ps loading = solveHK solve geo ps := by
  unfold solveHKCY solveHK
  have hcov : ps.length ≤ (coverage c101 loading).length := by simpa [coverage] using h
  clear h
  generalize coverage c101 loading = cov at hcov
  induction ps generalizing cov with
  | nil => simp
  | cons p ps ih =>
    cases cov with
    | nil => simp at hcov
    | cons c cov =>
      simp only [List.zip_cons_cons, solveLoop_cons]
      rw [ih cov (by simpa using hcov)]

end CY

/-! ## G. why increasing sequences cannot see a carried-over search interval (adequacy of the generator) -/
section Carried
variable {β γ : Type} [LinearOrder γ]

/-- NOT the library: an idealised loop that moves the lower end of the search interval to the width just found. For a potential
that is monotone in the pore size an exact bounded minimiser returns the root clipped to the interval, `max bound (solve p)`. -/
def carriedLoop (solve : β → γ) : γ → List β → List γ
  | _, [] => []
  | b, x :: xs => max b (solve x) :: carriedLoop solve (max b (solve x)) xs

lemma carriedLoop_length (solve : β → γ) (b : γ) (xs : List β) : (carriedLoop solve b xs).length = xs.length := by
  induction xs generalizing b with
  | nil => rfl
  | cons x xs ih => simp [carriedLoop, ih]

/-- G1. on points whose widths come out non-decreasing (increasing pressures, monotone minimiser) the carried-over loop is the
per-point loop: no generator that only produces increasing pressures can tell the two apart -/
theorem carriedLoop_eq_map_of_sorted (solve : β → γ) (b : γ) (xs : List β)
    (hs : (xs.map solve).Pairwise (· ≤ ·)) (hb : ∀ x ∈ xs, b ≤ solve x) :
    carriedLoop solve b xs = xs.map solve := by
  induction xs generalizing b with
  | nil => rfl
  | cons x xs ih =>
    have hx : max b (solve x) = solve x := max_eq_right (hb x (by simp))
    rw [List.map_cons, List.pairwise_cons] at hs
    simp only [carriedLoop, hx, List.map_cons]
    rw [ih (solve x) hs.2 (fun y hy => hs.1 (solve y) (List.mem_map.mpr ⟨y, hy, rfl⟩))]

/-- every entry of the carried-over loop is at least the starting bound and at least the per-point width of every EARLIER point -/
lemma carriedLoop_ge (solve : β → γ) (b : γ) (xs : List β) (j : Nat) (hj : j < (carriedLoop solve b xs).length) :
    b ≤ (carriedLoop solve b xs)[j] ∧
      ∀ i (hi : i ≤ j), solve (xs[i]'(by rw [carriedLoop_length] at hj; omega)) ≤ (carriedLoop solve b xs)[j] := by
  induction xs generalizing b j with
  | nil => simp [carriedLoop] at hj
  | cons x xs ih =>
    cases j with
    | zero =>
      refine ⟨by simp [carriedLoop], fun i hi => ?_⟩
      have : i = 0 := by omega
      subst this
      simp [carriedLoop]
    | succ j =>
      have hj' : j < (carriedLoop solve (max b (solve x)) xs).length := by
        simp only [carriedLoop, List.length_cons] at hj; omega
      obtain ⟨h1, h2⟩ := ih (max b (solve x)) j hj'
      simp only [carriedLoop, List.getElem_cons_succ]
      refine ⟨le_trans (le_max_left _ _) h1, fun i hi => ?_⟩
      cases i with
      | zero => simpa using le_trans (le_max_right _ _) h1
      | succ i => simpa using h2 i (by omega)

/-- G2. a point that lies BELOW an earlier one (a reading that steps back) is reported with at least the earlier width: it differs
from the per-point width `solve xs[j]` — such sequences are what the generator has to contain -/
theorem carriedLoop_ne_of_dip (solve : β → γ) (b : γ) (xs : List β) (i j : Nat) (hij : i < j) (hj : j < xs.length)
    (hdip : solve (xs[j]) < solve (xs[i])) :
    (carriedLoop solve b xs)[j]'(by rw [carriedLoop_length]; exact hj) ≠ solve (xs[j]) := by
  have h := (carriedLoop_ge solve b xs j (by rw [carriedLoop_length]; exact hj)).2 i (le_of_lt hij)
  exact ne_of_gt (lt_of_lt_of_le hdip h)

/-- G2'. whereas the library's loop (model) reports the per-point width there -/
theorem solveLoop_at_dip (solve : β → γ) (wmax : γ) (xs : List β) (j : Nat) (hj : j < xs.length)
    (h : ∀ x ∈ xs, solve x ≤ wmax) :
    (solveLoop solve wmax xs)[j]'(by rw [solveLoop_eq_map solve wmax xs h]; simpa using hj) = solve (xs[j]) := by
  rw [solveLoop_getElem]

end Carried

example : carriedLoop (fun p : ℚ => 2 * p) 0 [1, 3, 2, 4] = [2, 6, 6, 8] := by decide +kernel
example : carriedLoop (fun p : ℚ => 2 * p) 0 [1, 2, 3, 4] = solveHK (fun p : ℚ => 2 * p) 1 [1, 2, 3, 4] := by decide +kernel

/-! ## F. non-vacuity (tests, not properties) -/

/-- a pressure dip (third point below the second): the width follows the pressure down -/
example : solveHK (fun p : ℚ => 2 * p) 1 [1, 3, 2, 4] = [2, 6, 4, 8] := by decide +kernel
/-- the loop stops after the first width above `10 / geo` -/
example : solveHK (fun p : ℚ => 2 * p) 2 [1, 3, 2, 4] = [2, 6] := by decide +kernel
example : solveHK (tableSolve [((1 : ℚ), (2 : ℚ)), (3, 6), (2, 4)]) 1 [3, 2, 1, 2] = [6, 4, 2, 4] := by decide +kernel
example : solveHKCY (fun p c : ℚ => p + c) 1 1 [1, 2, 3] [1, 2, 4] = [5 / 4, 5 / 2, 4] := by decide +kernel
/-- the hypotheses of B5 are satisfiable -/
example : ([1, 3, 2] : List ℚ).Perm [2, 1, 3] ∧ ∀ x ∈ ([1, 3, 2] : List ℚ), (fun p : ℚ => 2 * p) x ≤ 10 := by decide +kernel

end PgVerif.Props.C17
