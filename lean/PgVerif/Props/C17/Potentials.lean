/-
C17 — the non-slit Horvath-Kawazoe and the Rege-Yang potentials: the executable model `PgVerif.Model.HKPot` (a statement-by-statement
transcription of the closures `potential(l_pore)` of characterisation/psd_micro.py, tied to the code on every run by the harness
through Drv/HKPot.lean) IS the published equation of each method, truncated where the code truncates it.

A. cached series coefficients: closed form (Saito-Foley  α_k = (Γ(−4.5)/(Γ(−4.5−k) Γ(k+1)))² = ∏_{j≤k} ((−4.5−j)/j)²), positivity, growth
B. HK cylinder = Saito-Foley series with `K = ⌊25 L⌋` terms; truncation bound monotone in `L`
C. HK sphere = Cheng-Yang equation (signs of `(−1)^x` resolved)
D. RY slit: the two regimes; jump at exactly two layers (witness)
E. RY cylinder / sphere: `potential_general` = published layer potentials; layer count = number of layers that fit; averages are
   population-weighted means (between the smallest and the largest layer potential), population sums are positive (no 0/0)
F. non-vacuity examples at ℚ

Published forms (as in the cited papers; the docstrings of psd_micro.py print the sphere equation with `T_9/90 − T_8/80`, `T_3/12 − T_2/8`
and the one-layer slit Rege-Yang potential with `−(σ/(L−d₀))¹⁰ + (σ/(L−d₀))⁴`; with the docstring's own `T_x` these signs do not match
Cheng-Yang (1994) eq. 16 / the 10-4 wall potential; the CODE does, and that is what is proved here).
-/
import PgVerif.Model.HKPot
import Mathlib.Tactic
import Mathlib.Algebra.BigOperators.Intervals
import Mathlib.Data.Rat.Floor
import Mathlib.Analysis.SpecialFunctions.Trigonometric.Inverse

namespace PgVerif.C17
open PgVerif.Model.HKPot
open scoped BigOperators

variable {α : Type} [Field α]

/-! ## A. the cached coefficients -/

/-- A1. closed form of the recurrence `x_k = ((−c−k)/k)² x_{k−1}`, `x_0 = 1` -/
theorem coeff_eq_prod (c : α) (k : ℕ) :
    coeff c k = ∏ j ∈ Finset.range k, ((-c - ((j + 1 : ℕ) : α)) / ((j + 1 : ℕ) : α)) ^ 2 := by
  induction k with
  | zero => simp [coeff]
  | succ k ih => rw [coeff, ih, Finset.prod_range_succ, mul_comm]

private lemma cacheFrom_getD (c : α) : ∀ (n k i : ℕ), 1 ≤ k → i < n →
    (cacheFrom c n k (coeff c (k - 1))).getD i 0 = coeff c (k + i)
  | 0, _, _, _, h => by omega
  | n + 1, k, 0, hk, _ => by
    obtain ⟨k, rfl⟩ : ∃ k', k = k' + 1 := ⟨k - 1, by omega⟩
    simp [cacheFrom, coeff]
  | n + 1, k, i + 1, hk, h => by
    obtain ⟨k, rfl⟩ : ∃ k', k = k' + 1 := ⟨k - 1, by omega⟩
    have e : ((-c - ((k + 1 : ℕ) : α)) / ((k + 1 : ℕ) : α)) ^ 2 * coeff c (k + 1 - 1) = coeff c (k + 1 + 1 - 1) := by
      simp [coeff]
    simp only [cacheFrom, List.getD_cons_succ]
    rw [e, cacheFrom_getD c n (k + 1 + 1) i (by omega) (by omega)]
    congr 1; omega

/-- A2. entry `k` of the list built by the caching loop is the recurrence value (for every index the loop fills) -/
theorem cache_getD (c : α) (n k : ℕ) (h : k < n) : (cache c n).getD k 0 = coeff c k := by
  cases k with
  | zero => simp [cache, coeff]
  | succ k =>
    have := cacheFrom_getD c (n - 1) 1 k le_rfl (by omega)
    simp only [Nat.sub_self] at this
    simp only [cache, List.getD_cons_succ]
    rw [show coeff c 0 = (1 : α) from rfl] at this
    rw [this]; congr 1; omega

private lemma cacheFrom_length (c : α) : ∀ (n k : ℕ) (p : α), (cacheFrom c n k p).length = n
  | 0, _, _ => rfl
  | n + 1, k, p => by simp [cacheFrom, cacheFrom_length c n]

/-- the cache built with `range(1, n)` has `n` entries (one entry for `n = 0`) -/
theorem cache_length (c : α) (n : ℕ) : (cache c n).length = max n 1 := by
  simp only [cache, List.length_cons, cacheFrom_length]; omega

/-- A3. `a_ks[k] = ∏_{j=1..k} ((−9/2 − j)/j)²` and `b_ks[k] = ∏_{j=1..k} ((−3/2 − j)/j)²` for all 2000 cached indices -/
theorem aKs_closed (k : ℕ) (h : k < 2000) :
    (aKs : List α).getD k 0 = ∏ j ∈ Finset.range k, ((-(9 / 2) - ((j + 1 : ℕ) : α)) / ((j + 1 : ℕ) : α)) ^ 2 := by
  rw [aKs, cache_getD _ _ _ h, coeff_eq_prod]

theorem bKs_closed (k : ℕ) (h : k < 2000) :
    (bKs : List α).getD k 0 = ∏ j ∈ Finset.range k, ((-(3 / 2) - ((j + 1 : ℕ) : α)) / ((j + 1 : ℕ) : α)) ^ 2 := by
  rw [bKs, cache_getD _ _ _ h, coeff_eq_prod]

section Ordered
variable [LinearOrder α] [IsStrictOrderedRing α]

/-- A4. the coefficients are positive (guard `0 ≤ c`: no factor `−c−j` vanishes) -/
theorem coeff_pos (c : α) (hc : 0 ≤ c) (k : ℕ) : 0 < coeff c k := by
  induction k with
  | zero => simp [coeff]
  | succ k ih =>
    rw [coeff]
    have hk : (0 : α) < ((k + 1 : ℕ) : α) := by exact_mod_cast Nat.succ_pos k
    have hne : (-c - ((k + 1 : ℕ) : α)) / ((k + 1 : ℕ) : α) ≠ 0 := by
      apply div_ne_zero _ hk.ne'
      linarith
    positivity

/-- A4. for `c > 0` they grow: every factor `((c+k)/k)²` exceeds one (so the series converge only through `(1−d/L)^{2k}`) -/
theorem coeff_strictMono (c : α) (hc : 0 < c) : StrictMono (coeff c) := by
  apply strictMono_nat_of_lt_succ
  intro k
  have hk : (0 : α) < ((k + 1 : ℕ) : α) := by exact_mod_cast Nat.succ_pos k
  have hpos := coeff_pos c hc.le k
  rw [coeff]
  have h1 : 1 < ((-c - ((k + 1 : ℕ) : α)) / ((k + 1 : ℕ) : α)) ^ 2 := by
    have e : ((-c - ((k + 1 : ℕ) : α)) / ((k + 1 : ℕ) : α)) ^ 2 = ((c + ((k + 1 : ℕ) : α)) / ((k + 1 : ℕ) : α)) ^ 2 := by
      rw [show -c - ((k + 1 : ℕ) : α) = -(c + ((k + 1 : ℕ) : α)) by ring, neg_div, neg_sq]
    rw [e]
    have : 1 < (c + ((k + 1 : ℕ) : α)) / ((k + 1 : ℕ) : α) := by rw [lt_div_iff₀ hk]; linarith
    nlinarith
  nlinarith

end Ordered

/-! ### list folds as sums -/

private lemma foldl_add_eq (f : ℕ → α) : ∀ (l : List ℕ) (s0 : α),
    l.foldl (fun s k => s + f k) s0 = s0 + (l.map f).sum
  | [], s0 => by simp
  | a :: l, s0 => by simp [foldl_add_eq f l, add_assoc]

private lemma sum_map_range' (f : ℕ → α) (m : ℕ) :
    ((List.range' 1 m).map f).sum = ∑ k ∈ Finset.range m, f (k + 1) := by
  induction m with
  | zero => simp
  | succ m ih =>
    rw [List.range'_concat, List.map_append, List.sum_append, ih, Finset.sum_range_succ]
    simp [add_comm]

/-- the loop `s = f 0; for k in range(1, K): s = s + f k` is `Σ_{k<K} f k` when `K ≥ 1` -/
private lemma loop_eq_sum (f : ℕ → α) (K : ℕ) (hK : 1 ≤ K) :
    (List.range' 1 (K - 1)).foldl (fun s k => s + f k) (f 0) = ∑ k ∈ Finset.range K, f k := by
  rw [foldl_add_eq, sum_map_range']
  obtain ⟨m, rfl⟩ : ∃ m, K = m + 1 := ⟨K - 1, by omega⟩
  rw [Finset.sum_range_succ' _ m, Nat.add_sub_cancel, add_comm]

/-! ## B. Horvath-Kawazoe cylinder = Saito-Foley series -/

section Floor
variable [LinearOrder α] [IsStrictOrderedRing α] [FloorRing α]

omit [IsStrictOrderedRing α] in
theorem pyInt_of_nonneg (x : α) (h : 0 ≤ x) : pyInt x = ⌊x⌋ := by simp [pyInt, h]

omit [IsStrictOrderedRing α] in
theorem pyInt_of_neg (x : α) (h : x < 0) : pyInt x = ⌈x⌉ := by simp [pyInt, not_le.mpr h]

/-- Python `int` truncates toward zero: the result lies between 0 and `x`, less than one away from `x` -/
theorem pyInt_spec (x : α) :
    (0 ≤ x → 0 ≤ pyInt x ∧ (pyInt x : α) ≤ x ∧ x < (pyInt x : α) + 1)
    ∧ (x < 0 → pyInt x ≤ 0 ∧ x ≤ (pyInt x : α) ∧ (pyInt x : α) < x + 1) := by
  constructor
  · intro h
    rw [pyInt_of_nonneg x h]
    exact ⟨Int.floor_nonneg.mpr h, Int.floor_le x, Int.lt_floor_add_one x⟩
  · intro h
    rw [pyInt_of_neg x h]
    refine ⟨?_, Int.le_ceil x, Int.ceil_lt_add_one x⟩
    rw [Int.ceil_le]; simpa using h.le

theorem pyInt_mono : Monotone (pyInt : α → ℤ) := by
  intro x y hxy
  by_cases hx : 0 ≤ x
  · rw [pyInt_of_nonneg x hx, pyInt_of_nonneg y (hx.trans hxy)]; exact Int.floor_le_floor hxy
  · have hx' : x < 0 := not_le.mp hx
    by_cases hy : 0 ≤ y
    · exact ((pyInt_spec x).2 hx').1.trans ((pyInt_spec y).1 hy).1
    · rw [pyInt_of_neg x hx', pyInt_of_neg y (not_le.mp hy)]; exact Int.ceil_le_ceil hxy

/-- B1. the truncation bound of the series: `int(l·25) = ⌊25 l⌋` for `l ≥ 0` -/
theorem maxK_eq_floor (l : α) (hl : 0 ≤ l) : ((maxK l : ℕ) : ℤ) = ⌊l * 25⌋ := by
  have h : 0 ≤ l * 25 := by positivity
  rw [maxK, pyInt_of_nonneg _ h, Int.toNat_of_nonneg (Int.floor_nonneg.mpr h)]

/-- B1. more terms are summed for wider pores -/
theorem maxK_mono : Monotone (maxK : α → ℕ) := by
  intro a b hab
  unfold maxK
  exact Int.toNat_le_toNat (pyInt_mono (by linarith))

private def cylTerm (aKs bKs : List α) (d : α) (k : ℕ) : α :=
  (1 / ((k : α) + 1) * (1 - d) ^ (2 * k)) * (aKs.getD k 0 * (21 / 32 * d ^ 10) - bKs.getD k 0 * d ^ 4)

omit [IsStrictOrderedRing α] in
/-- B2. the loop of the HK cylinder closure is the Saito-Foley series
`¾ π N_A/(RT) (n_g A_gg + n_h A_gh)/d₀⁴ · Σ_{k=0}^{K−1} 1/(k+1) (1 − d₀/L)^{2k} [21/32 α_k (d₀/L)¹⁰ − β_k (d₀/L)⁴]`
truncated after `K = int(25 L)` terms (guards: at least one term — else the code returns the `k = 0` term anyway — and `K` within the
2000 cached coefficients — beyond, the code raises `IndexError`; in the solver's bracket `L ≤ 50`, `K ≤ 1250`) -/
theorem hkCylinder_eq_series (P : Params α) (l : α) (hK : 1 ≤ maxK l) (hK' : maxK l ≤ 2000) :
    hkCylinder P l
      = 3 / 4 * P.pi * P.nOverRT * (P.nAds * P.aAds + P.nMat * P.aMat) / (P.dEff * (1 / 1000000000)) ^ 4
        * ∑ k ∈ Finset.range (maxK l),
            1 / ((k : α) + 1) * (1 - P.dEff / l) ^ (2 * k)
              * (21 / 32 * coeff (9 / 2) k * (P.dEff / l) ^ 10 - coeff (3 / 2) k * (P.dEff / l) ^ 4) := by
  have e1 : hkCylinder P l
      = 3 / 4 * P.pi * P.nOverRT * (P.nAds * P.aAds + P.nMat * P.aMat) / (P.dEff * (1 / 1000000000)) ^ 4
        * (List.range' 1 (maxK l - 1)).foldl (fun s k => s + cylTerm aKs bKs (P.dEff / l) k)
            (21 / 32 * (P.dEff / l) ^ 10 - (P.dEff / l) ^ 4) := rfl
  have e0 : 21 / 32 * (P.dEff / l) ^ 10 - (P.dEff / l) ^ 4 = cylTerm aKs bKs (P.dEff / l) 0 := by
    simp [cylTerm, aKs, bKs, cache]
  rw [e1, e0, loop_eq_sum _ _ hK]
  congr 1
  apply Finset.sum_congr rfl
  intro k hk
  have hk' : k < 2000 := lt_of_lt_of_le (Finset.mem_range.mp hk) hK'
  rw [cylTerm, aKs, bKs, cache_getD _ _ _ hk', cache_getD _ _ _ hk']
  ring

end Floor

/-! ## C. Horvath-Kawazoe sphere = Cheng-Yang equation -/

/-- C1. `t_term(x)` with the sign `(−1)^x` resolved: Cheng-Yang's `T₁ … T₄`, `s = (L − d₀)/L` -/
theorem tTerm_resolved (m l : α) :
    tTerm m l 3 = ((1 - m / l) ^ 3)⁻¹ - ((1 + m / l) ^ 3)⁻¹
    ∧ tTerm m l 2 = ((1 + m / l) ^ 2)⁻¹ - ((1 - m / l) ^ 2)⁻¹
    ∧ tTerm m l 9 = ((1 - m / l) ^ 9)⁻¹ - ((1 + m / l) ^ 9)⁻¹
    ∧ tTerm m l 8 = ((1 + m / l) ^ 8)⁻¹ - ((1 - m / l) ^ 8)⁻¹ := by
  have e3 : ((-1 : α)) ^ 3 = -1 := by norm_num
  have e2 : ((-1 : α)) ^ 2 = 1 := by norm_num
  have e9 : ((-1 : α)) ^ 9 = -1 := by norm_num
  have e8 : ((-1 : α)) ^ 8 = 1 := by norm_num
  refine ⟨?_, ?_, ?_, ?_⟩ <;> unfold tTerm
  · rw [e3, neg_one_mul, neg_div, ← sub_eq_add_neg, sub_neg_eq_add]
  · rw [e2, one_mul]
  · rw [e9, neg_one_mul, neg_div, ← sub_eq_add_neg, sub_neg_eq_add]
  · rw [e8, one_mul]

/-- C2. the HK sphere closure is the Cheng-Yang spherical-pore equation
`6 N_A/(RT) (N₁ ε₁₂ + N₂ ε₂₂) L³/(L−d₀)³ [ −(d₀/L)⁶ (T₁/12 + T₂/8) + (d₀/L)¹² (T₃/90 + T₄/80) ]`,
`N₁ = 4π L² n_h`, `N₂ = 4π (L−d₀)² n_g`, `ε₁₂ = A_gh/(4 d₀⁶)`, `ε₂₂ = A_gg/(4 d_g⁶)` (lengths in metres).
Same division structure on both sides, so no guard is needed (at `L = d₀` both sides are the totalised `x/0`). -/
theorem hkSphere_eq_published (P : Params α) (l : α) :
    hkSphere P l
      = 6 * P.nOverRT
          * (4 * P.pi * (l * (1 / 1000000000)) ^ 2 * P.nMat * (P.aMat / (4 * (P.dEff * (1 / 1000000000)) ^ 6))
              + 4 * P.pi * ((l - P.dEff) * (1 / 1000000000)) ^ 2 * P.nAds * (P.aAds / (4 * (P.dAds * (1 / 1000000000)) ^ 6)))
          * (l / (l - P.dEff)) ^ 3
          * (-(P.dEff / l) ^ 6
                * ((((1 - (l - P.dEff) / l) ^ 3)⁻¹ - ((1 + (l - P.dEff) / l) ^ 3)⁻¹) / 12
                    + (((1 + (l - P.dEff) / l) ^ 2)⁻¹ - ((1 - (l - P.dEff) / l) ^ 2)⁻¹) / 8)
              + (P.dEff / l) ^ 12
                * ((((1 - (l - P.dEff) / l) ^ 9)⁻¹ - ((1 + (l - P.dEff) / l) ^ 9)⁻¹) / 90
                    + (((1 + (l - P.dEff) / l) ^ 8)⁻¹ - ((1 - (l - P.dEff) / l) ^ 8)⁻¹) / 80)) := by
  obtain ⟨h3, h2, h9, h8⟩ := tTerm_resolved (l - P.dEff) l
  unfold hkSphere
  simp only [h3, h2, h9, h8, nano]
  ring

/-- C3. in Cheng-Yang's terms `1 − (L−d₀)/L = d₀/L` (guard `L ≠ 0`) -/
theorem one_sub_s (d l : α) (hl : l ≠ 0) : 1 - (l - d) / l = d / l := by field_simp; ring

/-! ## D. Rege-Yang slit -/

/-- the adsorbate-adsorbate layer potential `ε_gg = n_g A_gg/(2 σ_g⁴) [(σ_g/d_g)¹⁰ − (σ_g/d_g)⁴]`, lengths in metres -/
theorem rySlitAdsorbate_eq (P : Params α) :
    rySlitAdsorbate P
      = P.nAds * P.aAds / (2 * (sigmaFactor * P.dAds * (1 / 1000000000)) ^ 4)
        * ((sigmaFactor * P.dAds / P.dAds) ^ 10 - (sigmaFactor * P.dAds / P.dAds) ^ 4) := by
  unfold rySlitAdsorbate nano
  simp only [div_div]
  ring

/-- `σ/d = 0.8583742` (guard `d ≠ 0`) -/
theorem sigma_over_d (d : α) (hd : d ≠ 0) : sigmaFactor * d / d = (4291871 / 5000000 : α) := by
  rw [mul_div_assoc, div_self hd, mul_one]; rfl

section Ordered
variable [LinearOrder α]

/-- D1. fewer than two layers (`(L − d_h)/d_g < 2`): the molecule sees both walls,
`ε_hgh = n_h A_gh/(2σ⁴) [(σ/d₀)¹⁰ − (σ/d₀)⁴ + (σ/(L−d₀))¹⁰ − (σ/(L−d₀))⁴]`, times `N_A/(RT)` -/
theorem rySlit_small (P : Params α) (l : α) (h : (l - P.dMat) / P.dAds < 2) :
    rySlit P l
      = P.nOverRT * (P.nMat * P.aMat / (2 * (sigmaFactor * P.dEff * (1 / 1000000000)) ^ 4)
          * ((sigmaFactor * P.dEff / P.dEff) ^ 10 - (sigmaFactor * P.dEff / P.dEff) ^ 4
              + (sigmaFactor * P.dEff / (l - P.dEff)) ^ 10 - (sigmaFactor * P.dEff / (l - P.dEff)) ^ 4)) := by
  unfold rySlit
  simp only [h, if_true]
  unfold rySlitTwoSurface nano
  simp only [div_div]

/-- D2. two or more layers, `M = (L − d_h)/d_g ≥ 2`: `[2 ε_hgg + (M − 2) ε_ggg]/M` with `ε_hgg = ε_hg + ε_gg`, `ε_ggg = 2 ε_gg` -/
theorem rySlit_large (P : Params α) (l : α) (h : 2 ≤ (l - P.dMat) / P.dAds) :
    rySlit P l
      = P.nOverRT *
          ((2 * (P.nMat * P.aMat / (2 * (sigmaFactor * P.dEff * (1 / 1000000000)) ^ 4)
                  * ((sigmaFactor * P.dEff / P.dEff) ^ 10 - (sigmaFactor * P.dEff / P.dEff) ^ 4) + rySlitAdsorbate P)
              + ((l - P.dMat) / P.dAds - 2) * (2 * rySlitAdsorbate P)) / ((l - P.dMat) / P.dAds)) := by
  unfold rySlit
  simp only [not_lt.mpr h, if_false]
  unfold rySlitAverage rySlitOneSurface nano
  simp only [div_div]
  ring

/-- D3. at exactly two layers (`L = d_h + 2 d_g`) the second regime gives `ε_hgg`; the first regime tends to `ε_hgh(L)` from below,
so the potential jumps by `N_A/(RT)·(ε_hgg − ε_hgh(d_h + 2 d_g))` (guard `d_g ≠ 0`) -/
theorem rySlit_at_two [IsStrictOrderedRing α] (P : Params α) (hd : P.dAds ≠ 0) :
    rySlit P (P.dMat + 2 * P.dAds) = P.nOverRT * rySlitOneSurface P := by
  have e : (P.dMat + 2 * P.dAds - P.dMat) / P.dAds = 2 := by field_simp; ring
  unfold rySlit
  simp only [e, lt_irrefl, if_false]
  unfold rySlitAverage
  rw [sub_self, zero_mul, zero_mul, add_zero, mul_div_assoc, mul_div_cancel₀ _ (two_ne_zero)]

end Ordered

/-! ## E. Rege-Yang cylinder and sphere -/

/-- E1. spherical `potential_general` is the published layer potential
`2 N ε* [ a¹²/(10 b) (1/(1−b)¹⁰ − 1/(1+b)¹⁰) − a⁶/(4 b) (1/(1−b)⁴ − 1/(1+b)⁴) ]` with `b = 1 − a` -/
theorem rySphGeneral_eq_published (n e a : α) :
    rySphGeneral n e a
      = 2 * n * e * (a ^ 12 / (10 * (1 - a)) * (((1 - (1 - a)) ^ 10)⁻¹ - ((1 + (1 - a)) ^ 10)⁻¹)
          - a ^ 6 / (4 * (1 - a)) * (((1 - (1 - a)) ^ 4)⁻¹ - ((1 + (1 - a)) ^ 4)⁻¹)) := by
  unfold rySphGeneral
  ring

/-- E1. `1 − b = a`: the inner terms are `1/a¹⁰ − 1/(2−a)¹⁰`, `1/a⁴ − 1/(2−a)⁴` -/
theorem rySphGeneral_eq_published' (n e a : α) :
    rySphGeneral n e a
      = 2 * n * e * (a ^ 12 / (10 * (1 - a)) * ((a ^ 10)⁻¹ - ((2 - a) ^ 10)⁻¹)
          - a ^ 6 / (4 * (1 - a)) * ((a ^ 4)⁻¹ - ((2 - a) ^ 4)⁻¹)) := by
  rw [rySphGeneral_eq_published, show 1 - (1 - a) = a by ring, show 1 + (1 - a) = 2 - a by ring]

/-- E2. `a_k_sum` / `b_k_sum`: `1 + Σ_{k=1}^{K−1} c_k b^{2k} = Σ_{k<K} c_k b^{2k}` over a cache whose entry 0 is 1 (guard `K ≥ 1`; for `K = 0` the code returns 1) -/
theorem kSeries_eq_sum (ks : List α) (b : α) (K : ℕ) (hK : 1 ≤ K) (h0 : ks.getD 0 0 = 1) :
    kSeries ks b K = ∑ k ∈ Finset.range K, ks.getD k 0 * b ^ (2 * k) := by
  have e : kSeries ks b K
      = (List.range' 1 (K - 1)).foldl (fun s k => s + ks.getD k 0 * b ^ (2 * k)) (ks.getD 0 0 * b ^ (2 * 0)) := by
    rw [h0]; simp [kSeries]
  rw [e, loop_eq_sum (fun k => ks.getD k 0 * b ^ (2 * k)) K hK]

section Floor
variable [LinearOrder α] [FloorRing α]

theorem ryMaxK_le (l : α) : ryMaxK l ≤ 2000 := by
  unfold ryMaxK; split_ifs with h <;> omega

/-- E2. cylindrical `potential_general` is the published layer potential
`¾ π n A/d⁴ [21/32 a¹⁰ Σ_{k<K} α_k b^{2k} − a⁴ Σ_{k<K} β_k b^{2k}]`, `b = 1 − a`, truncated after `K = min(int(25 L), 2000)` terms -/
theorem ryCylGeneral_eq_series (pi l d n A a : α) (hK : 1 ≤ ryMaxK l) :
    ryCylGeneral aKs bKs pi l d n A a
      = 3 / 4 * pi * n * A / (d * (1 / 1000000000)) ^ 4
        * (21 / 32 * a ^ 10 * ∑ k ∈ Finset.range (ryMaxK l), coeff (9 / 2) k * (1 - a) ^ (2 * k)
            - a ^ 4 * ∑ k ∈ Finset.range (ryMaxK l), coeff (3 / 2) k * (1 - a) ^ (2 * k)) := by
  have hc : ∀ c : α, ∑ k ∈ Finset.range (ryMaxK l), (cache c 2000).getD k 0 * (1 - a) ^ (2 * k)
      = ∑ k ∈ Finset.range (ryMaxK l), coeff c k * (1 - a) ^ (2 * k) := by
    intro c
    apply Finset.sum_congr rfl
    intro k hk
    rw [cache_getD _ _ _ (lt_of_lt_of_le (Finset.mem_range.mp hk) (ryMaxK_le l))]
  unfold ryCylGeneral
  simp only [nano]
  rw [kSeries_eq_sum _ _ _ hK (by simp [aKs, cache]), kSeries_eq_sum _ _ _ hK (by simp [bKs, cache]), aKs, bKs, hc, hc]

variable [IsStrictOrderedRing α]

/-- E3. the layer count is the number of concentric layers that fit: for `L ≥ d₀` there is at least one layer, and the innermost
(last) layer has a width in `[0, 2 d_g)` — a further layer would need `2 d_g` more (guards `0 < d_g`, `d₀ ≤ L`) -/
theorem ryLayers_spec (P : Params α) (l : α) (hd : 0 < P.dAds) (hl : P.dEff ≤ l) :
    1 ≤ ryLayers P l ∧ 0 ≤ ryWidth P l (ryLayers P l).toNat ∧ ryWidth P l (ryLayers P l).toNat < 2 * P.dAds := by
  set x : α := ((2 * l - P.dMat) / P.dAds - 1) / 2 with hx
  have hx0 : 0 ≤ x := by
    rw [hx]
    apply div_nonneg _ (by norm_num)
    rw [sub_nonneg, le_div_iff₀ hd]
    unfold Params.dEff at hl
    rw [div_le_iff₀ (by norm_num : (0 : α) < 2)] at hl
    linarith
  have hfl : ryLayers P l = ⌊x⌋ + 1 := by rw [ryLayers, pyInt_of_nonneg _ hx0]
  have hf0 : 0 ≤ ⌊x⌋ := Int.floor_nonneg.mpr hx0
  have hcast : (((ryLayers P l).toNat : ℕ) : α) = (⌊x⌋ : α) + 1 := by
    rw [← Int.cast_natCast, Int.toNat_of_nonneg (by omega), hfl]; push_cast; ring
  have hw : ryWidth P l (ryLayers P l).toNat = 2 * P.dAds * (x - ⌊x⌋) := by
    rw [ryWidth, hcast, hx]
    unfold Params.dEff
    field_simp
    ring
  refine ⟨by omega, ?_, ?_⟩
  · rw [hw]
    have := Int.floor_le x
    exact mul_nonneg (by linarith) (by linarith)
  · rw [hw]
    have := Int.lt_floor_add_one x
    have h2 : 0 < 2 * P.dAds := by linarith
    calc 2 * P.dAds * (x - ⌊x⌋) < 2 * P.dAds * 1 := mul_lt_mul_of_pos_left (by linarith) h2
      _ = 2 * P.dAds := mul_one _

omit [FloorRing α] in
/-- E4. a population-weighted mean lies between any bounds of the layer potentials
(guards: as many potentials as populations, non-negative populations) -/
theorem wsum_bounds (lo hi : α) : ∀ (pops pots : List α), pops.length = pots.length → (∀ p ∈ pops, 0 ≤ p) →
    (∀ e ∈ pots, lo ≤ e ∧ e ≤ hi) → lo * pops.sum ≤ wsum pops pots ∧ wsum pops pots ≤ hi * pops.sum
  | [], [], _, _, _ => by simp [wsum]
  | [], _ :: _, h, _, _ => by simp at h
  | _ :: _, [], h, _, _ => by simp at h
  | p :: pops, e :: pots, h, hp, he => by
    have ih := wsum_bounds lo hi pops pots (by simpa using h) (fun q hq => hp q (by simp [hq]))
      (fun q hq => he q (by simp [hq]))
    have hp0 := hp p (by simp)
    obtain ⟨h1, h2⟩ := he e (by simp)
    have e1 : wsum (p :: pops) (e :: pots) = p * e + wsum pops pots := by simp [wsum]
    rw [e1, List.sum_cons]
    unfold wsum at ih ⊢
    constructor <;> nlinarith [mul_le_mul_of_nonneg_left h1 hp0, mul_le_mul_of_nonneg_left h2 hp0]

omit [FloorRing α] in
/-- E4. `N_A/(RT) · Σ nᵢ εᵢ / Σ nᵢ` lies between `N_A/(RT)` times the smallest and the largest layer potential
(guards: positive populations, at least one layer — so `Σ nᵢ > 0`, no `0/0` —, `N_A/(RT) ≥ 0`) -/
theorem weighted_between (nrt lo hi : α) (pops pots : List α) (hlen : pops.length = pots.length) (hne : pops ≠ [])
    (hp : ∀ p ∈ pops, 0 < p) (he : ∀ e ∈ pots, lo ≤ e ∧ e ≤ hi) (hn : 0 ≤ nrt) :
    nrt * lo ≤ weighted nrt pops pots ∧ weighted nrt pops pots ≤ nrt * hi := by
  have hS : 0 < pops.sum := List.sum_pos _ hp hne
  obtain ⟨h1, h2⟩ := wsum_bounds lo hi pops pots hlen (fun p h => (hp p h).le) he
  unfold weighted
  rw [mul_div_assoc]
  constructor
  · exact mul_le_mul_of_nonneg_left ((le_div_iff₀ hS).mpr h1) hn
  · exact mul_le_mul_of_nonneg_left ((div_le_iff₀ hS).mpr h2) hn

omit [FloorRing α] in
/-- E4. if all layers have the same potential the average is that potential (no matter the populations, as long as their sum is not 0) -/
theorem weighted_const (nrt e : α) (pops pots : List α) (hlen : pops.length = pots.length) (hne : pops ≠ [])
    (hp : ∀ p ∈ pops, 0 < p) (he : ∀ x ∈ pots, x = e) : weighted nrt pops pots = nrt * e := by
  obtain ⟨h1, h2⟩ := weighted_between 1 e e pops pots hlen hne hp (fun x hx => by rw [he x hx]; exact ⟨le_rfl, le_rfl⟩)
    zero_le_one
  have h : weighted 1 pops pots = e := le_antisymm (by simpa using h2) (by simpa using h1)
  unfold weighted at h ⊢
  rw [mul_div_assoc, ← h, one_mul]

omit [IsStrictOrderedRing α] in
/-- E5. one population and one potential per layer -/
theorem ry_lengths (P : Params α) (asinPops : List α) (l : α) :
    (ryCylPops P asinPops l).length = (ryLayers P l).toNat ∧ (ryCylPots aKs bKs P l).length = (ryLayers P l).toNat
    ∧ (rySphPops P l).length = (ryLayers P l).toNat
    ∧ (1 ≤ (ryLayers P l).toNat → (rySphPots P l).length = (ryLayers P l).toNat) := by
  refine ⟨by simp [ryCylPops], by simp [ryCylPots], by simp [rySphPops], fun h => ?_⟩
  simp only [rySphPots, List.length_cons, List.length_zipWith, List.length_range', rySphPops, List.length_map]
  omega

omit [IsStrictOrderedRing α] in
/-- E6. cylinder: with `π/asin(·) > 0` supplied for every layer that uses it, all populations are positive and, for `L ≥ d₀`, their
sum is positive: the average is never `0/0` -/
theorem ryCylPops_pos (P : Params α) (asinPops : List α) (l : α)
    (h : ∀ layer : ℕ, P.dAds ≤ ryWidth P l layer → 0 < asinPops.getD (layer - 1) 0) :
    ∀ p ∈ ryCylPops P asinPops l, 0 < p := by
  intro p hp
  simp only [ryCylPops, List.mem_map] at hp
  obtain ⟨layer, -, rfl⟩ := hp
  split_ifs with hw
  · exact h layer hw
  · exact zero_lt_one

theorem ryCylinder_between (P : Params α) (asinPops : List α) (l lo hi : α) (hd : 0 < P.dAds) (hl : P.dEff ≤ l) (hn : 0 ≤ P.nOverRT)
    (h : ∀ layer : ℕ, P.dAds ≤ ryWidth P l layer → 0 < asinPops.getD (layer - 1) 0)
    (he : ∀ e ∈ ryCylPots aKs bKs P l, lo ≤ e ∧ e ≤ hi) :
    P.nOverRT * lo ≤ ryCylinder P asinPops l ∧ ryCylinder P asinPops l ≤ P.nOverRT * hi := by
  obtain ⟨h1, -, -⟩ := ryLayers_spec P l hd hl
  obtain ⟨l1, l2, -, -⟩ := ry_lengths P asinPops l
  refine weighted_between _ lo hi _ _ (by rw [l1, l2]) ?_ (ryCylPops_pos P asinPops l h) he hn
  intro h0
  rw [h0] at l1
  simp at l1
  omega

/-- E6. sphere: for `L > d₀` the first population `4π (L−d₀)² n_g` is positive and the others are non-negative: `Σ Nᵢ > 0`
(guards `0 < π`, `0 < n_g`, `0 < d_g`, `d₀ < L`) -/
theorem rySphPops_sum_pos (P : Params α) (l : α) (hpi : 0 < P.pi) (hn : 0 < P.nAds) (hd : 0 < P.dAds) (hl : P.dEff < l) :
    0 < (rySphPops P l).sum := by
  obtain ⟨h1, -, -⟩ := ryLayers_spec P l hd hl.le
  obtain ⟨n, hn'⟩ : ∃ n, (ryLayers P l).toNat = n + 1 := ⟨(ryLayers P l).toNat - 1, by omega⟩
  unfold rySphPops
  rw [hn', List.range'_succ, List.map_cons, List.sum_cons]
  apply add_pos_of_pos_of_nonneg
  · have : 0 < l - P.dEff := by linarith
    simp only [Nat.cast_one, sub_self, zero_mul, sub_zero, nano]
    positivity
  · apply List.sum_nonneg
    intro x hx
    simp only [List.mem_map] at hx
    obtain ⟨layer, -, rfl⟩ := hx
    have := sq_nonneg ((l - P.dEff - ((layer : α) - 1) * P.dAds) * nano)
    have h4 : 0 ≤ 4 * P.pi := by positivity
    exact mul_nonneg (mul_nonneg h4 this) hn.le

end Floor

section Floor
variable [LinearOrder α] [FloorRing α] [IsStrictOrderedRing α]

/-- E6. the Rege-Yang sphere potential lies between `N_A/(RT)` times the smallest and largest layer potential, where every layer
population is positive (i.e. away from the widths at which a new layer of zero radius appears) -/
theorem rySphere_between (P : Params α) (l lo hi : α) (hd : 0 < P.dAds) (hl : P.dEff ≤ l) (hn : 0 ≤ P.nOverRT)
    (hp : ∀ p ∈ rySphPops P l, 0 < p) (he : ∀ e ∈ rySphPots P l, lo ≤ e ∧ e ≤ hi) :
    P.nOverRT * lo ≤ rySphere P l ∧ rySphere P l ≤ P.nOverRT * hi := by
  obtain ⟨h1, -, -⟩ := ryLayers_spec P l hd hl
  obtain ⟨-, -, l3, l4⟩ := ry_lengths P [] l
  have hn1 : 1 ≤ (ryLayers P l).toNat := by omega
  refine weighted_between _ lo hi _ _ (by rw [l3, l4 hn1]) ?_ hp he hn
  intro h0
  rw [h0] at l3
  simp at l3
  omega

end Floor

/-- E7. the transcendental input of the cylinder model: where the code uses it (`0 < d_g ≤ width`) the population
`π / asin(d_g/width)` is at least 2 (two molecules fit across), in particular positive — the hypothesis of `ryCylPops_pos` holds
for the real populations -/
theorem asin_population_ge_two (d w : ℝ) (hd : 0 < d) (hw : d ≤ w) : 2 ≤ Real.pi / Real.arcsin (d / w) := by
  have hpos : 0 < Real.arcsin (d / w) := Real.arcsin_pos.mpr (div_pos hd (hd.trans_le hw))
  rw [le_div_iff₀ hpos]
  have := Real.arcsin_le_pi_div_two (d / w)
  linarith

/-! ## F. non-vacuity (tests, not properties) -/

/-- `a_1 = (−5.5)² = 121/4`, `b_1 = (−2.5)² = 25/4`, `a_2 = (−6.5/2)² a_1` -/
example : coeff (9 / 2 : ℚ) 1 = 121 / 4 ∧ coeff (3 / 2 : ℚ) 1 = 25 / 4 ∧ coeff (9 / 2 : ℚ) 2 = 20449 / 64 := by
  norm_num [coeff]
example : (cache (9 / 2 : ℚ) 5).getD 2 0 = 20449 / 64 ∧ (cache (9 / 2 : ℚ) 5).length = 5 := by decide +kernel
example : pyInt (7 / 2 : ℚ) = 3 ∧ pyInt (-7 / 2 : ℚ) = -3 ∧ pyInt (-1 / 2 : ℚ) = 0 := by decide +kernel
/-- the guards of `hkCylinder_eq_series` at `L = 1 nm`: 25 terms -/
example : maxK (1 : ℚ) = 25 ∧ 1 ≤ maxK (1 : ℚ) ∧ maxK (1 : ℚ) ≤ 2000 := by decide +kernel
example : maxK (50 : ℚ) = 1250 := by decide +kernel

/-- a nitrogen-on-carbon-like parameter set (π ≈ 355/113, unit prefactors) -/
def exampleParams : Params ℚ := ⟨355 / 113, 1, 1, 1, 1, 1, 3 / 10, 17 / 50⟩

example : exampleParams.dEff = 8 / 25 := by decide +kernel
example : ryLayers exampleParams 1 = 3 ∧ ryLayers exampleParams (8 / 25) = 1 := by decide +kernel
/-- the last of the three layers at `L = 1` has width 0.16 ∈ [0, 0.6) -/
example : ryWidth exampleParams 1 3 = 4 / 25 := by decide +kernel
example : weighted (1 : ℚ) [1, 3] [2, 6] = 5 := by decide +kernel
example : hkSphere exampleParams 1 < 0 := by decide +kernel
example : rySphere exampleParams 1 < 0 := by decide +kernel

/-- the guards of `ryLayers_spec`, `weighted_between`, `rySphPops_sum_pos`, `hkCylinder_eq_series`, `coeff_pos` are satisfiable -/
example : 1 ≤ ryLayers exampleParams 1 ∧ 0 ≤ ryWidth exampleParams 1 (ryLayers exampleParams 1).toNat
    ∧ ryWidth exampleParams 1 (ryLayers exampleParams 1).toNat < 2 * exampleParams.dAds :=
  ryLayers_spec exampleParams 1 (by decide +kernel) (by decide +kernel)
example : (1 : ℚ) * 2 ≤ weighted 1 [1, 3] [2, 6] ∧ weighted (1 : ℚ) [1, 3] [2, 6] ≤ 1 * 6 :=
  weighted_between 1 2 6 [1, 3] [2, 6] rfl (by simp) (by decide +kernel) (by decide +kernel) (by norm_num)
example : 0 < (rySphPops exampleParams 1).sum :=
  rySphPops_sum_pos exampleParams 1 (by decide +kernel) (by decide +kernel) (by decide +kernel) (by decide +kernel)
example : ∃ v : ℚ, hkCylinder exampleParams 1 = v ∧ v < 0 :=
  ⟨_, hkCylinder_eq_series exampleParams 1 (by decide +kernel) (by decide +kernel), by
    rw [← hkCylinder_eq_series exampleParams 1 (by decide +kernel) (by decide +kernel)]; decide +kernel⟩
example : 0 < coeff (9 / 2 : ℚ) 7 := coeff_pos _ (by norm_num) 7
example : (2 : ℝ) ≤ Real.pi / Real.arcsin ((3 / 10) / (1 / 2)) := asin_population_ge_two _ _ (by norm_num) (by norm_num)

/-- D3 made concrete: the Rege-Yang slit potential is NOT continuous where the second layer appears: at `L = d_h + 2 d_g` the
one-layer expression (continuous in `L`, the limit from below) and the value differ -/
theorem rySlit_jump_exists :
    ∃ P : Params ℚ, 0 < P.dAds ∧ 0 < P.dMat ∧ 0 < P.nOverRT ∧ 0 < P.nAds * P.aAds ∧ 0 < P.nMat * P.aMat
      ∧ P.nOverRT * rySlitTwoSurface P (P.dMat + 2 * P.dAds) ≠ rySlit P (P.dMat + 2 * P.dAds) :=
  ⟨exampleParams, by decide +kernel⟩

end PgVerif.C17
