/-
C07 — CSV, Excel and AIF round trips preserve the isotherm: the part that is pyGAPS's own logic.

Statements are about the executable model `PgVerif.Model.TextCodec`: `castString` (= `cast_string`, the reader of every metadata
value in the three text formats) and the CSV metadata line codec `encodeLine`/`decodeLine`.
  * the decision table of `castString`, one theorem per class with the exact guard in Python's order, and `cast_total`;
  * what `str()` writes for `None`, booleans and non-negative integers is read back in the same class;
    a NEGATIVE integer is read back as a float (finding S18 negint) — proved for every negative integer;
  * out-of-domain witnesses;
  * the line codec: exact characterisation of the accepted lines, round trip on the domain, refusal of a value containing the separator.
-/
import Mathlib.Tactic
import PgVerif.Model.TextCodec

namespace PgVerif.C07
open PgVerif.Model.TextCodec

/-! ### helper facts -/

lemma isDigitC_eq (c : Char) : isDigitC c = c.isDigit := by
  simp [isDigitC, Char.isDigit, Char.le_def]

/-- a digit is none of the finitely many other characters the recognisers look for -/
private lemma digit_ne {c d : Char} (hc : isDigitC c = true) (hd : isDigitC d = false) : c ≠ d := by
  intro h; rw [h, hd] at hc; exact Bool.false_ne_true hc

private lemma digit_lower {c : Char} (hc : isDigitC c = true) : lowerC c = c := by
  unfold lowerC
  rw [if_neg]
  rintro ⟨h1, -⟩
  simp only [isDigitC, Bool.and_eq_true, decide_eq_true_eq] at hc
  exact absurd (Char.le_trans h1 hc.2) (by decide)

private lemma digit_not_space {c : Char} (hc : isDigitC c = true) : isSpaceC c = false := by
  by_contra h
  rw [Bool.not_eq_false] at h
  simp only [isSpaceC, Bool.or_eq_true, beq_iff_eq] at h
  rcases h with ((((h | h) | h) | h) | h) | h <;> exact digit_ne hc (by decide) h

/-- a non-empty string of digits -/
def Digits (s : Str) : Prop := s ≠ [] ∧ ∀ c ∈ s, isDigitC c = true

private lemma digits_lower {s : Str} (h : ∀ c ∈ s, isDigitC c = true) : lower s = s := by
  unfold lower
  conv_rhs => rw [← List.map_id s]
  exact List.map_congr_left (fun c hc => digit_lower (h c hc))

private lemma digits_numeric {s : Str} (h : Digits s) : isNumeric s = true := by
  unfold isNumeric
  rw [Bool.and_eq_true, Bool.not_eq_true', List.isEmpty_eq_false_iff, List.all_eq_true]
  exact ⟨h.1, h.2⟩

private lemma digits_ne_word {s : Str} (h : Digits s) (w : Str) (hw : ∀ c, w.head? = some c → isDigitC c = false) :
    (lower s == w) = false := by
  rw [digits_lower h.2, beq_eq_false_iff_ne]
  intro e
  obtain ⟨hne, hall⟩ := h
  cases s with
  | nil => exact hne rfl
  | cons c t =>
    have := hw c (by rw [← e]; rfl)
    rw [hall c (by simp)] at this
    exact Bool.noConfusion this

private lemma digits_not_none {s : Str} (h : Digits s) : isNone s = false := by
  unfold isNone
  rw [Bool.or_eq_false_iff, List.isEmpty_eq_false_iff]
  exact ⟨h.1, digits_ne_word h _ (by decide)⟩

private lemma digits_not_bool {s : Str} (h : Digits s) : isBool s = false := by
  unfold isBool
  rw [Bool.or_eq_false_iff]
  exact ⟨digits_ne_word h _ (by decide), digits_ne_word h _ (by decide)⟩

private lemma digitsU_cons (c : Char) (t : Str) (hc : isDigitC c = true) (ht : ∀ x ∈ t, isDigitC x = true) :
    digitsU (c :: t) = true := by
  induction t generalizing c with
  | nil => rw [digitsU.eq_2]; exact hc
  | cons d t ih =>
    have hd : isDigitC d = true := ht d (by simp)
    have hne : d ≠ '_' := digit_ne hd (by decide)
    have := ih d hd (fun x hx => ht x (by simp [hx]))
    rw [digitsU.eq_4 c d t (fun _ _ h _ => hne h), hc, this]
    rfl

private lemma digits_digitsU {s : Str} (h : Digits s) : digitsU s = true := by
  obtain ⟨hne, hall⟩ := h
  cases s with
  | nil => exact absurd rfl hne
  | cons c t => exact digitsU_cons c t (hall c (by simp)) (fun x hx => hall x (by simp [hx]))

private lemma splitAt1_none (p : Char → Bool) (s : Str) (h : ∀ c ∈ s, p c = false) : splitAt1 p s = none := by
  induction s with
  | nil => rfl
  | cons c t ih =>
    unfold splitAt1
    rw [h c (by simp), ih (fun x hx => h x (by simp [hx]))]
    rfl

private lemma stripL_self (s : Str) (h : ∀ c, s.head? = some c → isSpaceC c = false) : stripL s = s := by
  cases s with
  | nil => rfl
  | cons c t =>
    unfold stripL
    rw [h c rfl]
    rfl

/-- `strip` leaves alone a text with no blank at either end -/
lemma strip_self (s : Str) (h1 : ∀ c, s.head? = some c → isSpaceC c = false)
    (h2 : ∀ c, s.getLast? = some c → isSpaceC c = false) : strip s = s := by
  unfold strip
  rw [stripL_self s h1, stripL_self s.reverse (by rw [List.head?_reverse]; exact h2), List.reverse_reverse]

private lemma stripL_length_le (s : Str) : (stripL s).length ≤ s.length := by
  induction s with
  | nil => exact le_rfl
  | cons c t ih =>
    unfold stripL
    split_ifs
    · exact le_trans ih (Nat.le_succ _)
    · exact le_rfl

private lemma stripL_length_lt (c : Char) (t : Str) (hc : isSpaceC c = true) : (stripL (c :: t)).length < (c :: t).length := by
  unfold stripL
  rw [if_pos hc]
  exact Nat.lt_succ_of_le (stripL_length_le t)

private lemma strip_length_le (s : Str) : (strip s).length ≤ (stripL s).length := by
  unfold strip
  rw [List.length_reverse]
  exact le_trans (stripL_length_le _) (by rw [List.length_reverse])

/-- converse of `strip_self`: a text that `strip` leaves alone has no blank at either end -/
lemma strip_fixed (s : Str) (h : strip s = s) :
    (∀ c, s.head? = some c → isSpaceC c = false) ∧ (∀ c, s.getLast? = some c → isSpaceC c = false) := by
  have hhead : ∀ c, s.head? = some c → isSpaceC c = false := by
    intro c hc
    by_contra hsp
    rw [Bool.not_eq_false] at hsp
    cases s with
    | nil => simp at hc
    | cons d t =>
      simp only [List.head?_cons, Option.some.injEq] at hc
      subst hc
      have h1 := strip_length_le (d :: t)
      have h2 := stripL_length_lt d t hsp
      rw [h] at h1
      omega
  refine ⟨hhead, ?_⟩
  intro c hc
  by_contra hsp
  rw [Bool.not_eq_false] at hsp
  have hrev : s.reverse.head? = some c := by rw [List.head?_reverse]; exact hc
  unfold strip at h
  rw [stripL_self s hhead] at h
  cases hr : s.reverse with
  | nil => rw [hr] at hrev; simp at hrev
  | cons d t =>
    rw [hr] at hrev h
    simp only [List.head?_cons, Option.some.injEq] at hrev
    subst hrev
    have h2 := stripL_length_lt d t hsp
    have h3 := congrArg List.length h
    rw [List.length_reverse] at h3
    have h4 : s.length = (d :: t).length := by rw [← hr, List.length_reverse]
    omega

/-- key and value both non-empty and without blanks at their ends: so is the line -/
lemma strip_line (sep : Char) (k v : Str) (hk : k ≠ []) (hv : v ≠ []) (hsk : strip k = k) (hsv : strip v = v) :
    strip (k ++ [sep] ++ v) = k ++ [sep] ++ v := by
  apply strip_self
  · intro c hc
    cases k with
    | nil => exact absurd rfl hk
    | cons d t => exact (strip_fixed _ hsk).1 c (by simpa using hc)
  · intro c hc
    rw [List.getLast?_append_of_ne_nil _ hv] at hc
    exact (strip_fixed _ hsv).2 c hc

private lemma splitOn_exists (sep : Char) (s : Str) : ∃ h r, splitOn sep s = h :: r := by
  induction s with
  | nil => exact ⟨[], [], rfl⟩
  | cons c t ih =>
    obtain ⟨h, r, e⟩ := ih
    by_cases hc : c = sep
    · exact ⟨[], h :: r, by simp only [splitOn, e, hc, beq_self_eq_true, if_true]⟩
    · exact ⟨c :: h, r, by simp only [splitOn, e, beq_iff_eq, hc, if_false]⟩

private lemma splitOn_cons_sep (sep : Char) (t : Str) : splitOn sep (sep :: t) = [] :: splitOn sep t := by
  obtain ⟨h, r, e⟩ := splitOn_exists sep t
  simp only [splitOn, e, beq_self_eq_true, if_true]

private lemma splitOn_cons_ne (sep c : Char) (t : Str) (hc : c ≠ sep) (h : Str) (r : List Str)
    (e : splitOn sep t = h :: r) : splitOn sep (c :: t) = (c :: h) :: r := by
  simp only [splitOn, e, beq_iff_eq, hc, if_false]

/-- number of fields = number of separators + 1 -/
lemma splitOn_length (sep : Char) (s : Str) : (splitOn sep s).length = s.count sep + 1 := by
  induction s with
  | nil => rfl
  | cons c t ih =>
    by_cases hc : c = sep
    · subst hc
      rw [splitOn_cons_sep, List.length_cons, ih, List.count_cons_self]
    · obtain ⟨h, r, e⟩ := splitOn_exists sep t
      rw [splitOn_cons_ne sep c t hc h r e, List.count_cons_of_ne hc, ← ih, e]
      rfl

/-- a text without separator is one field -/
lemma splitOn_nosep (sep : Char) (a : Str) (h : sep ∉ a) : splitOn sep a = [a] := by
  induction a with
  | nil => rfl
  | cons c t ih =>
    have hc : c ≠ sep := fun e => h (by simp [e])
    exact splitOn_cons_ne sep c t hc t [] (ih (fun hm => h (by simp [hm])))

/-- the first separator ends the first field -/
lemma splitOn_append (sep : Char) (a b : Str) (h : sep ∉ a) : splitOn sep (a ++ sep :: b) = a :: splitOn sep b := by
  induction a with
  | nil => exact splitOn_cons_sep sep b
  | cons c t ih =>
    have hc : c ≠ sep := fun e => h (by simp [e])
    exact splitOn_cons_ne sep c _ hc t _ (ih (fun hm => h (by simp [hm])))

lemma splitOn_pair (sep : Char) (a b : Str) (ha : sep ∉ a) (hb : sep ∉ b) : splitOn sep (a ++ [sep] ++ b) = [a, b] := by
  rw [List.append_assoc, List.singleton_append, splitOn_append sep a b ha, splitOn_nosep sep b hb]

private lemma splitOn_single_inv (sep : Char) (s b : Str) (h : splitOn sep s = [b]) : s = b ∧ sep ∉ b := by
  induction s generalizing b with
  | nil =>
    simp only [splitOn, List.cons.injEq, and_true] at h
    subst h; simp
  | cons c t ih =>
    by_cases hc : c = sep
    · subst hc
      rw [splitOn_cons_sep] at h
      obtain ⟨h', r, e⟩ := splitOn_exists c t
      rw [e] at h
      simp at h
    · obtain ⟨h', r, e⟩ := splitOn_exists sep t
      rw [splitOn_cons_ne sep c t hc h' r e, List.cons.injEq] at h
      obtain ⟨rfl, rfl⟩ := h
      obtain ⟨rfl, hn⟩ := ih h' e
      refine ⟨rfl, ?_⟩
      intro hm
      rcases List.mem_cons.1 hm with e | hm
      · exact hc e.symm
      · exact hn hm

/-- exactly two fields iff exactly one separator, and then the fields are what is left and right of it -/
lemma splitOn_pair_iff (sep : Char) (s a b : Str) : splitOn sep s = [a, b] ↔ s = a ++ [sep] ++ b ∧ sep ∉ a ∧ sep ∉ b := by
  constructor
  · intro h
    induction s generalizing a with
    | nil => simp [splitOn] at h
    | cons c t ih =>
      by_cases hc : c = sep
      · subst hc
        rw [splitOn_cons_sep, List.cons.injEq] at h
        obtain ⟨rfl, h⟩ := h
        obtain ⟨rfl, hn⟩ := splitOn_single_inv c t b h
        exact ⟨rfl, by simp, hn⟩
      · obtain ⟨h', r, e⟩ := splitOn_exists sep t
        rw [splitOn_cons_ne sep c t hc h' r e, List.cons.injEq] at h
        obtain ⟨rfl, rfl⟩ := h
        obtain ⟨rfl, hn1, hn2⟩ := ih h' e
        refine ⟨rfl, ?_, hn2⟩
        intro hm
        rcases List.mem_cons.1 hm with e | hm
        · exact hc e.symm
        · exact hn1 hm
  · rintro ⟨rfl, ha, hb⟩
    exact splitOn_pair sep a b ha hb

private lemma numeric_digits {s : Str} (h : isNumeric s = true) : Digits s := by
  unfold isNumeric at h
  rw [Bool.and_eq_true, Bool.not_eq_true', List.isEmpty_eq_false_iff, List.all_eq_true] at h
  exact h

/-- what `str(n)` produces for a natural number: a non-empty string of ASCII digits -/
lemma nat_digits (n : Nat) : Digits (toString n).toList := by
  rw [Nat.toString_eq_repr, Nat.toList_repr]
  refine ⟨Nat.toDigits_ne_nil, fun c hc => ?_⟩
  rw [isDigitC_eq]
  exact Nat.isDigit_of_mem_toDigits (by decide) (by decide) hc

/-- result classes of `cast_string` -/
inductive Class
  | none | bool | int | float | list | str
  deriving DecidableEq, Repr

def classOf : Cast → Class
  | .none => .none | .bool _ => .bool | .int _ => .int | .float _ => .float | .list _ => .list | .str _ => .str

/-- the exact guard of each class, in Python's order of tests -/
def Guard : Class → Str → Prop
  | .none, s => isNone s = true
  | .bool, s => isNone s = false ∧ isBool s = true
  | .int, s => isNone s = false ∧ isBool s = false ∧ isNumeric s = true
  | .float, s => isNone s = false ∧ isBool s = false ∧ isNumeric s = false ∧ isFloat s = true
  | .list, s => isNone s = false ∧ isBool s = false ∧ isNumeric s = false ∧ isFloat s = false ∧ isList s = true
  | .str, s => isNone s = false ∧ isBool s = false ∧ isNumeric s = false ∧ isFloat s = false ∧ isList s = false

/-! ### theorems -/

/-- an in-domain text is read back as itself -/
theorem cast_text_identity (sep : Char) (s : Str) (h : inCsvDomain sep s = true) : castString s = .str s := by
  unfold inCsvDomain at h
  simp only [Bool.and_eq_true, Bool.not_eq_true'] at h
  obtain ⟨⟨⟨⟨⟨⟨⟨⟨h1, h2⟩, h3⟩, h4⟩, h5⟩, _⟩, _⟩, _⟩, _⟩ := h
  simp [castString, h1, h2, h3, h4, h5]

/-! #### the decision table -/

theorem cast_none_iff (s : Str) : castString s = .none ↔ isNone s = true := by
  unfold castString; split_ifs <;> simp_all

theorem cast_bool_iff (s : Str) (b : Bool) :
    castString s = .bool b ↔ isNone s = false ∧ isBool s = true ∧ b = (lower s == "true".toList) := by
  unfold castString; split_ifs <;> simp_all <;> tauto

theorem cast_int_iff (s : Str) :
    castString s = .int s ↔ isNone s = false ∧ isBool s = false ∧ isNumeric s = true := by
  unfold castString; split_ifs <;> simp_all

theorem cast_float_iff (s : Str) :
    castString s = .float s ↔ isNone s = false ∧ isBool s = false ∧ isNumeric s = false ∧ isFloat s = true := by
  unfold castString; split_ifs <;> simp_all

theorem cast_list_iff (s : Str) :
    castString s = .list s ↔
      isNone s = false ∧ isBool s = false ∧ isNumeric s = false ∧ isFloat s = false ∧ isList s = true := by
  unfold castString; split_ifs <;> simp_all

theorem cast_str_iff (s : Str) :
    castString s = .str s ↔
      isNone s = false ∧ isBool s = false ∧ isNumeric s = false ∧ isFloat s = false ∧ isList s = false := by
  unfold castString; split_ifs <;> simp_all

/-- the class of the result is decided by the guards, in Python's order -/
theorem cast_class (s : Str) (c : Class) : classOf (castString s) = c ↔ Guard c s := by
  cases c <;> unfold castString <;> split_ifs <;> simp_all [classOf, Guard]

/-- every string falls in exactly one class -/
theorem cast_total (s : Str) : ∃! c, Guard c s :=
  ⟨classOf (castString s), (cast_class s _).1 rfl, fun c hc => ((cast_class s c).2 hc).symm⟩

/-- whatever the class, the text handed on is the text read -/
theorem cast_carries_text (s t : Str)
    (h : castString s = .int t ∨ castString s = .float t ∨ castString s = .list t ∨ castString s = .str t) : t = s := by
  unfold castString at h
  split_ifs at h <;> simp_all

/-- the recognisers overlap less than the order of tests suggests: a numeric string is never `none` nor a boolean, so
`isNumeric` alone decides the integer class -/
theorem cast_int_iff_numeric (s : Str) : castString s = .int s ↔ isNumeric s = true := by
  rw [cast_int_iff]
  exact ⟨fun h => h.2.2, fun h => ⟨digits_not_none (numeric_digits h), digits_not_bool (numeric_digits h), h⟩⟩

/-! #### what `str()` writes is read back -/

theorem cast_bool_roundtrip :
    castString "True".toList = .bool true ∧ castString "False".toList = .bool false := by decide

theorem cast_none_roundtrip : castString "None".toList = .none := by decide

theorem cast_digits (s : Str) (h : Digits s) : castString s = .int s := by
  unfold castString
  rw [digits_not_none h, digits_not_bool h, digits_numeric h]
  rfl

theorem cast_nat_roundtrip (n : Nat) : castString (toString n).toList = .int (toString n).toList :=
  cast_digits _ (nat_digits n)

/-- finding S18 (negint), general form: a minus sign followed by digits is not `isnumeric`, and is in the float grammar -/
theorem cast_neg_digits (s : Str) (h : Digits s) : castString ('-' :: s) = .float ('-' :: s) := by
  have hlow : lower ('-' :: s) = '-' :: s := by
    show lowerC '-' :: lower s = _
    rw [digits_lower h.2]; rfl
  have hnone : isNone ('-' :: s) = false := by
    unfold isNone
    rw [hlow]
    rfl
  have hbool : isBool ('-' :: s) = false := by
    unfold isBool
    rw [hlow]
    rfl
  have hnum : isNumeric ('-' :: s) = false := by
    unfold isNumeric
    rw [List.all_cons, show isDigitC '-' = false by decide]
    rfl
  have hstrip : strip ('-' :: s) = '-' :: s := by
    apply strip_self
    · intro c hc
      simp only [List.head?_cons, Option.some.injEq] at hc
      subst hc; decide
    · intro c hc
      rw [List.getLast?_cons_of_ne_nil h.1] at hc
      exact digit_not_space (h.2 c (List.mem_of_getLast? hc))
  have hfloat : isFloat ('-' :: s) = true := by
    unfold isFloat
    simp only [hstrip, unsigned]
    rw [digits_ne_word h _ (by decide), digits_ne_word h _ (by decide), digits_ne_word h _ (by decide)]
    rw [splitAt1_none _ s (fun c hc => by
      rw [Bool.or_eq_false_iff, beq_eq_false_iff_ne, beq_eq_false_iff_ne]
      exact ⟨digit_ne (h.2 c hc) (by decide), digit_ne (h.2 c hc) (by decide)⟩)]
    simp only [Bool.or_self, Bool.false_eq_true, if_false]
    unfold isMantissa
    rw [splitAt1_none _ s (fun c hc => by
      rw [beq_eq_false_iff_ne]
      exact digit_ne (h.2 c hc) (by decide))]
    exact digits_digitsU h
  unfold castString
  rw [hnone, hbool, hnum, hfloat]
  rfl

/-- finding S18 (negint): the text of a negative integer is read back as a float, not an integer.
(`0 < n` is only there because python never writes `-0` for an int; the statement holds for `n = 0` too.) -/
theorem negative_int_becomes_float (n : Nat) (_hn : 0 < n) :
    castString ('-' :: (toString n).toList) = .float ('-' :: (toString n).toList) :=
  cast_neg_digits _ (nat_digits n)

/-- the same on Lean's own `Int` printing, which coincides with python's `str` on integers -/
theorem negative_int_becomes_float' (z : Int) (hz : z < 0) :
    castString (toString z).toList = .float (toString z).toList := by
  have e : (toString z).toList = '-' :: (toString (-z).toNat).toList := by
    rw [Int.toString_eq_repr, Int.repr_eq_if, if_neg (not_le.2 hz), String.toList_append, Nat.toString_eq_repr]
    rfl
  rw [e]
  exact cast_neg_digits _ (nat_digits _)

/-- ... while a non-negative `Int` is read back as an integer -/
theorem cast_nonneg_int_roundtrip (z : Int) (hz : 0 ≤ z) :
    castString (toString z).toList = .int (toString z).toList := by
  have e : (toString z).toList = (toString z.toNat).toList := by
    rw [Int.toString_eq_repr, Int.repr_eq_if, if_pos hz, Nat.toString_eq_repr]
  rw [e]
  exact cast_nat_roundtrip _

theorem negative_int_becomes_float_3 : castString "-3".toList = .float "-3".toList := by decide

theorem negative_int_becomes_float_31 : castString "-31".toList = .float "-31".toList := by decide

/-! #### out-of-domain witnesses -/

theorem witness_exponent : castString "1e5".toList = .float "1e5".toList := by decide
theorem witness_empty : castString "".toList = .none := by decide
theorem witness_leading_blank : castString " none".toList ≠ .none := by decide
theorem witness_leading_blank_value : castString " none".toList = .str " none".toList := by decide
theorem witness_list : castString "[1 2]".toList = .list "[1 2]".toList := by decide
theorem witness_grouping : castString "1_000".toList = .float "1_000".toList := by decide
theorem witness_blank_number : castString " 12".toList = .float " 12".toList := by decide
theorem witness_nan_word : castString "NaN".toList = .float "NaN".toList := by decide
theorem witness_bool_case : castString "TRUE".toList = .bool true := by decide

/-! #### the metadata line codec -/

/-- the reader accepts a line iff, once stripped, it is `key<sep>value` with no further separator — and then returns exactly that
key and value -/
theorem decodeLine_eq_some_iff (sep : Char) (line k v : Str) :
    decodeLine sep line = some (k, v) ↔ strip line = k ++ [sep] ++ v ∧ sep ∉ k ∧ sep ∉ v := by
  rw [← splitOn_pair_iff]
  unfold decodeLine
  split
  · rename_i k' v' h
    rw [h]
    simp
  · rename_i h
    constructor
    · intro h'; exact absurd h' (by simp)
    · intro h'; exact absurd h' (h k v)

/-- the line is refused iff the stripped line does not contain exactly one separator -/
theorem decodeLine_eq_none_iff (sep : Char) (line : Str) :
    decodeLine sep line = none ↔ (strip line).count sep ≠ 1 := by
  have hl := splitOn_length sep (strip line)
  unfold decodeLine
  split
  · rename_i k' v' h
    rw [h] at hl
    simp only [List.length_cons, List.length_nil] at hl
    simp only [reduceCtorEq, false_iff, not_not]
    omega
  · rename_i h
    simp only [true_iff]
    intro hc
    rw [hc] at hl
    match hs : splitOn sep (strip line), hl with
    | [a, b], _ => exact h a b hs

/-- a metadata line written by the library is read back as the same key and value -/
theorem decodeLine_encodeLine' (sep : Char) (k v : Str) (hk : sep ∉ k) (hv : sep ∉ v)
    (hs : strip (k ++ [sep] ++ v) = k ++ [sep] ++ v) : decodeLine sep (encodeLine sep k v) = some (k, v) := by
  rw [decodeLine_eq_some_iff]
  exact ⟨hs, hk, hv⟩

/-- the same with the whole stated domain (no separator, newline or carriage return in key or value; the newline clauses are what
makes the line a line and are not used by the per-line reader) -/
theorem decodeLine_encodeLine (sep : Char) (k v : Str) (hk : sep ∉ k) (hv : sep ∉ v)
    (_hk_nl : '\n' ∉ k ∧ '\r' ∉ k) (_hv_nl : '\n' ∉ v ∧ '\r' ∉ v)
    (hs : strip (k ++ [sep] ++ v) = k ++ [sep] ++ v) : decodeLine sep (encodeLine sep k v) = some (k, v) :=
  decodeLine_encodeLine' sep k v hk hv hs

/-- a value the format cannot carry is refused: if the value (or the key) contains the separator the line is not read -/
theorem decodeLine_three_fields_refused (sep : Char) (k v : Str) (hv : sep ∈ v)
    (hs : strip (k ++ [sep] ++ v) = k ++ [sep] ++ v) : decodeLine sep (encodeLine sep k v) = none := by
  rw [decodeLine_eq_none_iff]
  unfold encodeLine
  rw [hs, List.count_append, List.count_append, List.count_singleton_self]
  have : 0 < v.count sep := List.count_pos_iff.2 hv
  omega

/-- the hypothesis `strip line = line` of the refusal theorem is needed: with a blank separator (tab) a trailing separator in the
value is stripped away and the line is ACCEPTED with an altered value (out of domain: the value ends in a blank) -/
theorem decodeLine_blank_sep_value_altered :
    decodeLine '\t' (encodeLine '\t' "a".toList "b\t".toList) = some ("a".toList, "b".toList) := by decide

/-- key and value both in the stated text domain: the line is read back as the same key and value ... -/
theorem decodeLine_encodeLine_inCsvDomain (sep : Char) (k v : Str) (hk : inCsvDomain sep k = true)
    (hv : inCsvDomain sep v = true) : decodeLine sep (encodeLine sep k v) = some (k, v) := by
  unfold inCsvDomain at hk hv
  simp only [Bool.and_eq_true, Bool.not_eq_true', beq_iff_eq] at hk hv
  obtain ⟨⟨⟨⟨⟨⟨⟨⟨hk1, _⟩, _⟩, _⟩, _⟩, hk6⟩, _⟩, _⟩, hk9⟩ := hk
  obtain ⟨⟨⟨⟨⟨⟨⟨⟨hv1, _⟩, _⟩, _⟩, _⟩, hv6⟩, _⟩, _⟩, hv9⟩ := hv
  have hkne : k ≠ [] := by
    unfold isNone at hk1
    rw [Bool.or_eq_false_iff, List.isEmpty_eq_false_iff] at hk1
    exact hk1.1
  have hvne : v ≠ [] := by
    unfold isNone at hv1
    rw [Bool.or_eq_false_iff, List.isEmpty_eq_false_iff] at hv1
    exact hv1.1
  have hks : sep ∉ k := fun hm => by rw [List.contains_iff_mem.2 hm] at hk6; exact Bool.noConfusion hk6
  have hvs : sep ∉ v := fun hm => by rw [List.contains_iff_mem.2 hm] at hv6; exact Bool.noConfusion hv6
  exact decodeLine_encodeLine' sep k v hks hvs (strip_line sep k v hkne hvne hk9 hv9)

/-- ... and the value is then cast back to the same text: the whole path of a text metadata entry through a CSV line -/
theorem csv_text_metadata_roundtrip (sep : Char) (k v : Str) (hk : inCsvDomain sep k = true)
    (hv : inCsvDomain sep v = true) :
    (decodeLine sep (encodeLine sep k v)).map (fun kv => (kv.1, castString kv.2)) = some (k, .str v) := by
  rw [decodeLine_encodeLine_inCsvDomain sep k v hk hv, Option.map_some, cast_text_identity sep v hv]

end PgVerif.C07
