/-
C07 — CSV, Excel and AIF round trips preserve the isotherm: the part that is pyGAPS's own logic.

Statements are about the executable model `PgVerif.Model.TextCodec`: `castString` (= `cast_string`, the reader of every metadata
value in the three text formats) and the CSV metadata line codec `encodeLine`/`decodeLine`.
  * the decision table of `castString`, one theorem per class with the exact guard in Python's order, and `cast_total`;
  * what `str()` writes for `None`, booleans and non-negative integers is read back in the same class;
    a NEGATIVE integer is read back as a float (finding S18 negint) — proved for every negative integer;
  * out-of-domain witnesses;
  * the line codec: exact characterisation of the accepted lines, round trip on the domain, refusal of a value containing the separator.
-/
import Mathlib.Tactic
import PgVerif.Model.TextCodec

namespace PgVerif.C07
open PgVerif.Model.TextCodec

/-! ### helper facts -/

lemma isDigitC_eq (c : Char) : isDigitC c = c.isDigit := by
  simp [isDigitC, Char.isDigit, Char.le_def]

/-- a digit is none of the finitely many other characters the recognisers look for -/
private lemma digit_ne {c d : Char} (hc : isDigitC c = true) (hd : isDigitC d = false) : c ≠ d := by
  intro h; rw [h, hd] at hc; exact Bool.false_ne_true hc

private lemma digit_lower {c : Char} (hc : isDigitC c = true) : lowerC c = c := by
  unfold lowerC
  rw [if_neg]
  rintro ⟨h1, -⟩
  simp only [isDigitC, Bool.and_eq_true, decide_eq_true_eq] at hc
  exact absurd (Char.le_trans h1 hc.2) (by decide)

private lemma digit_not_space {c : Char} (hc : isDigitC c = true) : isSpaceC c = false := by
  by_contra h
  rw [Bool.not_eq_false] at h
  simp only [isSpaceC, Bool.or_eq_true, beq_iff_eq] at h
  rcases h with ((((h | h) | h) | h) | h) | h <;> exact digit_ne hc (by decide) h

/-- a non-empty string of digits -/
def Digits (s : Str) : Prop := s ≠ [] ∧ ∀ c ∈ s, isDigitC c = true

private lemma digits_lower {s : Str} (h : ∀ c ∈ s, isDigitC c = true) : lower s = s := by
  unfold lower
  conv_rhs => rw [← List.map_id s]
  exact List.map_congr_left (fun c hc => digit_lower (h c hc))

private lemma digits_numeric {s : Str} (h : Digits s) : isNumeric s = true := by
  unfold isNumeric
  rw [Bool.and_eq_true, Bool.not_eq_true', List.isEmpty_eq_false_iff, List.all_eq_true]
  exact ⟨h.1, h.2⟩

private lemma digits_ne_word {s : Str} (h : Digits s) (w : Str) (hw : ∀ c, w.head? = some c → isDigitC c = false) :
    (lower s == w) = false := by
  rw [digits_lower h.2, beq_eq_false_iff_ne]
  intro e
  obtain ⟨hne, hall⟩ := h
  cases s with
  | nil => exact hne rfl
  | cons c t =>
    have := hw c (by rw [← e]; rfl)
    rw [hall c (by simp)] at this
    exact Bool.noConfusion this

private lemma digits_not_none {s : Str} (h : Digits s) : isNone s = false := by
  unfold isNone
  rw [Bool.or_eq_false_iff, List.isEmpty_eq_false_iff]
  exact ⟨h.1, digits_ne_word h _ (by decide)⟩

private lemma digits_not_bool {s : Str} (h : Digits s) : isBool s = false := by
  unfold isBool
  rw [Bool.or_eq_false_iff]
  exact ⟨digits_ne_word h _ (by decide), digits_ne_word h _ (by decide)⟩

private lemma digitsU_cons (c : Char) (t : Str) (hc : isDigitC c = true) (ht : ∀ x ∈ t, isDigitC x = true) :
    digitsU (c :: t) = true := by
  induction t generalizing c with
  | nil => rw [digitsU.eq_2]; exact hc
  | cons d t ih =>
    have hd : isDigitC d = true := ht d (by simp)
    have hne : d ≠ '_' := digit_ne hd (by decide)
    have := ih d hd (fun x hx => ht x (by simp [hx]))
    rw [digitsU.eq_4 c d t (fun _ _ h _ => hne h), hc, this]
    rfl

private lemma digits_digitsU {s : Str} (h : Digits s) : digitsU s = true := by
  obtain ⟨hne, hall⟩ := h
  cases s with
  | nil => exact absurd rfl hne
  | cons c t => exact digitsU_cons c t (hall c (by simp)) (fun x hx => hall x (by simp [hx]))

private lemma splitAt1_none (p : Char → Bool) (s : Str) (h : ∀ c ∈ s, p c = false) : splitAt1 p s = none := by
  induction s with
  | nil => rfl
  | cons c t ih =>
    unfold splitAt1
    rw [h c (by simp), ih (fun x hx => h x (by simp [hx]))]
    rfl

private lemma stripL_self (s : Str) (h : ∀ c, s.head? = some c → isSpaceC c = false) : stripL s = s := by
  cases s with
  | nil => rfl
  | cons c t =>
    unfold stripL
    rw [h c rfl]
    rfl

/-- `strip` leaves alone a text with no blank at either end -/
lemma strip_self (s : Str) (h1 : ∀ c, s.head? = some c → isSpaceC c = false)
    (h2 : ∀ c, s.getLast? = some c → isSpaceC c = false) : strip s = s := by
  unfold strip
  rw [stripL_self s h1, stripL_self s.reverse (by rw [List.head?_reverse]; exact h2), List.reverse_reverse]

private lemma stripL_length_le (s : Str) : (stripL s).length ≤ s.length := by
  induction s with
  | nil => exact le_rfl
  | cons c t ih =>
    unfold stripL
    split_ifs
    · exact le_trans ih (Nat.le_succ _)
    · exact le_rfl

private lemma stripL_length_lt (c : Char) (t : Str) (hc : isSpaceC c = true) : (stripL (c :: t)).length < (c :: t).length := by
  unfold stripL
  rw [if_pos hc]
  exact Nat.lt_succ_of_le (stripL_length_le t)

private lemma strip_length_le (s : Str) : (strip s).length ≤ (stripL s).length := by
  unfold strip
  rw [List.length_reverse]
  exact le_trans (stripL_length_le _) (by rw [List.length_reverse])

/-- converse of `strip_self`: a text that `strip` leaves alone has no blank at either end -/
lemma strip_fixed (s : Str) (h : strip s = s) :
    (∀ c, s.head? = some c → isSpaceC c = false) ∧ (∀ c, s.getLast? = some c → isSpaceC c = false) := by
  have hhead : ∀ c, s.head? = some c → isSpaceC c = false := by
    intro c hc
    by_contra hsp
    rw [Bool.not_eq_false] at hsp
    cases s with
    | nil => simp at hc
    | cons d t =>
      simp only [List.head?_cons, Option.some.injEq] at hc
      subst hc
      have h1 := strip_length_le (d :: t)
      have h2 := stripL_length_lt d t hsp
      rw [h] at h1
      omega
  refine ⟨hhead, ?_⟩
  intro c hc
  by_contra hsp
  rw [Bool.not_eq_false] at hsp
  have hrev : s.reverse.head? = some c := by rw [List.head?_reverse]; exact hc
  unfold strip at h
  rw [stripL_self s hhead] at h
  cases hr : s.reverse with
  | nil => rw [hr] at hrev; simp at hrev
  | cons d t =>
    rw [hr] at hrev h
    simp only [List.head?_cons, Option.some.injEq] at hrev
    subst hrev
    have h2 := stripL_length_lt d t hsp
    have h3 := congrArg List.length h
    rw [List.length_reverse] at h3
    have h4 : s.length = (d :: t).length := by rw [← hr, List.length_reverse]
    omega

/-- key and value both non-empty and without blanks at their ends: so is the line -/
lemma strip_line (sep : Char) (k v : Str) (hk : k ≠ []) (hv : v ≠ []) (hsk : strip k = k) (hsv : strip v = v) :
    strip (k ++ [sep] ++ v) = k ++ [sep] ++ v := by
  apply strip_self
  · intro c hc
    cases k with
    | nil => exact absurd rfl hk
    | cons d t => exact (strip_fixed _ hsk).1 c (by simpa using hc)
  · intro c hc
    rw [List.getLast?_append_of_ne_nil _ hv] at hc
    exact (strip_fixed _ hsv).2 c hc

private lemma splitOn_exists (sep : Char) (s : Str) : ∃ h r, splitOn sep s = h :: r := by
  induction s with
  | nil => exact ⟨[], [], rfl⟩
  | cons c t ih =>
    obtain ⟨h, r, e⟩ := ih
    by_cases hc : c = sep
    · exact ⟨[], h :: r, by simp only [splitOn, e, hc, beq_self_eq_true, if_true]⟩
    · exact ⟨c :: h, r, by simp only [splitOn, e, beq_iff_eq, hc, if_false]⟩

private lemma splitOn_cons_sep (sep : Char) (t : Str) : splitOn sep (sep :: t) = [] :: splitOn sep t := by
  obtain ⟨h, r, e⟩ := splitOn_exists sep t
  simp only [splitOn, e, beq_self_eq_true, if_true]

private lemma splitOn_cons_ne (sep c : Char) (t : Str) (hc : c ≠ sep) (h : Str) (r : List Str)
    (e : splitOn sep t = h :: r) : splitOn sep (c :: t) = (c :: h) :: r := by
  simp only [splitOn, e, beq_iff_eq, hc, if_false]

/-- number of fields = number of separators + 1 -/
lemma splitOn_length (sep : Char) (s : Str) : (splitOn sep s).length = s.count sep + 1 := by
  induction s with
  | nil => rfl
  | cons c t ih =>
    by_cases hc : c = sep
    · subst hc
      rw [splitOn_cons_sep, List.length_cons, ih, List.count_cons_self]
    · obtain ⟨h, r, e⟩ := splitOn_exists sep t
      rw [splitOn_cons_ne sep c t hc h r e, List.count_cons_of_ne hc, ← ih, e]
      rfl

/-- a text without separator is one field -/
lemma splitOn_nosep (sep : Char) (a : Str) (h : sep ∉ a) : splitOn sep a = [a] := by
  induction a with
  | nil => rfl
  | cons c t ih =>
    have hc : c ≠ sep := fun e => h (by simp [e])
    exact splitOn_cons_ne sep c t hc t [] (ih (fun hm => h (by simp [hm])))

/-- the first separator ends the first field -/
lemma splitOn_append (sep : Char) (a b : Str) (h : sep ∉ a) : splitOn sep (a ++ sep :: b) = a :: splitOn sep b := by
  induction a with
  | nil => exact splitOn_cons_sep sep b
  | cons c t ih =>
    have hc : c ≠ sep := fun e => h (by simp [e])
    exact splitOn_cons_ne sep c _ hc t _ (ih (fun hm => h (by simp [hm])))

lemma splitOn_pair (sep : Char) (a b : Str) (ha : sep ∉ a) (hb : sep ∉ b) : splitOn sep (a ++ [sep] ++ b) = [a, b] := by
  rw [List.append_assoc, List.singleton_append, splitOn_append sep a b ha, splitOn_nosep sep b hb]

private lemma splitOn_single_inv (sep : Char) (s b : Str) (h : splitOn sep s = [b]) : s = b ∧ sep ∉ b := by
  induction s generalizing b with
  | nil =>
    simp only [splitOn, List.cons.injEq, and_true] at h
    subst h; simp
  | cons c t ih =>
    by_cases hc : c = sep
    · subst hc
      rw [splitOn_cons_sep] at h
      obtain ⟨h', r, e⟩ := splitOn_exists c t
      rw [e] at h
      simp at h
    · obtain ⟨h', r, e⟩ := splitOn_exists sep t
      rw [splitOn_cons_ne sep c t hc h' r e, List.cons.injEq] at h
      obtain ⟨rfl, rfl⟩ := h
      obtain ⟨rfl, hn⟩ := ih h' e
      refine ⟨rfl, ?_⟩
      intro hm
      rcases List.mem_cons.1 hm with e | hm
      · exact hc e.symm
      · exact hn hm

/-- exactly two fields iff exactly one separator, and then the fields are what is left and right of it -/
lemma splitOn_pair_iff (sep : Char) (s a b : Str) : splitOn sep s = [a, b] ↔ s = a ++ [sep] ++ b ∧ sep ∉ a ∧ sep ∉ b := by
  constructor
  · intro h
    induction s generalizing a with
    | nil => simp [splitOn] at h
    | cons c t ih =>
      by_cases hc : c = sep
      · subst hc
        rw [splitOn_cons_sep, List.cons.injEq] at h
        obtain ⟨rfl, h⟩ := h
        obtain ⟨rfl, hn⟩ := splitOn_single_inv c t b h
        exact ⟨rfl, by simp, hn⟩
      · obtain ⟨h', r, e⟩ := splitOn_exists sep t
        rw [splitOn_cons_ne sep c t hc h' r e, List.cons.injEq] at h
        obtain ⟨rfl, rfl⟩ := h
        obtain ⟨rfl, hn1, hn2⟩ := ih h' e
        refine ⟨rfl, ?_, hn2⟩
        intro hm
        rcases List.mem_cons.1 hm with e | hm
        · exact hc e.symm
        · exact hn1 hm
  · rintro ⟨rfl, ha, hb⟩
    exact splitOn_pair sep a b ha hb

private lemma numeric_digits {s : Str} (h : isNumeric s = true) : Digits s := by
  unfold isNumeric at h
  rw [Bool.and_eq_true, Bool.not_eq_true', List.isEmpty_eq_false_iff, List.all_eq_true] at h
  exact h

/-- what `str(n)` produces for a natural number: a non-empty string of ASCII digits -/
lemma nat_digits (n : Nat) : Digits (toString n).toList := by
  rw [Nat.toString_eq_repr, Nat.toList_repr]
  refine ⟨Nat.toDigits_ne_nil, fun c hc => ?_⟩
  rw [isDigitC_eq]
  exact Nat.isDigit_of_mem_toDigits (by decide) (by decide) hc

/-- result classes of `cast_string` -/
inductive Class
  | none | bool | int | float | list | str
  deriving DecidableEq, Repr

def classOf : Cast → Class
  | .none => .none | .bool _ => .bool | .int _ => .int | .float _ => .float | .list _ => .list | .str _ => .str

/-- the exact guard of each class, in Python's order of tests -/
def Guard : Class → Str → Prop
  | .none, s => isNone s = true
  | .bool, s => isNone s = false ∧ isBool s = true
  | .int, s => isNone s = false ∧ isBool s = false ∧ isNumeric s = true
  | .float, s => isNone s = false ∧ isBool s = false ∧ isNumeric s = false ∧ isFloat s = true
  | .list, s => isNone s = false ∧ isBool s = false ∧ isNumeric s = false ∧ isFloat s = false ∧ isList s = true
  | .str, s => isNone s = false ∧ isBool s = false ∧ isNumeric s = false ∧ isFloat s = false ∧ isList s = false

/-! ### theorems -/

/-- an in-domain text is read back as itself -/
theorem cast_text_identity (sep : Char) (s : Str) (h : inCsvDomain sep s = true) : castString s = .str s := by
  unfold inCsvDomain at h
  simp only [Bool.and_eq_true, Bool.not_eq_true'] at h
  obtain ⟨⟨⟨⟨⟨⟨⟨⟨h1, h2⟩, h3⟩, h4⟩, h5⟩, _⟩, _⟩, _⟩, _⟩ := h
  simp [castString, h1, h2, h3, h4, h5]

/-! #### the decision table -/

theorem cast_none_iff (s : Str) : castString s = .none ↔ isNone s = true := by
  unfold castString; split_ifs <;> simp_all

theorem cast_bool_iff (s : Str) (b : Bool) :
    castString s = .bool b ↔ isNone s = false ∧ isBool s = true ∧ b = (lower s == "true".toList) := by
  unfold castString; split_ifs <;> simp_all <;> tauto

theorem cast_int_iff (s : Str) :
    castString s = .int s ↔ isNone s = false ∧ isBool s = false ∧ isNumeric s = true := by
  unfold castString; split_ifs <;> simp_all

theorem cast_float_iff (s : Str) :
    castString s = .float s ↔ isNone s = false ∧ isBool s = false ∧ isNumeric s = false ∧ isFloat s = true := by
  unfold castString; split_ifs <;> simp_all

theorem cast_list_iff (s : Str) :
    castString s = .list s ↔
      isNone s = false ∧ isBool s = false ∧ isNumeric s = false ∧ isFloat s = false ∧ isList s = true := by
  unfold castString; split_ifs <;> simp_all

theorem cast_str_iff (s : Str) :
    castString s = .str s ↔
      isNone s = false ∧ isBool s = false ∧ isNumeric s = false ∧ isFloat s = false ∧ isList s = false := by
  unfold castString; split_ifs <;> simp_all

/-- the class of the result is decided by the guards, in Python's order -/
theorem cast_class (s : Str) (c : Class) : classOf (castString s) = c ↔ Guard c s := by
  cases c <;> unfold castString <;> split_ifs <;> simp_all [classOf, Guard]

/-- every string falls in exactly one class -/
theorem cast_total (s : Str) : ∃! c, Guard c s :=
  ⟨classOf (castString s), (cast_class s _).1 rfl, fun c hc => ((cast_class s c).2 hc).symm⟩

/-- whatever the class, the text handed on is the text read -/
theorem cast_carries_text (s t : Str)
    (h : castString s = .int t ∨ castString s = .float t ∨ castString s = .list t ∨ castString s = .str t) : t = s := by
  unfold castString at h
  split_ifs at h <;> simp_all

/-- the recognisers overlap less than the order of tests suggests: a numeric string is never `none` nor a boolean, so
`isNumeric` alone decides the integer class -/
theorem cast_int_iff_numeric (s : Str) : castString s = .int s ↔ isNumeric s = true := by
  rw [cast_int_iff]
  exact ⟨fun h => h.2.2, fun h => ⟨digits_not_none (numeric_digits h), digits_not_bool (numeric_digits h), h⟩⟩

/-! #### what `str()` writes is read back -/

theorem cast_bool_roundtrip :
    castString "True".toList = .bool true ∧ castString "False".toList = .bool false := by decide

theorem cast_none_roundtrip : castString "None".toList = .none := by decide

theorem cast_digits (s : Str) (h : Digits s) : castString s = .int s := by
  unfold castString
  rw [digits_not_none h, digits_not_bool h, digits_numeric h]
  rfl

theorem cast_nat_roundtrip (n : Nat) : castString (toString n).toList = .int (toString n).toList :=
  cast_digits _ (nat_digits n)

/-- finding S18 (negint), general form: a minus sign followed by digits is not `isnumeric`, and is in the float grammar -/
theorem cast_neg_digits (s : Str) (h : Digits s) : castString ('-' :: s) = .float ('-' :: s) := by
  have hlow : lower ('-' :: s) = '-' :: s := by
    show lowerC '-' :: lower s = _
    rw [digits_lower h.2]; rfl
  have hnone : isNone ('-' :: s) = false := by
    unfold isNone
    rw [hlow]
    rfl
  have hbool : isBool ('-' :: s) = false := by
    unfold isBool
    rw [hlow]
    rfl
  have hnum : isNumeric ('-' :: s) = false := by
    unfold isNumeric
    rw [List.all_cons, show isDigitC '-' = false by decide]
    rfl
  have hstrip : strip ('-' :: s) = '-' :: s := by
    apply strip_self
    · intro c hc
      simp only [List.head?_cons, Option.some.injEq] at hc
      subst hc; decide
    · intro c hc
      rw [List.getLast?_cons_of_ne_nil h.1] at hc
      exact digit_not_space (h.2 c (List.mem_of_getLast? hc))
  have hfloat : isFloat ('-' :: s) = true := by
    unfold isFloat
    simp only [hstrip, unsigned]
    rw [digits_ne_word h _ (by decide), digits_ne_word h _ (by decide), digits_ne_word h _ (by decide)]
    rw [splitAt1_none _ s (fun c hc => by
      rw [Bool.or_eq_false_iff, beq_eq_false_iff_ne, beq_eq_false_iff_ne]
      exact ⟨digit_ne (h.2 c hc) (by decide), digit_ne (h.2 c hc) (by decide)⟩)]
    simp only [Bool.or_self, Bool.false_eq_true, if_false]
    unfold isMantissa
    rw [splitAt1_none _ s (fun c hc => by
      rw [beq_eq_false_iff_ne]
      exact digit_ne (h.2 c hc) (by decide))]
    exact digits_digitsU h
  unfold castString
  rw [hnone, hbool, hnum, hfloat]
  rfl

/-- finding S18 (negint): the text of a negative integer is read back as a float, not an integer.
(`0 < n` is only there because python never writes `-0` for an int; the statement holds for `n = 0` too.) -/
theorem negative_int_becomes_float (n : Nat) (_hn : 0 < n) :
    castString ('-' :: (toString n).toList) = .float ('-' :: (toString n).toList) :=
  cast_neg_digits _ (nat_digits n)

/-- the same on Lean's own `Int` printing, which coincides with python's `str` on integers -/
theorem negative_int_becomes_float' (z : Int) (hz : z < 0) :
    castString (toString z).toList = .float (toString z).toList := by
  have e : (toString z).toList = '-' :: (toString (-z).toNat).toList := by
    rw [Int.toString_eq_repr, Int.repr_eq_if, if_neg (not_le.2 hz), String.toList_append, Nat.toString_eq_repr]
    rfl
  rw [e]
  exact cast_neg_digits _ (nat_digits _)

/-- ... while a non-negative `Int` is read back as an integer -/
theorem cast_nonneg_int_roundtrip (z : Int) (hz : 0 ≤ z) :
    castString (toString z).toList = .int (toString z).toList := by
  have e : (toString z).toList = (toString z.toNat).toList := by
    rw [Int.toString_eq_repr, Int.repr_eq_if, if_pos hz, Nat.toString_eq_repr]
  rw [e]
  exact cast_nat_roundtrip _

theorem negative_int_becomes_float_3 : castString "-3".toList = .float "-3".toList := by decide

theorem negative_int_becomes_float_31 : castString "-31".toList = .float "-31".toList := by decide

/-! #### out-of-domain witnesses -/

theorem witness_exponent : castString "1e5".toList = .float "1e5".toList := by decide
theorem witness_empty : castString "".toList = .none := by decide
theorem witness_leading_blank : castString " none".toList ≠ .none := by decide
theorem witness_leading_blank_value : castString " none".toList = .str " none".toList := by decide
theorem witness_list : castString "[1 2]".toList = .list "[1 2]".toList := by decide
theorem witness_grouping : castString "1_000".toList = .float "1_000".toList := by decide
theorem witness_blank_number : castString " 12".toList = .float " 12".toList := by decide
theorem witness_nan_word : castString "NaN".toList = .float "NaN".toList := by decide
theorem witness_bool_case : castString "TRUE".toList = .bool true := by decide

/-! #### the metadata line codec -/

/-- the reader accepts a line iff, once stripped, it is `key<sep>value` with no further separator — and then returns exactly that
key and value -/
theorem decodeLine_eq_some_iff (sep : Char) (line k v : Str) :
    decodeLine sep line = some (k, v) ↔ strip line = k ++ [sep] ++ v ∧ sep ∉ k ∧ sep ∉ v := by
  rw [← splitOn_pair_iff]
  unfold decodeLine
  split
  · rename_i k' v' h
    rw [h]
    simp
  · rename_i h
    constructor
    · intro h'; exact absurd h' (by simp)
    · intro h'; exact absurd h' (h k v)

/-- the line is refused iff the stripped line does not contain exactly one separator -/
theorem decodeLine_eq_none_iff (sep : Char) (line : Str) :
    decodeLine sep line = none ↔ (strip line).count sep ≠ 1 := by
  have hl := splitOn_length sep (strip line)
  unfold decodeLine
  split
  · rename_i k' v' h
    rw [h] at hl
    simp only [List.length_cons, List.length_nil] at hl
    simp only [reduceCtorEq, false_iff, not_not]
    omega
  · rename_i h
    simp only [true_iff]
    intro hc
    rw [hc] at hl
    match hs : splitOn sep (strip line), hl with
    | [a, b], _ => exact h a b hs

/-- a metadata line written by the library is read back as the same key and value -/
theorem decodeLine_encodeLine' (sep : Char) (k v : Str) (hk : sep ∉ k) (hv : sep ∉ v)
    (hs : strip (k ++ [sep] ++ v) = k ++ [sep] ++ v) : decodeLine sep (encodeLine sep k v) = some (k, v) := by
  rw [decodeLine_eq_some_iff]
  exact ⟨hs, hk, hv⟩

/-- the same with the whole stated domain (no separator, newline or carriage return in key or value; the newline clauses are what
makes the line a line and are not used by the per-line reader) -/
theorem decodeLine_encodeLine (sep : Char) (k v : Str) (hk : sep ∉ k) (hv : sep ∉ v)
    (_hk_nl : '\n' ∉ k ∧ '\r' ∉ k) (_hv_nl : '\n' ∉ v ∧ '\r' ∉ v)
    (hs : strip (k ++ [sep] ++ v) = k ++ [sep] ++ v) : decodeLine sep (encodeLine sep k v) = some (k, v) :=
  decodeLine_encodeLine' sep k v hk hv hs

/-- a value the format cannot carry is refused: if the value (or the key) contains the separator the line is not read -/
theorem decodeLine_three_fields_refused (sep : Char) (k v : Str) (hv : sep ∈ v)
    (hs : strip (k ++ [sep] ++ v) = k ++ [sep] ++ v) : decodeLine sep (encodeLine sep k v) = none := by
  rw [decodeLine_eq_none_iff]
  unfold encodeLine
  rw [hs, List.count_append, List.count_append, List.count_singleton_self]
  have : 0 < v.count sep := List.count_pos_iff.2 hv
  omega

/-- the hypothesis `strip line = line` of the refusal theorem is needed: with a blank separator (tab) a trailing separator in the
value is stripped away and the line is ACCEPTED with an altered value (out of domain: the value ends in a blank) -/
theorem decodeLine_blank_sep_value_altered :
    decodeLine '\t' (encodeLine '\t' "a".toList "b\t".toList) = some ("a".toList, "b".toList) := by decide

/-! #### a separator that is not a blank: the COMPLETE behaviour of the line codec

`decodeLine_three_fields_refused` needs `strip line = line`.  For the separators pyGAPS is used with (`,` `;` `|` — anything that
`str.strip()` does not remove) that hypothesis can be dropped: `strip` removes blanks only, so it can neither remove a separator at
the very end of the value (`'see notes,'`, `'batch 7,,'`) nor one at the very start of the key.  What the reader returns for a
written line is then known for EVERY key and value: refused iff key or value contains the separator (at any position), else the key
without its leading blanks and the value without its trailing blanks. -/

lemma strip_eq_stripR_stripL (s : Str) : strip s = stripR (stripL s) := rfl

private lemma stripL_cons_space (c : Char) (t : Str) (h : isSpaceC c = true) : stripL (c :: t) = stripL t := by
  show (if isSpaceC c = true then stripL t else c :: t) = stripL t
  rw [if_pos h]

private lemma stripL_cons_nonspace (c : Char) (t : Str) (h : isSpaceC c = false) : stripL (c :: t) = c :: t :=
  stripL_self (c :: t) (fun d hd => by
    simp only [List.head?_cons, Option.some.injEq] at hd
    subst hd; exact h)

/-- a character that is not a blank stops `stripL` -/
lemma stripL_append_nonspace (sep : Char) (hsep : isSpaceC sep = false) (k v : Str) :
    stripL (k ++ sep :: v) = stripL k ++ sep :: v := by
  induction k with
  | nil => exact stripL_cons_nonspace sep v hsep
  | cons c t ih =>
    rw [List.cons_append]
    by_cases hc : isSpaceC c = true
    · rw [stripL_cons_space c _ hc, stripL_cons_space c t hc, ih]
    · rw [Bool.not_eq_true] at hc
      rw [stripL_cons_nonspace c _ hc, stripL_cons_nonspace c t hc, List.cons_append]

/-- `strip` of a written line, for a separator that is not a blank: only the two outer ends are touched -/
lemma strip_encodeLine (sep : Char) (hsep : isSpaceC sep = false) (k v : Str) :
    strip (k ++ [sep] ++ v) = stripL k ++ [sep] ++ stripR v := by
  unfold strip stripR
  rw [List.append_assoc, List.singleton_append, stripL_append_nonspace sep hsep, List.reverse_append, List.reverse_cons,
    List.append_assoc, List.singleton_append, stripL_append_nonspace sep hsep, List.reverse_append, List.reverse_cons,
    List.reverse_reverse]

/-- `stripL` removes blanks only -/
lemma count_stripL (c : Char) (hc : isSpaceC c = false) (s : Str) : (stripL s).count c = s.count c := by
  induction s with
  | nil => rfl
  | cons d t ih =>
    by_cases hd : isSpaceC d = true
    · have hne : d ≠ c := fun e => by rw [e, hc] at hd; exact Bool.false_ne_true hd
      rw [stripL_cons_space d t hd, ih, List.count_cons_of_ne hne]
    · rw [Bool.not_eq_true] at hd
      rw [stripL_cons_nonspace d t hd]

lemma count_stripR (c : Char) (hc : isSpaceC c = false) (s : Str) : (stripR s).count c = s.count c := by
  unfold stripR
  rw [List.count_reverse, count_stripL c hc, List.count_reverse]

lemma mem_stripL_iff (c : Char) (hc : isSpaceC c = false) (s : Str) : c ∈ stripL s ↔ c ∈ s := by
  rw [← List.count_pos_iff, ← List.count_pos_iff, count_stripL c hc]

lemma mem_stripR_iff (c : Char) (hc : isSpaceC c = false) (s : Str) : c ∈ stripR s ↔ c ∈ s := by
  rw [← List.count_pos_iff, ← List.count_pos_iff, count_stripR c hc]

/-- `stripL` leaves a text alone iff it does not begin with a blank -/
lemma stripL_eq_self_iff (s : Str) : stripL s = s ↔ ∀ c, s.head? = some c → isSpaceC c = false := by
  refine ⟨fun h c hc => ?_, stripL_self s⟩
  by_contra hsp
  rw [Bool.not_eq_false] at hsp
  cases s with
  | nil => simp at hc
  | cons d t =>
    simp only [List.head?_cons, Option.some.injEq] at hc
    subst hc
    have h2 := stripL_length_lt d t hsp
    rw [h] at h2
    exact lt_irrefl _ h2

/-- `stripR` leaves a text alone iff it does not end with a blank -/
lemma stripR_eq_self_iff (s : Str) : stripR s = s ↔ ∀ c, s.getLast? = some c → isSpaceC c = false := by
  unfold stripR
  rw [← List.head?_reverse, ← stripL_eq_self_iff]
  constructor
  · intro h; rw [← List.reverse_reverse (stripL s.reverse), h]
  · intro h; rw [h, List.reverse_reverse]

/-- THE line codec for a separator that is not a blank, for EVERY key and value: the written line is refused iff key or value
contains the separator — wherever it stands: at the start, inside, at the very end, repeated, alone —, otherwise the reader
returns the key without leading blanks and the value without trailing blanks.  Nothing else can come back. -/
theorem decodeLine_encodeLine_eq (sep : Char) (hsep : isSpaceC sep = false) (k v : Str) :
    decodeLine sep (encodeLine sep k v) = if sep ∈ k ∨ sep ∈ v then none else some (stripL k, stripR v) := by
  unfold encodeLine
  split_ifs with h
  · rw [decodeLine_eq_none_iff, strip_encodeLine sep hsep, List.count_append, List.count_append, List.count_singleton_self,
      count_stripL sep hsep, count_stripR sep hsep]
    rcases h with h | h
    · have := List.count_pos_iff.2 h; omega
    · have := List.count_pos_iff.2 h; omega
  · rw [not_or] at h
    rw [decodeLine_eq_some_iff]
    exact ⟨strip_encodeLine sep hsep k v, fun hm => h.1 ((mem_stripL_iff sep hsep k).1 hm),
      fun hm => h.2 ((mem_stripR_iff sep hsep v).1 hm)⟩

/-- a value the format cannot carry is refused — the separator at ANY position of the value, no side condition on blanks -/
theorem decodeLine_sep_in_value_refused (sep : Char) (hsep : isSpaceC sep = false) (k v : Str) (hv : sep ∈ v) :
    decodeLine sep (encodeLine sep k v) = none := by
  rw [decodeLine_encodeLine_eq sep hsep, if_pos (Or.inr hv)]

/-- the same for a key that contains the separator -/
theorem decodeLine_sep_in_key_refused (sep : Char) (hsep : isSpaceC sep = false) (k v : Str) (hk : sep ∈ k) :
    decodeLine sep (encodeLine sep k v) = none := by
  rw [decodeLine_encodeLine_eq sep hsep, if_pos (Or.inl hk)]

/-- the position the repository's tests never try: the separator at the very END of the value, once or repeated
(`'see notes,'`, `'batch 7,,'`).  The line then ends in empty fields; a reader that drops trailing empty fields would accept it
and hand back the value WITHOUT its last characters. -/
theorem decodeLine_trailing_sep_refused (sep : Char) (hsep : isSpaceC sep = false) (k v : Str) (n : Nat) :
    decodeLine sep (encodeLine sep k (v ++ List.replicate (n + 1) sep)) = none :=
  decodeLine_sep_in_value_refused sep hsep k _ (List.mem_append_right _ (by simp))

/-- ... and at the very start of the value, or alone -/
theorem decodeLine_leading_sep_refused (sep : Char) (hsep : isSpaceC sep = false) (k v : Str) :
    decodeLine sep (encodeLine sep k (sep :: v)) = none :=
  decodeLine_sep_in_value_refused sep hsep k _ (by simp)

example : decodeLine ',' (encodeLine ',' "comment".toList "see notes,".toList) = none ∧
    decodeLine ',' (encodeLine ',' "comment".toList "batch 7,,".toList) = none ∧
    decodeLine ';' (encodeLine ';' "comment".toList "a;".toList) = none ∧
    decodeLine ',' (encodeLine ',' "comment".toList ",".toList) = none ∧
    decodeLine ',' (encodeLine ',' "comment".toList ",a".toList) = none := by decide

/-- "refused or unchanged" — the last sentence of the property for one metadata line — holds EXACTLY when the key does not begin
and the value does not end with a blank (or the line is refused anyway).  The remaining region is finding S18-csv-padded. -/
theorem decodeLine_refused_or_unchanged_iff (sep : Char) (hsep : isSpaceC sep = false) (k v : Str) :
    (decodeLine sep (encodeLine sep k v) = none ∨ decodeLine sep (encodeLine sep k v) = some (k, v)) ↔
      (sep ∈ k ∨ sep ∈ v) ∨
        ((∀ c, k.head? = some c → isSpaceC c = false) ∧ (∀ c, v.getLast? = some c → isSpaceC c = false)) := by
  rw [decodeLine_encodeLine_eq sep hsep, ← stripL_eq_self_iff, ← stripR_eq_self_iff]
  split_ifs with h
  · simp [h]
  · simp [h]

/-- no blank at the outer ends: a written line is refused or comes back exactly — never a different key or value -/
theorem decodeLine_never_silently_changed (sep : Char) (hsep : isSpaceC sep = false) (k v : Str)
    (hk : ∀ c, k.head? = some c → isSpaceC c = false) (hv : ∀ c, v.getLast? = some c → isSpaceC c = false) :
    decodeLine sep (encodeLine sep k v) = none ∨ decodeLine sep (encodeLine sep k v) = some (k, v) :=
  (decodeLine_refused_or_unchanged_iff sep hsep k v).2 (Or.inr ⟨hk, hv⟩)

example : (∀ c, "comment".toList.head? = some c → isSpaceC c = false) ∧
    (∀ c, "see notes,".toList.getLast? = some c → isSpaceC c = false) := by decide

/-- finding S18-csv-padded in the model: a value that ends in a blank is accepted and comes back without it -/
theorem decodeLine_trailing_blank_value_altered :
    decodeLine ',' (encodeLine ',' "k".toList "padded ".toList) = some ("k".toList, "padded".toList) := by decide

/-- candidate finding (tab, carriage return at the end of a value: the same `strip`) -/
theorem decodeLine_trailing_tab_value_altered :
    decodeLine ',' (encodeLine ',' "k".toList "ab\t".toList) = some ("k".toList, "ab".toList) ∧
    decodeLine ',' (encodeLine ',' "k".toList "ab\r".toList) = some ("k".toList, "ab".toList) := by decide

/-- key and value both in the stated text domain: the line is read back as the same key and value ... -/
theorem decodeLine_encodeLine_inCsvDomain (sep : Char) (k v : Str) (hk : inCsvDomain sep k = true)
    (hv : inCsvDomain sep v = true) : decodeLine sep (encodeLine sep k v) = some (k, v) := by
  unfold inCsvDomain at hk hv
  simp only [Bool.and_eq_true, Bool.not_eq_true', beq_iff_eq] at hk hv
  obtain ⟨⟨⟨⟨⟨⟨⟨⟨hk1, _⟩, _⟩, _⟩, _⟩, hk6⟩, _⟩, _⟩, hk9⟩ := hk
  obtain ⟨⟨⟨⟨⟨⟨⟨⟨hv1, _⟩, _⟩, _⟩, _⟩, hv6⟩, _⟩, _⟩, hv9⟩ := hv
  have hkne : k ≠ [] := by
    unfold isNone at hk1
    rw [Bool.or_eq_false_iff, List.isEmpty_eq_false_iff] at hk1
    exact hk1.1
  have hvne : v ≠ [] := by
    unfold isNone at hv1
    rw [Bool.or_eq_false_iff, List.isEmpty_eq_false_iff] at hv1
    exact hv1.1
  have hks : sep ∉ k := fun hm => by rw [List.contains_iff_mem.2 hm] at hk6; exact Bool.noConfusion hk6
  have hvs : sep ∉ v := fun hm => by rw [List.contains_iff_mem.2 hm] at hv6; exact Bool.noConfusion hv6
  exact decodeLine_encodeLine' sep k v hks hvs (strip_line sep k v hkne hvne hk9 hv9)

/-- ... and the value is then cast back to the same text: the whole path of a text metadata entry through a CSV line -/
theorem csv_text_metadata_roundtrip (sep : Char) (k v : Str) (hk : inCsvDomain sep k = true)
    (hv : inCsvDomain sep v = true) :
    (decodeLine sep (encodeLine sep k v)).map (fun kv => (kv.1, castString kv.2)) = some (k, .str v) := by
  rw [decodeLine_encodeLine_inCsvDomain sep k v hk hv, Option.map_some, cast_text_identity sep v hv]

/-! #### the metadata block: the reader's loop over the lines of a document (`readMeta`) -/

private lemma stripL_idem (s : Str) : stripL (stripL s) = stripL s := by
  induction s with
  | nil => rfl
  | cons c t ih =>
    by_cases hc : isSpaceC c = true
    · rw [stripL_cons_space c t hc, ih]
    · rw [Bool.not_eq_true] at hc
      rw [stripL_cons_nonspace c t hc, stripL_cons_nonspace c t hc]

lemma stripR_idem (s : Str) : stripR (stripR s) = stripR s := by
  unfold stripR
  rw [List.reverse_reverse, stripL_idem]

/-- `rstrip` of a written line touches the value only (separator not a blank) -/
lemma stripR_encodeLine (sep : Char) (hsep : isSpaceC sep = false) (k v : Str) :
    stripR (encodeLine sep k v) = encodeLine sep k (stripR v) := by
  unfold stripR encodeLine
  rw [List.append_assoc, List.singleton_append, List.reverse_append, List.reverse_cons, List.append_assoc, List.singleton_append,
    stripL_append_nonspace sep hsep, List.reverse_append, List.reverse_cons, List.reverse_reverse, List.append_assoc,
    List.singleton_append]

/-- ONE step of the loop on a line the writer produced, for every key and value (separator not a blank): unless the line ends the
loop, it is refused iff key or value contains the separator — at any position —, otherwise the entry read is the key without leading
and the value without trailing blanks, and the loop goes on with the next line -/
theorem readMeta_written_line (sep : Char) (hsep : isSpaceC sep = false) (stops : List Str) (k v : Str) (ls : List Str)
    (hstop : stopsAt stops (stripR (encodeLine sep k v)) = false) :
    readMeta sep stops (encodeLine sep k v :: ls) =
      if sep ∈ k ∨ sep ∈ v then .refused
      else match readMeta sep stops ls with
        | .refused => .refused
        | .read es rest => .read ((stripL k, stripR v) :: es) rest := by
  rw [readMeta, if_neg (by rw [hstop]; exact Bool.false_ne_true), stripR_encodeLine sep hsep, decodeLine_encodeLine_eq sep hsep,
    stripR_idem]
  simp only [mem_stripR_iff sep hsep]
  split_ifs with h <;> rfl

/-- an entry whose written line the loop reads back exactly: no separator in key or value, the key does not begin and the value
does not end with a blank, and the line does not look like the end of the block -/
def CleanEntry (sep : Char) (stops : List Str) (kv : Str × Str) : Prop :=
  sep ∉ kv.1 ∧ sep ∉ kv.2 ∧ (∀ c, kv.1.head? = some c → isSpaceC c = false) ∧ (∀ c, kv.2.getLast? = some c → isSpaceC c = false) ∧
    stopsAt stops (encodeLine sep kv.1 kv.2) = false

private lemma clean_line (sep : Char) (hsep : isSpaceC sep = false) (stops : List Str) (kv : Str × Str) (h : CleanEntry sep stops kv) :
    stopsAt stops (stripR (encodeLine sep kv.1 kv.2)) = false ∧ stripL kv.1 = kv.1 ∧ stripR kv.2 = kv.2 := by
  obtain ⟨_, _, hk, hv, hs⟩ := h
  have e2 : stripR kv.2 = kv.2 := (stripR_eq_self_iff _).2 hv
  refine ⟨?_, (stripL_eq_self_iff _).2 hk, e2⟩
  rw [stripR_encodeLine sep hsep, e2]
  exact hs

/-- the block the writer produces for clean entries is read back as exactly these entries, whatever follows the line that ends it -/
theorem readMeta_written (sep : Char) (hsep : isSpaceC sep = false) (stops : List Str) (entries : List (Str × Str)) (tail : List Str)
    (h : ∀ kv ∈ entries, CleanEntry sep stops kv)
    (htail : tail = [] ∨ ∃ l ls, tail = l :: ls ∧ stopsAt stops (stripR l) = true) :
    readMeta sep stops (entries.map (fun kv => encodeLine sep kv.1 kv.2) ++ tail) = .read entries tail := by
  induction entries with
  | nil =>
    rcases htail with rfl | ⟨l, ls, rfl, hl⟩
    · rfl
    · simp only [List.map_nil, List.nil_append]
      rw [readMeta, if_pos hl]
  | cons kv es ih =>
    obtain ⟨hs, hk, hv⟩ := clean_line sep hsep stops kv (h kv (by simp))
    have hc := h kv (by simp)
    rw [List.map_cons, List.cons_append, readMeta_written_line sep hsep stops kv.1 kv.2 _ hs,
      if_neg (by rintro (h1 | h1); exacts [hc.1 h1, hc.2.1 h1]), ih (fun x hx => h x (by simp [hx])), hk, hv]

/-- a value (or key) the format cannot carry is refused by the whole reader, not only by the line codec: after any number of clean
entries, a written line whose key or value contains the separator — anywhere, also at the very end — makes the loop refuse the
document, whatever follows -/
theorem readMeta_refuses_separator (sep : Char) (hsep : isSpaceC sep = false) (stops : List Str) (entries : List (Str × Str))
    (k v : Str) (more : List Str) (h : ∀ kv ∈ entries, CleanEntry sep stops kv)
    (hstop : stopsAt stops (stripR (encodeLine sep k v)) = false) (hbad : sep ∈ k ∨ sep ∈ v) :
    readMeta sep stops (entries.map (fun kv => encodeLine sep kv.1 kv.2) ++ encodeLine sep k v :: more) = .refused := by
  induction entries with
  | nil =>
    simp only [List.map_nil, List.nil_append]
    rw [readMeta_written_line sep hsep stops k v more hstop, if_pos hbad]
  | cons kv es ih =>
    obtain ⟨hs, _, _⟩ := clean_line sep hsep stops kv (h kv (by simp))
    have hc := h kv (by simp)
    rw [List.map_cons, List.cons_append, readMeta_written_line sep hsep stops kv.1 kv.2 _ hs,
      if_neg (by rintro (h1 | h1); exacts [hc.1 h1, hc.2.1 h1]), ih (fun x hx => h x (by simp [hx]))]

/-- non-vacuity: the entries of an ordinary document are clean; `comment,see notes,` after them is refused -/
example : CleanEntry ',' ["data".toList, "model".toList] ("material".toList, "m1".toList) ∧
    CleanEntry ',' ["data".toList, "model".toList] ("temperature".toList, "77.0".toList) := by
  refine ⟨⟨by decide, by decide, by decide, by decide, by decide⟩, ⟨by decide, by decide, by decide, by decide, by decide⟩⟩

example : readMeta ',' ["data".toList, "model".toList]
    ["material,m1".toList, "comment,see notes,".toList, "data:[pressure,loading,branch,(otherdata)]".toList] = .refused := by decide

/-- candidate finding C2 in the model: a value that ENDS in a line break is not refused — the empty line it leaves ends the block, so
the reader never reaches the data header: the value comes back without the line break and the rest of the document is dropped -/
theorem readMeta_trailing_newline_cuts_document :
    readMeta ',' ["data".toList, "model".toList]
        (docLines (writeMeta ',' [("material".toList, "m1".toList), ("comment".toList, "ab\n".toList)] ++ "data:[pressure]\n1.0\n".toList)) =
      .read [("material".toList, "m1".toList), ("comment".toList, "ab".toList)] ["".toList, "data:[pressure]".toList, "1.0".toList, "".toList] := by
  decide

/-- ... while a line break INSIDE a value leaves a line without separator, which is refused -/
theorem readMeta_inner_newline_refused :
    readMeta ',' ["data".toList, "model".toList]
        (docLines (writeMeta ',' [("material".toList, "m1".toList), ("comment".toList, "ab\ncd".toList)] ++ "data:[pressure]\n1.0\n".toList)) = .refused := by
  decide

end PgVerif.C07
