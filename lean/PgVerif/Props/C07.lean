/-
C07 — CSV, Excel and AIF round trips preserve the isotherm (placeholder; theorems follow).
-/
import PgVerif.Model.TextCodec

namespace PgVerif.C07
open PgVerif.Model.TextCodec

/-- an in-domain text is read back as itself -/
theorem cast_text_identity (sep : Char) (s : Str) (h : inCsvDomain sep s = true) : castString s = .str s := by
  unfold inCsvDomain at h
  simp only [Bool.and_eq_true, Bool.not_eq_true'] at h
  obtain ⟨⟨⟨⟨⟨⟨⟨⟨h1, h2⟩, h3⟩, h4⟩, h5⟩, _⟩, _⟩, _⟩, _⟩ := h
  simp [castString, h1, h2, h3, h4, h5]

end PgVerif.C07
