/-
C15 — where the two recorded findings S45-C15a / S46-C15b sit relative to the theorems of `Props/C15.lean`.

The covariance theorems about fitted quantities carry the hypothesis that the routine returns the MINIMISER of its least-squares
objective (`henry_constant_units_lsq`: hypothesis `hmin`).  The code hands the objective to an iterative optimiser that stops on an
ABSOLUTE tolerance (scipy `least_squares`: ‖Jᵀ r‖∞ < gtol = 1e-8;  SLSQP in `psd_dft_kernel_fit`: |f − f_prev| < ftol = 1e-4, start vector 0).
Objective and gradient carry the units of the data, so whether the test fires depends on the unit.  This file states

* what IS covariant: the gradient of the Henry objective changes by the unit factors (`henryGrad_units`); a stopping test that compares it
  with a quantity of the same dimension is unit-free (`henry_relative_stop_units`); the sum of squares of a kernel fit is homogeneous of
  degree two (`fitSSE_scale`), hence a fit that returns the minimiser over a cone (non-negative combinations of kernel isotherms) is
  homogeneous in the loading (`kernel_fit_homogeneous_lsq`: the full statement the property wants, under the explicit hypothesis `hmin`);
* that the hypothesis "returns the minimiser" cannot be replaced by "returns a point accepted by the absolute test":
  `henry_abs_stop_small_units` (for ANY data and ANY starting guess there is a loading unit from which on the covariant starting guess
  itself is accepted), `henry_abs_stop_witness` (concrete data: accepted guess = 2 × the covariant constant, the shape of S45-C15a:
  Takeda 5A in kmol/g returns 18.5 × the converted constant), `kernel_abs_ftol_small_scale` / `kernel_abs_ftol_witness` (for any isotherm
  there is a scale below which the whole objective at the start vector 0 is under the tolerance: no step can change it by `ftol`, the fit
  returns whatever its first step gives — S46-C15b, S38 of C18).
Helpers are `lemma`, properties `theorem`.
-/
import PgVerif.Props.C15
import Mathlib.Tactic

namespace PgVerif.Props.C15
open PgVerif.Gen.R PgVerif.Model.Linear
open PgVerif.Props.C14 (sum_nil sum_cons)

/-! ## S45-C15a: the Henry fit and an absolute gradient tolerance -/
section HenryStop

/-- the gradient `Jᵀ r = Σ pᵢ (K pᵢ − nᵢ)` of the cost `½ Σ (K pᵢ − nᵢ)²` that `least_squares` compares with `gtol` -/
noncomputable def henryGrad (K : ℝ) (ps ns : List ℝ) : ℝ :=
  sum (List.zipWith (fun p n => p * (Henry_loading K p - n)) ps ns)

/-- `Σ pᵢ nᵢ`: a quantity of the same dimension as the gradient -/
noncomputable def henryCross (ps ns : List ℝ) : ℝ :=
  sum (List.zipWith (fun p n => p * n) ps ns)

/-- the stopping test of the optimiser: the current point is returned when the gradient is below an absolute tolerance -/
def AbsStop (gtol K : ℝ) (ps ns : List ℝ) : Prop := |henryGrad K ps ns| < gtol

/-- **S45a.** in units `(a·p, b·n)` at the covariant point `b K / a` the gradient is `a b` times the gradient (`a ≠ 0`). -/
theorem henryGrad_units (K a b : ℝ) (ha : a ≠ 0) (ps ns : List ℝ) :
    henryGrad (b * K / a) (ps.map fun p => a * p) (ns.map fun n => b * n) = a * b * henryGrad K ps ns := by
  unfold henryGrad
  rw [List.zipWith_map, ← sum_zipWith_mul_left]
  congr 2
  funext p n
  unfold Henry_loading
  field_simp

lemma henryCross_units (a b : ℝ) (ps ns : List ℝ) :
    henryCross (ps.map fun p => a * p) (ns.map fun n => b * n) = a * b * henryCross ps ns := by
  unfold henryCross
  rw [List.zipWith_map, ← sum_zipWith_mul_left]
  congr 2
  funext p n
  ring

/-- **S45b.** a stopping test that compares the gradient with a quantity of its own dimension (here `tol · |Σ p n|`) accepts the
covariant point in the new units exactly when it accepts the point in the old units (`a ≠ 0`, `b ≠ 0`): with such a test the unit
could not decide where the fit stops. -/
theorem henry_relative_stop_units (tol K a b : ℝ) (ha : a ≠ 0) (hb : b ≠ 0) (ps ns : List ℝ) :
    |henryGrad (b * K / a) (ps.map fun p => a * p) (ns.map fun n => b * n)|
        < tol * |henryCross (ps.map fun p => a * p) (ns.map fun n => b * n)|
      ↔ |henryGrad K ps ns| < tol * |henryCross ps ns| := by
  rw [henryGrad_units K a b ha, henryCross_units, abs_mul, abs_mul (a * b)]
  have hab : 0 < |a * b| := abs_pos.mpr (mul_ne_zero ha hb)
  rw [show tol * (|a * b| * |henryCross ps ns|) = |a * b| * (tol * |henryCross ps ns|) by ring]
  exact mul_lt_mul_iff_right₀ hab

/-- **S45c.** the absolute test is NOT unit-free: for any data, any tolerance and ANY point `K₀` (in the code: the starting guess, which is
itself covariant) there is a loading unit `b₀` such that in every smaller unit (`n ↦ b n`, `0 < b ≤ b₀`: larger unit of amount, smaller
numbers) the covariant image `b K₀` of that point is accepted at once — minimiser or not. -/
theorem henry_abs_stop_small_units (gtol K₀ : ℝ) (hg : 0 < gtol) (ps ns : List ℝ) :
    ∃ b₀, 0 < b₀ ∧ ∀ b, 0 < b → b ≤ b₀ → AbsStop gtol (b * K₀) ps (ns.map fun n => b * n) := by
  refine ⟨gtol / (|henryGrad K₀ ps ns| + 1), by positivity, fun b hb hle => ?_⟩
  have h := henryGrad_units K₀ 1 b one_ne_zero ps ns
  simp only [one_mul, div_one, List.map_id'] at h
  unfold AbsStop
  rw [h, abs_mul, abs_of_pos hb]
  have hpos : 0 < |henryGrad K₀ ps ns| + 1 := by positivity
  calc b * |henryGrad K₀ ps ns|
      ≤ gtol / (|henryGrad K₀ ps ns| + 1) * |henryGrad K₀ ps ns| := mul_le_mul_of_nonneg_right hle (abs_nonneg _)
    _ < gtol / (|henryGrad K₀ ps ns| + 1) * (|henryGrad K₀ ps ns| + 1) := by
        apply mul_lt_mul_of_pos_left (by linarith) (by positivity)
    _ = gtol := by field_simp

/-- **S45d (witness: the hypothesis `hmin` of `henry_constant_units_lsq` is needed).**  One point `(p, n) = (1, 1)`, guess `K₀ = 2`,
`gtol = 1e-8`: in the original unit the guess is not accepted and the minimiser is `K = 1`; with the loading in a unit `1e9` times larger
the covariant guess `2e-9` is accepted although the minimiser of the converted problem is the covariant `1e-9`: the constant returned
there is twice the converted constant. -/
theorem henry_abs_stop_witness :
    ∃ (ps ns : List ℝ) (K₀ Kmin b gtol : ℝ), 0 < b ∧ 0 < gtol
      ∧ (∀ K', henrySSE Kmin ps ns ≤ henrySSE K' ps ns)
      ∧ (∀ K', henrySSE (b * Kmin) ps (ns.map fun n => b * n) ≤ henrySSE K' ps (ns.map fun n => b * n))
      ∧ ¬ AbsStop gtol K₀ ps ns
      ∧ AbsStop gtol (b * K₀) ps (ns.map fun n => b * n)
      ∧ b * K₀ = 2 * (b * Kmin) := by
  refine ⟨[1], [1], 2, 1, 1e-9, 1e-8, by norm_num, by norm_num, fun K' => ?_, fun K' => ?_, ?_, ?_, by norm_num⟩
  · simp only [henrySSE, Henry_loading, List.zipWith_cons_cons, List.zipWith_nil_right, sum_cons, sum_nil]
    nlinarith [sq_nonneg (K' * 1 - 1)]
  · simp only [henrySSE, Henry_loading, List.map_cons, List.map_nil, List.zipWith_cons_cons, List.zipWith_nil_right, sum_cons, sum_nil]
    nlinarith [sq_nonneg (K' * 1 - 1e-9 * 1)]
  · simp only [AbsStop, henryGrad, Henry_loading, List.zipWith_cons_cons, List.zipWith_nil_right, sum_cons, sum_nil]
    norm_num
  · simp only [AbsStop, henryGrad, Henry_loading, List.map_cons, List.map_nil, List.zipWith_cons_cons, List.zipWith_nil_right, sum_cons, sum_nil]
    norm_num [abs_lt]

end HenryStop

/-! ## S46-C15b: the kernel fit and an absolute tolerance on the objective -/
section KernelFit

/-- `Σ (fitᵢ − nᵢ)²`: the objective of `psd_dft_kernel_fit`, as a function of the fitted isotherm -/
noncomputable def fitSSE (fit ns : List ℝ) : ℝ :=
  sum (List.zipWith (fun f n => (f - n) ^ 2) fit ns)

lemma fitSSE_nonneg (fit ns : List ℝ) : 0 ≤ fitSSE fit ns := by
  unfold fitSSE
  induction fit generalizing ns with
  | nil => simp
  | cons f fs ih =>
    cases ns with
    | nil => simp
    | cons n ns => simp only [List.zipWith_cons_cons, sum_cons]; have := ih ns; positivity

/-- **S46a.** the objective is homogeneous of degree two. -/
theorem fitSSE_scale (k : ℝ) (fit ns : List ℝ) :
    fitSSE (fit.map fun f => k * f) (ns.map fun n => k * n) = k ^ 2 * fitSSE fit ns := by
  unfold fitSSE
  rw [List.zipWith_map, ← sum_zipWith_mul_left]
  congr 2
  funext f n
  ring

lemma map_scale_inv (k : ℝ) (hk : k ≠ 0) (g : List ℝ) : (g.map fun f => k⁻¹ * f).map (fun f => k * f) = g := by
  rw [List.map_map]
  conv_rhs => rw [← List.map_id g]
  congr 1
  funext f
  simp only [Function.comp, id]
  field_simp

/-- **S46b (the statement the property asks for, under the explicit hypothesis that the fit returns the minimiser).**  `S` is the set of
isotherms the fit can produce (non-negative combinations of the kernel isotherms: closed under multiplication by `k` and `k⁻¹`).  If `fit`
is a best approximation of the loadings `ns` in `S`, then `k · fit` is a best approximation of `k · ns`: multiplying all loadings by `k`
multiplies the fitted isotherm (and with it the distribution, which is linear in it) by `k`. -/
theorem kernel_fit_homogeneous_lsq (S : Set (List ℝ)) (k : ℝ) (hk : k ≠ 0)
    (hS : ∀ c : ℝ, ∀ g ∈ S, (g.map fun f => c * f) ∈ S) (fit ns : List ℝ) (hfit : fit ∈ S)
    (hmin : ∀ g ∈ S, fitSSE fit ns ≤ fitSSE g ns) :
    (fit.map fun f => k * f) ∈ S ∧ ∀ g ∈ S, fitSSE (fit.map fun f => k * f) (ns.map fun n => k * n) ≤ fitSSE g (ns.map fun n => k * n) := by
  refine ⟨hS k fit hfit, fun g hg => ?_⟩
  have hg' := hS k⁻¹ g hg
  have e : fitSSE g (ns.map fun n => k * n) = k ^ 2 * fitSSE (g.map fun f => k⁻¹ * f) ns := by
    rw [← fitSSE_scale, map_scale_inv k hk]
  rw [e, fitSSE_scale]
  exact mul_le_mul_of_nonneg_left (hmin _ hg') (sq_nonneg k)

/-- the objective at the start vector 0 (fitted isotherm identically 0) -/
lemma fitSSE_zero_scale (k : ℝ) (ns : List ℝ) :
    fitSSE (ns.map fun _ => (0 : ℝ)) (ns.map fun n => k * n) = k ^ 2 * fitSSE (ns.map fun _ => (0 : ℝ)) ns := by
  have h := fitSSE_scale k (ns.map fun _ => (0 : ℝ)) ns
  simpa [List.map_map, Function.comp] using h

/-- **S46c.** an ABSOLUTE tolerance on the decrease of the objective is not scale-free: for any isotherm and any `ftol > 0` there is a
scale `k₀` such that for all loadings `k · ns`, `0 < k ≤ k₀`, the whole objective at the start vector is below `ftol` — whatever the
first step `g` of the optimiser is, the objective changes by less than `ftol` and the stopping test `|f − f_prev| < ftol` holds. -/
theorem kernel_abs_ftol_small_scale (ftol : ℝ) (hf : 0 < ftol) (ns : List ℝ) :
    ∃ k₀, 0 < k₀ ∧ ∀ k, 0 < k → k ≤ k₀ → ∀ g : List ℝ,
      |fitSSE (ns.map fun _ => (0 : ℝ)) (ns.map fun n => k * n) - fitSSE g (ns.map fun n => k * n)| < ftol
        ∨ fitSSE (ns.map fun _ => (0 : ℝ)) (ns.map fun n => k * n) < fitSSE g (ns.map fun n => k * n) := by
  set F := fitSSE (ns.map fun _ => (0 : ℝ)) ns with hF
  have hF0 : 0 ≤ F := fitSSE_nonneg _ _
  refine ⟨min 1 (ftol / (F + 1)), by positivity, fun k hk hle g => ?_⟩
  have hk1 : k ≤ 1 := hle.trans (min_le_left _ _)
  have hk2 : k ≤ ftol / (F + 1) := hle.trans (min_le_right _ _)
  have hsmall : k ^ 2 * F < ftol := by
    have h1 : k ^ 2 ≤ k := by nlinarith
    have hFpos : 0 < F + 1 := by linarith
    calc k ^ 2 * F ≤ k * F := mul_le_mul_of_nonneg_right h1 hF0
      _ ≤ ftol / (F + 1) * F := mul_le_mul_of_nonneg_right hk2 hF0
      _ < ftol / (F + 1) * (F + 1) := mul_lt_mul_of_pos_left (by linarith) (by positivity)
      _ = ftol := by field_simp
  rw [fitSSE_zero_scale]
  have hg := fitSSE_nonneg g (ns.map fun n => k * n)
  by_cases hlt : k ^ 2 * F < fitSSE g (ns.map fun n => k * n)
  · exact Or.inr hlt
  · left
    have hlt := not_lt.mp hlt
    rw [abs_of_nonneg (by linarith)]
    linarith [mul_nonneg (sq_nonneg k) hF0]

/-- **S46d (witness).**  loadings `[1, 2]`, `ftol = 1e-4` (the literal of `psd_dft_kernel_fit`): at scale 1 the objective at the start
vector is 5 — the optimiser has to work; at scale `1e-3` it is `5e-6 < ftol`: the start vector already passes the test although it is
not a best approximation as soon as the kernel contains the isotherm `[1, 2]` itself (exact fit, objective 0). -/
theorem kernel_abs_ftol_witness :
    ∃ (ns : List ℝ) (k ftol : ℝ), 0 < k ∧ 0 < ftol
      ∧ ftol ≤ fitSSE (ns.map fun _ => (0 : ℝ)) ns
      ∧ fitSSE (ns.map fun _ => (0 : ℝ)) (ns.map fun n => k * n) < ftol
      ∧ fitSSE (ns.map fun n => k * n) (ns.map fun n => k * n) = 0
      ∧ 0 < fitSSE (ns.map fun _ => (0 : ℝ)) (ns.map fun n => k * n) := by
  refine ⟨[1, 2], 1e-3, 1e-4, by norm_num, by norm_num, ?_, ?_, ?_, ?_⟩ <;>
    simp only [fitSSE, List.map_cons, List.map_nil, List.zipWith_cons_cons, List.zipWith_nil_right, sum_cons, sum_nil] <;> norm_num

end KernelFit

/-! ## non-vacuity -/
section NonVacuityOptimiser

/-- `henry_relative_stop_units` at concrete numbers: the gradient at `K = 2` on `(1, 1)` is 1, the cross term 1; kmol → mmol and bar → kPa -/
example : |henryGrad (1e6 * 2 / 100) ([1].map fun p => 100 * p) ([1].map fun n => 1e6 * n)|
      < 2 * |henryCross ([1].map fun p => (100 : ℝ) * p) ([1].map fun n => (1e6 : ℝ) * n)| :=
  (henry_relative_stop_units 2 2 100 1e6 (by norm_num) (by norm_num) [1] [1]).mpr (by
    simp only [henryGrad, henryCross, Henry_loading, List.zipWith_cons_cons, List.zipWith_nil_right, sum_cons, sum_nil]
    norm_num)

/-- `kernel_fit_homogeneous_lsq`: a cone with a best approximation — all multiples of the isotherm `[1, 2]`, data `[1, 2]` -/
example : ∃ (S : Set (List ℝ)) (fit ns : List ℝ), (∀ c : ℝ, ∀ g ∈ S, (g.map fun f => c * f) ∈ S) ∧ fit ∈ S
    ∧ ∀ g ∈ S, fitSSE fit ns ≤ fitSSE g ns := by
  refine ⟨{g | ∃ c : ℝ, g = [c * 1, c * 2]}, [1, 2], [1, 2], ?_, ⟨1, by norm_num⟩, ?_⟩
  · rintro c g ⟨d, rfl⟩
    exact ⟨c * d, by simp [mul_assoc]⟩
  · rintro g ⟨d, rfl⟩
    simp only [fitSSE, List.zipWith_cons_cons, List.zipWith_nil_right, sum_cons, sum_nil]
    nlinarith [sq_nonneg (d * 1 - 1), sq_nonneg (d * 2 - 2)]

end NonVacuityOptimiser

end PgVerif.Props.C15
