/-
C15 (continued) — the INTERPOLATING accessors `loading_at` / `pressure_at` of a point isotherm do not depend on the
representation the isotherm is stored in, whatever history of conversions (from whatever original representation) led
to it.  They are what `alpha_s` reads from its reference isotherm and what `isosteric_enthalpy` reads from every member
of its set; `Props/C15.lean` part A covers the column accessors only.

Models: `Model/Access.lean` (`inputPressure`, `inputLoading`, `outputPressurePoint`, `accessLoadingStored`),
`Model/SpreadPoint.lean` (`interpLin` = scipy `interp1d(kind='linear')` without fill), `Model/IsoState.lean` (`run`).
The correspondence of these with the code on the complete (stored representation × requested representation) pressure table
is checked on every run by `harness/props/c15.py` (driver `Access`: aP / iP / oPP) and by C03's own check.

  1  `interpLin_scale`, `interpLin_scale_right`  — linear interpolation commutes with a change of unit of the abscissa by a
     POSITIVE factor and of the ordinate by any factor; `interpLin_negative_scale_witness`: positivity is necessary.
  2  `PRep.scale_pos`, `LRep.scale_pos` — the Pa-per-unit / mol-per-unit factors are positive (positive saturation pressure,
     `AdsStrictPos`: positive molar mass and molar densities).
  3  `loadingAt`, `pressureAt` — the three-stage compositions (input conversion, interpolation of the stored knots, output
     conversion); `inputPressure_typed`, `outputPressurePoint_typed`, `inputLoading_routine_typed`.
  4  `loading_at_after_history`, `pressure_at_after_history` — full strength: ANY history `ops`, ANY valid original
     representation, same refusal / same "outside the range" / same number; closed forms of the number.
     Restrictions (explicit hypotheses, as in part A): fully specified arguments (an omitted mode or unit defaults to the STORED
     one and then means something else after a conversion — that is finding S15a of `alpha_s`), material labels unchanged by
     the history (results are per stored unit of material), no material argument.
  5  `isosteric_reads_invariant` (a SET of isotherms, each with its own history: mixed representations),
     `alphas_reads_invariant` (sample columns + reference `loading_at`).
  6  witnesses / non-vacuity at ℚ.
NOT modelled: the cached interpolator objects (C04), non-linear interpolation kinds, export / re-import.
-/
import PgVerif.Props.C15

namespace PgVerif.Props.C15
open PgVerif.Model

section InterpScale
variable {α : Type} [Field α] [LinearOrder α] [IsStrictOrderedRing α]

theorem interpLin_scale (k c : α) (hk : 0 < k) (xs ys : List α) (x : α) :
    interpLin (xs.map fun v => k * v) (ys.map fun v => c * v) (k * x) = (interpLin xs ys x).map fun v => c * v := by
  induction xs generalizing ys with
  | nil => cases ys <;> simp [interpLin]
  | cons p0 t ih =>
    cases ys with
    | nil => cases t <;> simp [interpLin]
    | cons l0 lt =>
      cases t with
      | nil =>
        cases lt with
        | nil =>
          simp only [List.map_cons, List.map_nil, interpLin, mul_right_inj' hk.ne']
          split_ifs <;> simp
        | cons l1 ls => simp [interpLin]
      | cons p1 ps =>
        cases lt with
        | nil => simp [interpLin]
        | cons l1 ls =>
          have h := ih (l1 :: ls)
          simp only [List.map_cons] at h ⊢
          rw [interpLin, interpLin]
          simp only [mul_lt_mul_iff_right₀ hk, mul_le_mul_iff_right₀ hk]
          split_ifs
          · rfl
          · simp only [Option.map_some, Option.some.injEq]
            by_cases hd : p1 - p0 = 0
            · have hd' : k * p1 - k * p0 = 0 := by rw [← mul_sub, hd, mul_zero]
              rw [hd, hd']; simp
            · have hd' : k * p1 - k * p0 ≠ 0 := by rw [← mul_sub]; exact mul_ne_zero hk.ne' hd
              field_simp
          · exact h

/-- the same law in the shape the conversions produce (`v * factor`) -/
theorem interpLin_scale_right (k c : α) (hk : 0 < k) (xs ys : List α) (x : α) :
    interpLin (xs.map (· * k)) (ys.map (· * c)) (x * k) = (interpLin xs ys x).map (· * c) := by
  have h := interpLin_scale k c hk xs ys x
  simp only [mul_comm k, mul_comm c] at h
  exact h

end InterpScale

section Positivity
open PgVerif.Units PgVerif.Gen
open PgVerif.Spec (LB MB Ads Mat PRep LRep MRep gL gM physScale)
open PgVerif.C02 (Rep spOf slOf gmOf)
variable {α : Type} [Field α] [LinearOrder α] [IsStrictOrderedRing α]

lemma facOf_pos (t : List (String × Nat × Nat)) (ht : tableOk t = true) (s : String) (f : α)
    (h : (facOf t s : Option α) = some f) : 0 < f := by
  unfold facOf at h
  cases hl : t.lookup s with
  | none => simp [hl] at h
  | some e =>
    simp [hl] at h
    have := lookup_all t (fun e => decide (e.1 ≠ 0 ∧ e.2 ≠ 0)) ht s e hl
    simp only [decide_eq_true_eq] at this
    subst h
    exact div_pos (Nat.cast_pos.mpr (Nat.pos_of_ne_zero this.1)) (Nat.cast_pos.mpr (Nat.pos_of_ne_zero this.2))

/-- Pa per stored pressure unit is positive when the saturation pressure is -/
lemma PRep.scale_pos (ps : α) (hps : 0 < ps) (a : PRep) (sa : α)
    (ha : a.scale Gen.pressureUnits ps = some sa) : 0 < sa := by
  cases a with
  | abs u => exact facOf_pos _ pressure_ok _ _ (scale_abs ha).2
  | rel u => simp [Spec.PRep.scale] at ha; subst ha; exact hps
  | relp u => simp [Spec.PRep.scale] at ha; subst ha; exact div_pos hps (by norm_num)

/-- strictly positive adsorbate constants (molar mass, molar densities of the liquid and the gas) -/
def AdsStrictPos (a : Ads α) : Prop := 0 < a.M ∧ 0 < a.rhoLbar ∧ 0 < a.rhoGbar

lemma physScale_pos {a : Ads α} (hp : AdsStrictPos a) {b : LB} {u : String} {s : α}
    (h : physScale Gen.unitTable a b u = some s) : 0 < s := by
  unfold physScale unitTable at h
  by_cases hu : u = ""
  · simp [hu] at h
  · simp only [hu, if_false, Option.map_eq_some_iff] at h
    obtain ⟨f, hf, rfl⟩ := h
    have hf' : 0 < f := by cases b <;> exact facOf_pos _ (by decide) _ _ hf
    have hg : 0 < gL a b := by
      obtain ⟨h1, h2, h3⟩ := hp
      cases b <;> simp [gL, *]
    exact mul_pos hf' hg

/-- mol of adsorbate per stored loading unit is positive for positive adsorbate constants -/
lemma LRep.scale_pos {a : Ads α} (hp : AdsStrictPos a) (m : MRep) (r : LRep) (s : α)
    (h : r.scale Gen.unitTable a m = some s) : 0 < s := by
  cases r with
  | phys b u => exact physScale_pos hp h
  | frac => exact physScale_pos hp h
  | pct =>
    simp only [Spec.LRep.scale, Option.map_eq_some_iff] at h
    obtain ⟨s', h, rfl⟩ := h
    exact div_pos (physScale_pos hp h) (by norm_num)

end Positivity

/-! ## the interpolating accessors `loading_at` / `pressure_at` of a point isotherm -/
section At
open PgVerif.Model PgVerif.Units
open PgVerif.Spec (LB MB Ads Mat PRep LRep MRep TRep physScale)
open PgVerif.C02 (Rep labelsOf pLabel canonP canonL spOf slOf gmOf Conserved)
variable {α : Type} [Field α] [LinearOrder α] [IsStrictOrderedRing α]

/-- `PointIsotherm.loading_at(p, pressure_mode, pressure_unit, loading_basis, loading_unit, material_basis, material_unit)`:
the given pressure is converted to the stored representation, the stored (pressure, loading) knots are interpolated
linearly (`none` = outside the measured range, where scipy raises), the result is converted to the requested loading
representation (with the STORED material passed on, `accessLoadingStored`).  A refused conversion propagates. -/
def loadingAt (c : Ctx α) (s : Iso α) (p : α) (pm pu lb lu mb mu : Option String) : Except Err (Option α) :=
  match inputPressure c s.lab p pm pu with
  | .error e => .error e
  | .ok x =>
    match interpLin s.ps s.ls x with
    | none => .ok none
    | some y => (accessLoadingStored c s.lab y lb lu mb mu).map some

/-- `PointIsotherm.pressure_at(n, pressure_mode, pressure_unit, loading_basis, loading_unit, material_basis, material_unit)`:
the given loading is converted to the stored representation, the stored (loading, pressure) knots are interpolated, the
result is converted to the requested pressure representation. -/
def pressureAt (c : Ctx α) (s : Iso α) (n : α) (pm pu lb lu mb mu : Option String) : Except Err (Option α) :=
  match inputLoading false c s.lab n lb lu mb mu with
  | .error e => .error e
  | .ok x =>
    match interpLin s.ls s.ps x with
    | none => .ok none
    | some y => (outputPressurePoint c s.lab y pm pu).map some

/-- a pressure GIVEN in the fully specified representation `b`, read into the stored representation of a typed state -/
lemma inputPressure_typed (ps : α) (hps : ps ≠ 0) (env : Env α) (r : Rep) (sp : α)
    (hsp : r.p.scale Gen.pressureUnits ps = some sp) (b : PRep) (sb : α)
    (hb : b.scale Gen.pressureUnits ps = some sb) (w : α) :
    inputPressure ⟨some ps, env, true⟩ (labelsOf r) w (some b.mode) b.unit = .ok (w * sb / sp) := by
  have hm := C02.PRep.mode_ne_empty b
  rw [C01.tables_eq_spec.1] at hsp hb
  refine C03.inputPressure_SI ⟨some ps, env, true⟩ (labelsOf r) ps hps rfl rfl (C02.canonPRep r.p) b sp sb
    ?_ hb (C02.canonPRep_mode r.p).symm (C02.canonPRep_unit r.p).symm (some b.mode) b.unit
    (Or.inl (truthy_some hm)) (C02.orCurrent_some hm) rfl w
  rw [← C01.tables_eq_spec.1, C02.canonPRep_scale, C01.tables_eq_spec.1]; exact hsp

/-- the output conversion of `pressure_at` on a typed state, fully specified target `b` -/
lemma outputPressurePoint_typed (ps : α) (hps : ps ≠ 0) (env : Env α) (r : Rep) (sp : α)
    (hsp : r.p.scale Gen.pressureUnits ps = some sp) (b : PRep) (sb : α)
    (hb : b.scale Gen.pressureUnits ps = some sb) (v : α) :
    outputPressurePoint ⟨some ps, env, true⟩ (labelsOf r) v (some b.mode) b.unit = .ok (v * sp / sb) := by
  have hm := C02.PRep.mode_ne_empty b
  rw [C01.tables_eq_spec.1] at hsp hb
  have hsp' : (C02.canonPRep r.p).scale Spec.pressureUnits ps = some sp := by
    rw [← C01.tables_eq_spec.1, C02.canonPRep_scale, C01.tables_eq_spec.1]; exact hsp
  have h := C01.cPressure_SI ps v hps (C02.canonPRep r.p) b sp sb hsp' hb
  unfold outputPressurePoint
  simp only [truthy_some hm, Bool.true_or, if_true, orDefault_some hm]
  rw [C02.canonPRep_mode, C02.canonPRep_unit] at h
  exact h

/-- a loading GIVEN in a physical representation `(b, u)` (basis and unit given, no material argument), read into the
stored representation of a typed state (any supported stored loading, fraction / percent included) -/
lemma inputLoading_routine_typed (a : Ads α) (mat : Mat α) (hc : a.Consistent) (hp : a.Pos) (psat : Option α)
    (tOk : Bool) (r : Rep) (sl : α) (hsl : r.l.scale Gen.unitTable a r.m = some sl) (b : LB) (u : String) (s2 : α)
    (h2 : physScale Gen.unitTable a b u = some s2) (n : α) :
    inputLoading false ⟨psat, envOf a mat, tOk⟩ (labelsOf r) n (some b.name) (some u) none none
      = .ok (n * s2 / sl) := by
  have hb : b.name ≠ "" := C02.LRep.basis_ne_empty (.phys b u)
  have hu : u ≠ "" := (physScale_inv h2).1
  have hspec := cLoading_spec a mat hc hp n r.m (.phys b u) r.l s2 sl h2 hsl
  have tn : truthy none = false := rfl
  unfold inputLoading
  simp only [tn, Bool.or_self, Bool.false_eq_true, if_false, truthy_some hb, truthy_some hu, if_true,
    orDefault_some hb, bind, Except.bind, pure, Except.pure, Bool.not_true]
  exact hspec

/-- the final material representation equals the original one when the history leaves the material labels alone -/
lemma rep_m_eq {rf r0 : Rep} {lab0 labf : Labels} (hs : lab0 = labelsOf r0) (hlab : labf = labelsOf rf)
    (hmb : labf.mbasis = lab0.mbasis) (hmu : labf.munit = lab0.munit) : rf.m = r0.m := by
  rw [hlab, hs] at hmb hmu
  have e1 : rf.m.b = r0.m.b := C02.MB.name_inj hmb
  have e2 : rf.m.u = r0.m.u := Option.some.inj hmu
  cases hrm : rf.m; cases hr0 : r0.m
  rw [hrm, hr0] at e1 e2
  simp only at e1 e2
  rw [e1, e2]

/-- **A3 (`loading_at`).**  Hypotheses of `access_after_history_loading` with a POSITIVE saturation pressure (the knots
of the interpolation are the stored pressures: a change of pressure representation must keep their order, which it
does because every Pa-per-unit factor is positive, `PRep.scale_pos`).  The pressure argument is given in a fully
specified representation `pt` (mode given, unit given when absolute), the loading is requested in a physical
`(b, u)` without a material argument — the call `alpha_s` makes on the reference isotherm with
`pressure_mode='relative'`.  For ANY history of conversion calls that leaves the material labels alone,
`loading_at` of the converted isotherm returns what `loading_at` of the original returns: the same refusal, the same
"outside the measured range", or the same number — which is the original knots interpolated at `p` expressed in the
ORIGINAL stored pressure unit, times mol-per-original-unit over mol-per-target-unit. -/
theorem loading_at_after_history (ps : α) (hps : 0 < ps) (a : Ads α) (mat : Mat α) (hc : a.Consistent)
    (hp : a.Pos) (hmp : Mat.Pos mat) (s0 : Iso α) (r0 : Rep) (hs : s0.lab = labelsOf r0)
    (hr : C02.Rep.Valid ps a mat r0) (ops : List Op)
    (hmb : (run (ctxOf ps a mat) s0 ops).lab.mbasis = s0.lab.mbasis)
    (hmu : (run (ctxOf ps a mat) s0 ops).lab.munit = s0.lab.munit)
    (pt : PRep) (sb : α) (hb : pt.scale Gen.pressureUnits ps = some sb)
    (b : LB) (u : String) (s2 : α) (h2 : physScale Gen.unitTable a b u = some s2) (p : α) :
    loadingAt (ctxOf ps a mat) (run (ctxOf ps a mat) s0 ops) p (some pt.mode) pt.unit (some b.name) (some u) none none
      = loadingAt (ctxOf ps a mat) s0 p (some pt.mode) pt.unit (some b.name) (some u) none none ∧
    loadingAt (ctxOf ps a mat) s0 p (some pt.mode) pt.unit (some b.name) (some u) none none
      = .ok ((interpLin s0.ps s0.ls (p * sb / spOf ps r0.p)).map (· * slOf a r0.l r0.m / s2)) := by
  have hps' : ps ≠ 0 := hps.ne'
  obtain ⟨rf, hv, _, hcn, dps, dls, _⟩ := C02.run_any_history ps hps' a mat hc hp hmp s0 r0 hs hr ops
  obtain ⟨⟨hsp0, hsp0n⟩, ⟨hsl0, _⟩, ⟨_, hg0⟩⟩ := hr.scales hps' hp hmp
  obtain ⟨⟨hspf, hspfn⟩, ⟨hslf, hslfn⟩, ⟨_, hgf⟩⟩ := hv.scales hps' hp hmp
  have hm : rf.m = r0.m := rep_m_eq hs hcn.lab hmb hmu
  have hs2 : s2 ≠ 0 := C02.lscale_ne_zero_gen a hp r0.m (.phys b u) s2 h2
  have hk : 0 < spOf ps r0.p / spOf ps rf.p :=
    div_pos (PRep.scale_pos ps hps _ _ hsp0) (PRep.scale_pos ps hps _ _ hspf)
  have tn : truthy (none : Option String) = false := rfl
  -- the original isotherm
  have h0 : loadingAt (ctxOf ps a mat) s0 p (some pt.mode) pt.unit (some b.name) (some u) none none
      = .ok ((interpLin s0.ps s0.ls (p * sb / spOf ps r0.p)).map (· * slOf a r0.l r0.m / s2)) := by
    unfold loadingAt
    rw [hs, inputPressure_typed ps hps' _ r0 _ hsp0 pt sb hb p]
    simp only []
    cases interpLin s0.ps s0.ls (p * sb / spOf ps r0.p) with
    | none => rfl
    | some y =>
      simp only [Option.map_some]
      rw [C03.accessLoadingStored_eq_target _ _ _ _ _ _ _ tn tn,
        accessLoading_routine_typed a mat hc hp _ _ r0 _ hsl0 b u s2 h2 y]
      rfl
  refine ⟨?_, h0⟩
  rw [h0]
  unfold loadingAt
  rw [hcn.lab, inputPressure_typed ps hps' _ rf _ hspf pt sb hb p]
  simp only []
  have hx : p * sb / spOf ps rf.p = p * sb / spOf ps r0.p * (spOf ps r0.p / spOf ps rf.p) := by field_simp
  rw [dps, dls, hx, interpLin_scale_right _ _ hk]
  cases interpLin s0.ps s0.ls (p * sb / spOf ps r0.p) with
  | none => rfl
  | some y =>
    simp only [Option.map_some]
    rw [C03.accessLoadingStored_eq_target _ _ _ _ _ _ _ tn tn,
      accessLoading_routine_typed a mat hc hp _ _ rf _ hslf b u s2 h2 _]
    simp only [Except.map]
    rw [hm] at hslfn hgf ⊢
    congr 2
    field_simp

/-- **A3 (`pressure_at`).**  As `loading_at_after_history`, for the call the isosteric enthalpy makes on every isotherm of
a set: the loading is GIVEN in a physical representation `(b, u)` (basis and unit given, no material argument), the
pressure is requested in a fully specified representation `pt` (e.g. absolute / Pa).  The knots of the interpolation
are now the stored LOADINGS, so the mol-per-unit factors must be positive: `AdsStrictPos a` (positive molar mass and
molar densities) on top of the non-zero conditions of C02.  For ANY history that leaves the material labels alone the
converted isotherm returns what the original returns — the original knots interpolated at `n` expressed in the ORIGINAL
stored loading unit, times Pa-per-original-unit over Pa-per-target-unit. -/
theorem pressure_at_after_history (ps : α) (hps : ps ≠ 0) (a : Ads α) (mat : Mat α) (hc : a.Consistent)
    (hp : a.Pos) (hpp : AdsStrictPos a) (hmp : Mat.Pos mat) (s0 : Iso α) (r0 : Rep) (hs : s0.lab = labelsOf r0)
    (hr : C02.Rep.Valid ps a mat r0) (ops : List Op)
    (hmb : (run (ctxOf ps a mat) s0 ops).lab.mbasis = s0.lab.mbasis)
    (hmu : (run (ctxOf ps a mat) s0 ops).lab.munit = s0.lab.munit)
    (pt : PRep) (sb : α) (hb : pt.scale Gen.pressureUnits ps = some sb)
    (b : LB) (u : String) (s2 : α) (h2 : physScale Gen.unitTable a b u = some s2) (n : α) :
    pressureAt (ctxOf ps a mat) (run (ctxOf ps a mat) s0 ops) n (some pt.mode) pt.unit (some b.name) (some u) none none
      = pressureAt (ctxOf ps a mat) s0 n (some pt.mode) pt.unit (some b.name) (some u) none none ∧
    pressureAt (ctxOf ps a mat) s0 n (some pt.mode) pt.unit (some b.name) (some u) none none
      = .ok ((interpLin s0.ls s0.ps (n * s2 / slOf a r0.l r0.m)).map (· * spOf ps r0.p / sb)) := by
  obtain ⟨rf, hv, _, hcn, dps, dls, _⟩ := C02.run_any_history ps hps a mat hc hp hmp s0 r0 hs hr ops
  obtain ⟨⟨hsp0, hsp0n⟩, ⟨hsl0, hsl0n⟩, ⟨_, hg0⟩⟩ := hr.scales hps hp hmp
  obtain ⟨⟨hspf, hspfn⟩, ⟨hslf, hslfn⟩, ⟨_, hgf⟩⟩ := hv.scales hps hp hmp
  have hm : rf.m = r0.m := rep_m_eq hs hcn.lab hmb hmu
  have hsbn : sb ≠ 0 := C02.scale_ne_zero_gen ps hps pt sb hb
  have hk : 0 < slOf a r0.l r0.m / slOf a rf.l rf.m :=
    div_pos (LRep.scale_pos hpp _ _ _ hsl0) (LRep.scale_pos hpp _ _ _ hslf)
  have h0 : pressureAt (ctxOf ps a mat) s0 n (some pt.mode) pt.unit (some b.name) (some u) none none
      = .ok ((interpLin s0.ls s0.ps (n * s2 / slOf a r0.l r0.m)).map (· * spOf ps r0.p / sb)) := by
    unfold pressureAt
    rw [hs, inputLoading_routine_typed a mat hc hp _ _ r0 _ hsl0 b u s2 h2 n]
    simp only []
    cases interpLin s0.ls s0.ps (n * s2 / slOf a r0.l r0.m) with
    | none => rfl
    | some y =>
      simp only [Option.map_some]
      rw [outputPressurePoint_typed ps hps _ r0 _ hsp0 pt sb hb y]
      rfl
  refine ⟨?_, h0⟩
  rw [h0]
  unfold pressureAt
  rw [hcn.lab, inputLoading_routine_typed a mat hc hp _ _ rf _ hslf b u s2 h2 n]
  simp only []
  have hcf : slOf a r0.l r0.m / gmOf mat r0.m / (slOf a rf.l rf.m / gmOf mat rf.m)
      = slOf a r0.l r0.m / slOf a rf.l rf.m := by
    rw [hm] at hgf ⊢
    field_simp
  have hx : n * s2 / slOf a rf.l rf.m = n * s2 / slOf a r0.l r0.m * (slOf a r0.l r0.m / slOf a rf.l rf.m) := by
    field_simp
  rw [dps, dls, hcf, hx, interpLin_scale_right _ _ hk]
  cases interpLin s0.ls s0.ps (n * s2 / slOf a r0.l r0.m) with
  | none => rfl
  | some y =>
    simp only [Option.map_some]
    rw [outputPressurePoint_typed ps hps _ rf _ hspf pt sb hb _]
    simp only [Except.map]
    congr 2
    field_simp

/-! ### routines that read through the interpolating accessors -/

/-- one isotherm of a set together with the history of conversion calls it went through -/
structure Hist (α : Type) where
  ps : α
  a : Ads α
  mat : Mat α
  s0 : Iso α
  r0 : Rep
  ops : List Op

/-- the hypotheses of `pressure_at_after_history` / `loading_at_after_history` for one member of a set -/
def Hist.Ok (h : Hist α) : Prop :=
  0 < h.ps ∧ h.a.Consistent ∧ h.a.Pos ∧ AdsStrictPos h.a ∧ Mat.Pos h.mat ∧ h.s0.lab = labelsOf h.r0 ∧
  C02.Rep.Valid h.ps h.a h.mat h.r0 ∧
  (run (ctxOf h.ps h.a h.mat) h.s0 h.ops).lab.mbasis = h.s0.lab.mbasis ∧
  (run (ctxOf h.ps h.a h.mat) h.s0 h.ops).lab.munit = h.s0.lab.munit

/-- the isotherm of a set after its history -/
def Hist.final (h : Hist α) : Iso α := run (ctxOf h.ps h.a h.mat) h.s0 h.ops

/-- **A4 (isosteric enthalpy).**  A SET of isotherms, each with its own adsorbate / material constants, saturation
pressure, original representation and history of conversions (a *mixed* set: every member may end up in another
pressure mode / unit and loading unit).  What `isosteric_enthalpy` reads — `pressure_at(n, pressure_mode, pressure_unit,
loading_basis, loading_unit)` of every member at every loading point `n ∈ ns`, with a fully specified pressure target
`pt` (the code asks for absolute / Pa) and the loading given in a physical `(b, u)` — is the same table before and
after; hence so is any function `f` of it (the regression of `ln p` on `1/T`, the enthalpy). -/
theorem isosteric_reads_invariant {β : Type} (f : List (List (Except Err (Option α))) → β) (hs : List (Hist α))
    (hok : ∀ h ∈ hs, h.Ok) (pt : PRep) (hpt : ∀ h ∈ hs, (pt.scale Gen.pressureUnits h.ps).isSome)
    (b : LB) (u : String) (hbu : ∀ h ∈ hs, (physScale Gen.unitTable h.a b u).isSome) (ns : List α) :
    f (hs.map fun h => ns.map fun n =>
        pressureAt (ctxOf h.ps h.a h.mat) h.final n (some pt.mode) pt.unit (some b.name) (some u) none none)
    = f (hs.map fun h => ns.map fun n =>
        pressureAt (ctxOf h.ps h.a h.mat) h.s0 n (some pt.mode) pt.unit (some b.name) (some u) none none) := by
  congr 1
  apply List.map_congr_left
  intro h hh
  apply List.map_congr_left
  intro n _
  obtain ⟨hps, hc, hp, hpp, hmp, hs0, hr, hmb, hmu⟩ := hok h hh
  obtain ⟨sb, hsb⟩ := Option.isSome_iff_exists.1 (hpt h hh)
  obtain ⟨s2, hs2⟩ := Option.isSome_iff_exists.1 (hbu h hh)
  exact (pressure_at_after_history h.ps hps.ne' h.a h.mat hc hp hpp hmp h.s0 h.r0 hs0 hr h.ops hmb hmu pt sb hsb
    b u s2 hs2 n).1

/-- **A4 (alpha-s).**  Sample and reference isotherm converted by independent histories.  What `alpha_s` reads — the
sample's pressure and loading columns (fully specified targets) and the reference's `loading_at(q, pressure_mode,
pressure_unit, loading_basis, loading_unit)` at query pressures `qs` given in a fully specified representation `qt`
(the code SHOULD pass `pressure_mode='relative'`; on the pinned tree it does so only implicitly when the reference is
stored in relative mode, finding S15a) — is the same before and after; hence so is any function of it. -/
theorem alphas_reads_invariant {β : Type}
    (f : List (Except Err α) → List (Except Err α) → List (Except Err (Option α)) → β)
    (smp ref : Hist α) (hsmp : smp.Ok) (href : ref.Ok)
    (pt : PRep) (sb : α) (hb : pt.scale Gen.pressureUnits smp.ps = some sb)
    (b : LB) (u : String) (s2 s2' : α) (h2 : physScale Gen.unitTable smp.a b u = some s2)
    (h2' : physScale Gen.unitTable ref.a b u = some s2')
    (qt : PRep) (sq : α) (hq : qt.scale Gen.pressureUnits ref.ps = some sq) (qs : List α) :
    f (pressureColumn (ctxOf smp.ps smp.a smp.mat) smp.final (some pt.mode) pt.unit)
      (loadingColumn (ctxOf smp.ps smp.a smp.mat) smp.final (some b.name) (some u) none none)
      (qs.map fun q => loadingAt (ctxOf ref.ps ref.a ref.mat) ref.final q (some qt.mode) qt.unit
        (some b.name) (some u) none none)
    = f (pressureColumn (ctxOf smp.ps smp.a smp.mat) smp.s0 (some pt.mode) pt.unit)
      (loadingColumn (ctxOf smp.ps smp.a smp.mat) smp.s0 (some b.name) (some u) none none)
      (qs.map fun q => loadingAt (ctxOf ref.ps ref.a ref.mat) ref.s0 q (some qt.mode) qt.unit
        (some b.name) (some u) none none) := by
  obtain ⟨hps, hc, hp, _, hmp, hs0, hr, hmb, hmu⟩ := hsmp
  obtain ⟨hps', hc', hp', _, hmp', hs0', hr', hmb', hmu'⟩ := href
  obtain ⟨e1, e2⟩ := access_after_history smp.ps hps.ne' smp.a smp.mat hc hp hmp smp.s0 smp.r0 hs0 hr smp.ops hmb hmu
    pt sb hb b u s2 h2
  have e3 : (qs.map fun q => loadingAt (ctxOf ref.ps ref.a ref.mat) ref.final q (some qt.mode) qt.unit
        (some b.name) (some u) none none)
      = qs.map fun q => loadingAt (ctxOf ref.ps ref.a ref.mat) ref.s0 q (some qt.mode) qt.unit
        (some b.name) (some u) none none := by
    apply List.map_congr_left
    intro q _
    exact (loading_at_after_history ref.ps hps' ref.a ref.mat hc' hp' hmp' ref.s0 ref.r0 hs0' hr' ref.ops hmb' hmu'
      qt sq hq b u s2' h2' q).1
  unfold Hist.final at e3 ⊢
  rw [e1, e2, e3]

end At

/-! ## witnesses and non-vacuity (N2-like rationals of C03) -/
section Witness
open PgVerif.Model

/-- interpolation commutes with a change of units: knots ×2, values ×3 -/
example : interpLin (([1, 2, 4] : List ℚ).map fun v => 2 * v) (([10, 20, 40] : List ℚ).map fun v => 3 * v) (2 * 3)
    = (interpLin ([1, 2, 4] : List ℚ) [10, 20, 40] 3).map fun v => 3 * v := by decide +kernel

/-- **the positivity hypothesis of `interpLin_scale` is necessary**: a negative factor reverses the order of the knots
and the query falls "outside the measured range" -/
theorem interpLin_negative_scale_witness :
    interpLin (([1, 2] : List ℚ).map fun v => -1 * v) (([10, 20] : List ℚ).map fun v => 1 * v) (-1 * (3 / 2)) = none ∧
    (interpLin ([1, 2] : List ℚ) [10, 20] (3 / 2)).map (fun v => 1 * v) = some 15 := by decide +kernel

/-- a two-point isotherm stored in bar, mmol/g -/
def isoTwo : Iso ℚ := ⟨C03.labMolar, [1, 2], [2, 6], 77, false, false⟩

/-- `loading_at(1.5 bar)` = 4 mmol/g before and after the isotherm is converted to relative %, mg/g and °C … -/
example :
    loadingAt C03.ctxW isoTwo (3 / 2) (some "absolute") (some "bar") (some "molar") (some "mmol") none none = .ok (some 4) ∧
    loadingAt C03.ctxW (run C03.ctxW isoTwo [.pressure (some "relative%") none, .loading (some "mass") (some "mg"),
        .temperature (some "°C")]) (3 / 2) (some "absolute") (some "bar") (some "molar") (some "mmol") none none
      = .ok (some 4) := by decide +kernel

/-- … and `pressure_at(4 mmol/g)` in Pa = 150000 before and after (the isosteric enthalpy's call) -/
example :
    pressureAt C03.ctxW isoTwo 4 (some "absolute") (some "Pa") (some "molar") (some "mmol") none none = .ok (some 150000) ∧
    pressureAt C03.ctxW (run C03.ctxW isoTwo [.all (some "relative") none (some "volume_gas") (some "cm3") none none,
        .pressure (some "relative%") none]) 4 (some "absolute") (some "Pa") (some "molar") (some "mmol") none none
      = .ok (some 150000) := by decide +kernel

/-- outside the measured range both answer "no value" -/
example :
    loadingAt C03.ctxW (run C03.ctxW isoTwo [.pressure (some "relative") none]) 3 (some "absolute") (some "bar")
      (some "molar") (some "mmol") none none = .ok none := by decide +kernel

/-- the strict positivity hypothesis is satisfiable (the N2-like constants of C03) -/
example : AdsStrictPos C03.n2 := by
  unfold AdsStrictPos C03.n2
  norm_num

/-- the hypotheses bundled in `Hist.Ok` are satisfiable: the two-point isotherm with the history "to relative %, to mg" -/
def histTwo : Hist ℚ :=
  ⟨101325, C03.n2, C03.mat2, isoTwo, ⟨.abs "bar", .phys .molar "mmol", ⟨.mass, "g"⟩, .K⟩,
    [.pressure (some "relative%") none, .loading (some "mass") (some "mg")]⟩

example : histTwo.Ok := by
  unfold Hist.Ok AdsStrictPos C02.Rep.Valid Spec.Ads.Consistent Spec.Ads.Pos Units.Mat.Pos
  refine ⟨by decide +kernel, by decide +kernel, by decide +kernel, by decide +kernel, by decide +kernel, rfl,
    ⟨by decide +kernel, by decide +kernel, by decide +kernel, Or.inl rfl⟩, by decide +kernel, by decide +kernel⟩

end Witness
end PgVerif.Props.C15
