/-
Tie lemmas: what the code says now (`Gen.R.*`, regenerated from modelling/*.py on every run) is the published
equation (`Spec.M.*`).  One-liners on purpose: a harmless algebraic rewrite of the Python still closes,
a changed formula does not.
-/
import PgVerif.Gen.ModelsR
import PgVerif.Spec.Models
import Mathlib.Tactic

namespace PgVerif.Tie
open PgVerif.Gen.R PgVerif.Spec.M

/-- closes `Gen = Spec` up to field algebra -/
macro "tie" : tactic =>
  `(tactic| first
    | rfl
    | (simp only [nanToZero]; ring_nf; done)
    | (simp only [nanToZero, Real.rpow_eq_pow]; ring_nf; done)
    | (simp only [nanToZero, Real.rpow_eq_pow]; field_simp; done)
    | (simp only [nanToZero, Real.rpow_eq_pow]; field_simp; ring_nf; done))

theorem henry_loading (K p : ℝ) : Henry_loading K p = henry K p := by unfold Henry_loading henry; tie
theorem henry_pressure (K n : ℝ) : Henry_pressure K n = henryInv K n := by unfold Henry_pressure henryInv; tie
theorem henry_spread (K p : ℝ) : Henry_spreading_pressure K p = henrySpread K p := by
  unfold Henry_spreading_pressure henrySpread; tie

theorem langmuir_loading (K nm p : ℝ) : Langmuir_loading K nm p = langmuir K nm p := by
  unfold Langmuir_loading langmuir; tie
theorem langmuir_pressure (K nm n : ℝ) : Langmuir_pressure K nm n = langmuirInv K nm n := by
  unfold Langmuir_pressure langmuirInv; tie
theorem langmuir_spread (K nm p : ℝ) : Langmuir_spreading_pressure K nm p = langmuirSpread K nm p := by
  unfold Langmuir_spreading_pressure langmuirSpread; tie

theorem dslangmuir_loading (nm1 K1 nm2 K2 p : ℝ) :
    DSLangmuir_loading nm1 K1 nm2 K2 p = dslangmuir nm1 K1 nm2 K2 p := by
  unfold DSLangmuir_loading dslangmuir langmuir; tie
theorem dslangmuir_spread (nm1 K1 nm2 K2 p : ℝ) :
    DSLangmuir_spreading_pressure nm1 K1 nm2 K2 p = dslangmuirSpread nm1 K1 nm2 K2 p := by
  unfold DSLangmuir_spreading_pressure dslangmuirSpread langmuirSpread; tie

theorem tslangmuir_loading (nm1 nm2 nm3 K1 K2 K3 p : ℝ) :
    TSLangmuir_loading nm1 nm2 nm3 K1 K2 K3 p = tslangmuir nm1 nm2 nm3 K1 K2 K3 p := by
  unfold TSLangmuir_loading tslangmuir langmuir; tie
theorem tslangmuir_spread (nm1 nm2 nm3 K1 K2 K3 p : ℝ) :
    TSLangmuir_spreading_pressure nm1 nm2 nm3 K1 K2 K3 p = tslangmuirSpread nm1 nm2 nm3 K1 K2 K3 p := by
  unfold TSLangmuir_spreading_pressure tslangmuirSpread langmuirSpread; tie

theorem bet_loading (nm C N p : ℝ) : BET_loading nm C N p = bet nm C N p := by unfold BET_loading bet; tie
theorem bet_spread (nm C N p : ℝ) : BET_spreading_pressure nm C N p = betSpread nm C N p := by
  unfold BET_spreading_pressure betSpread; tie

theorem gab_loading (nm C K p : ℝ) : GAB_loading nm C K p = gab nm C K p := by unfold GAB_loading gab; tie
theorem gab_spread (nm C K p : ℝ) : GAB_spreading_pressure nm C K p = gabSpread nm C K p := by
  unfold GAB_spreading_pressure gabSpread; tie

theorem freundlich_loading (K m p : ℝ) : Freundlich_loading K m p = freundlich K m p := by
  unfold Freundlich_loading freundlich; tie
theorem freundlich_pressure (K m n : ℝ) : Freundlich_pressure K m n = freundlichInv K m n := by
  unfold Freundlich_pressure freundlichInv; tie
theorem freundlich_spread (K m p : ℝ) : Freundlich_spreading_pressure K m p = freundlichSpread K m p := by
  unfold Freundlich_spreading_pressure freundlichSpread; tie

theorem dr_loading (nm e mrt p : ℝ) : DR_loading nm e mrt p = dr nm e mrt p := by unfold DR_loading dr; tie
theorem dr_pressure (nm e mrt n : ℝ) : DR_pressure nm e mrt n = drInv nm e mrt n := by unfold DR_pressure drInv; tie
theorem da_loading (nm e m mrt p : ℝ) : DA_loading nm e m mrt p = da nm e m mrt p := by unfold DA_loading da; tie
theorem da_pressure (nm e m mrt n : ℝ) : DA_pressure nm e m mrt n = daInv nm e m mrt n := by
  unfold DA_pressure daInv; tie

theorem quadratic_loading (nm Ka Kb p : ℝ) : Quadratic_loading nm Ka Kb p = quadratic nm Ka Kb p := by
  unfold Quadratic_loading quadratic; tie
theorem quadratic_spread (nm Ka Kb p : ℝ) : Quadratic_spreading_pressure nm Ka Kb p = quadraticSpread nm Ka Kb p := by
  unfold Quadratic_spreading_pressure quadraticSpread; tie

theorem temkin_loading (nm K tht p : ℝ) : TemkinApprox_loading nm K tht p = temkin nm K tht p := by
  unfold TemkinApprox_loading temkin; tie
theorem temkin_spread (nm K tht p : ℝ) : TemkinApprox_spreading_pressure nm K tht p = temkinSpreadLib nm K tht p := by
  unfold TemkinApprox_spreading_pressure temkinSpreadLib; tie

theorem toth_loading (nm K t p : ℝ) : Toth_loading nm K t p = toth nm K t p := by unfold Toth_loading toth; tie
theorem toth_pressure (nm K t n : ℝ) : Toth_pressure nm K t n = tothInv nm K t n := by unfold Toth_pressure tothInv; tie

theorem jensenseaton_loading (K a b c p : ℝ) : JensenSeaton_loading K a b c p = jensenSeaton K a b c p := by
  unfold JensenSeaton_loading jensenSeaton; tie

theorem virial_pressure (K A B C n : ℝ) : Virial_pressure K A B C n = virialP K A B C n := by
  unfold Virial_pressure virialP; tie
theorem fhvst_pressure (nm K a1v n : ℝ) : FHVST_pressure nm K a1v n = fhvstP nm K a1v n := by
  unfold FHVST_pressure fhvstP; tie
theorem wvst_pressure (nm K L1v Lv1 n : ℝ) : WVST_pressure nm K L1v Lv1 n = wvstP nm K L1v Lv1 n := by
  unfold WVST_pressure wvstP; tie

end PgVerif.Tie
