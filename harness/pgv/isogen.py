"""Seeded generators of isotherm *contents* (plain python descriptions) and builders of real objects from them.
Used by C05 (identity), C06 (JSON), C07 (CSV/Excel/AIF).
`content(..., missing=True)` (C06 only; default False = exactly the former draws) adds missing values: see `punch_missing`."""
import math

from pgv.models import REL_ONLY, make, sample_params

PA = ["Pa", "kPa", "MPa", "mbar", "bar", "atm", "mmHg", "torr"]
LOAD = {"molar": ["mmol", "mol", "kmol", "cm3(STP)", "mL(STP)", "cc(STP)", "L(STP)"], "mass": ["amu", "mg", "cg", "dg", "g", "kg"],
        "volume_gas": ["cm3", "mL", "cc", "dm3", "L", "m3"], "volume_liquid": ["cm3", "mL", "cc", "dm3", "L", "m3"]}
MAT = {"mass": ["amu", "mg", "cg", "dg", "g", "kg"], "volume": ["cm3", "mL", "cc", "dm3", "L", "m3"], "molar": ["mmol", "mol", "kmol"]}
RESERVED = {"material", "adsorbate", "temperature", "m", "t", "a", "pressure", "loading", "isotherm_data", "pressure_key", "loading_key", "branch",
            "model", "param_guess", "param_bounds", "optimization_params", "verbose", "file_version", "isotherm_data", "isotherm_model",
            "pressure_mode", "pressure_unit", "loading_basis", "loading_unit", "material_basis", "material_unit", "temperature_unit",
            "other_keys", "data_raw", "l_interpolator", "p_interpolator", "_material", "_adsorbate", "_temperature", "plot_fit"}
TEXTS = ["plain", "two words", "ünïcödé µ°", "1e5", "True", "None", "[1,2]", "a,b;c", "  padded ", "", "0", "-3", "3.0", "nan", "x=y", "quote'd", 'dq"uote', "tab\tbed"]
KEYS = ["project", "user", "machine", "iso_type", "lab", "t_act", "comment", "DOI", "date", "is_real", "n_runs", "tags", "note_2", "ünï_key", "with space"]


def units(rng):
    pm = rng.choice(["absolute"] * 3 + ["relative", "relative%"])
    lb = rng.choice(["molar"] * 3 + ["mass", "volume_gas", "volume_liquid", "fraction", "percent"])
    mb = rng.choice(["mass"] * 3 + ["volume", "molar"])
    return {"pressure_mode": pm, "pressure_unit": rng.choice(PA) if pm == "absolute" else None,
            "loading_basis": lb, "loading_unit": rng.choice(LOAD[lb]) if lb in LOAD else None,
            "material_basis": mb, "material_unit": rng.choice(MAT[mb]), "temperature_unit": rng.choice(["K", "K", "°C"])}


# floats whose shortest spelling uses an exponent (round 6, C07-m11: a hand-written number pattern that knew 'e-NN' but not 'e+NN')
TEXT_FLOATS = [6.02214076e+23, 1e+16, -1.5e+16, 2.5e-07, 1e22, 1.7976931348623157e308, 5e-324, 1e-5, -3.25e-11, 123456789012345680.0]


def meta_value(rng, domain="json"):
    r = rng.random()
    if r < 0.3:
        return rng.choice(TEXTS) if domain == "json" else rng.choice(["plain", "ünïcödé", "x=y", "word_1", "MOF-5"])
    if r < 0.45:
        return rng.randint(-5, 10 ** rng.randint(0, 12))
    if r < 0.62:
        return rng.choice([0.0, -0.0, 1.5, -2.25, 1e-320, 1.7976931348623157e308, 3.141592653589793, 1e22, 0.1 + 0.2]) if domain == "json" else \
            (rng.choice(TEXT_FLOATS) if rng.random() < 0.25 else round(rng.uniform(-50, 500), 4))
    if r < 0.72:
        return rng.random() < 0.5
    if r < 0.78:
        return None
    if domain != "json":
        return rng.choice(["plain", "word_2"])
    if r < 0.92:
        return [meta_value(rng) for _ in range(rng.randint(0, 3)) if True][:3] if rng.random() < 0.5 else [rng.randint(0, 9) for _ in range(rng.randint(1, 4))]
    return rng.choice(TEXTS)


def metadata(rng, domain="json", n=None):
    keys = rng.sample(KEYS if domain == "json" else [k for k in KEYS if " " not in k and k.isascii()], n if n is not None else rng.randint(0, 6))
    out = {}
    for k in keys:
        v = meta_value(rng, domain)
        if isinstance(v, list) and any(isinstance(x, list) for x in v):
            v = [x for x in v if not isinstance(x, list)]
        out[k] = v
    return out


def content(rng, kind=None, domain="json", missing=False):
    """A plain description: everything needed to build the isotherm by any route.
    `missing` (default False = the behaviour C05/C07 rely on: same draws from `rng`, no missing cell anywhere): when true, a further
    step AFTER all the usual draws punches missing values into the content — see `punch_missing`."""
    kind = kind or rng.choice(["base", "point", "point", "model"])
    c = {"kind": kind, "units": units(rng), "meta": metadata(rng, domain),
         "material": rng.choice(["zeolite-X", "MOF-5", "carbon black", "mat_ü"]) if domain == "json" else rng.choice(["zeoliteX", "MOF-5", "carbon"]),
         "material_props": ({"density": round(rng.uniform(0.5, 3), 3), "batch": rng.choice(["b1", "b2"])} if rng.random() < 0.3 else {}),
         "adsorbate": rng.choice(["N2", "CO2", "argon", "pgv_custom_gas"]),
         "temperature": rng.choice([77.355, 273.15, 298.0, 87.3]) if True else 0}
    if c["units"]["temperature_unit"] == "°C":
        c["temperature"] = round(c["temperature"] - 273.15, 3)
    if kind == "point":
        n = rng.choice([1, 2, 3, 5, 8, 13, 40]) if domain == "json" else rng.choice([2, 3, 5, 8, 13])
        rel = c["units"]["pressure_mode"] != "absolute"
        top = (0.99 if c["units"]["pressure_mode"] == "relative" else 99.0) if rel else 10.0
        ps = sorted(rng.uniform(top * 1e-4, top) for _ in range(n))
        ls = [rng.uniform(0, 8) for _ in range(n)]
        if rng.random() < 0.2:
            ps[0], ls[0] = 0.0, 0.0            # a measured origin: pressure exactly zero
        mode = rng.choice(["ads-only", "ads-only", "two", "des-only", "user"])
        if mode == "two" and n >= 2:
            k = rng.randint(1, n - 1)
            des_p = sorted((rng.uniform(top * 1e-4, ps[-1]) for _ in range(k)), reverse=True)
            branch = [0] * n + [1] * k
            ps = ps + des_p
            ls = ls + [rng.uniform(0, 9) for _ in range(k)]
        elif mode == "des-only":
            ps = list(reversed(ps))
            branch = [1] * n
        elif mode == "user":
            branch = [rng.choice([0, 1]) for _ in range(n)]
            if rng.random() < 0.3 and n >= 3:
                # all points declared adsorption although the pressure goes down at the end
                ps = ps[:-1] + [ps[0] * 0.5]
                branch = [0] * n
        else:
            branch = [0] * n
        c["pressure"], c["loading"], c["branch"] = ps, ls, branch
        c["extra"] = {}
        if rng.random() < 0.5:
            c["extra"]["enthalpy"] = [round(rng.uniform(1, 40), 6) for _ in ps]
        if rng.random() < 0.3 and domain == "json":
            c["extra"]["phase"] = [rng.choice(["ads", "des", "x", "1"]) for _ in ps]
        if rng.random() < 0.2:
            c["extra"]["counter"] = [int(i) for i in range(len(ps))]
    elif kind == "model":
        name = rng.choice(["Henry", "Langmuir", "DSLangmuir", "TSLangmuir", "BET", "GAB", "Freundlich", "DR", "DA", "Quadratic", "TemkinApprox", "Toth",
                           "JensenSeaton", "Virial", "FHVST", "WVST"])
        c["model"] = {"name": name, "params": sample_params(name, rng), "rmse": rng.uniform(0, 0.1),
                      "pressure_range": sorted([rng.uniform(0.001, 0.1), rng.uniform(0.2, 0.95)]), "loading_range": sorted([rng.uniform(0, 1), rng.uniform(1.1, 9)])}
        c["model_branch"] = "ads"
    if missing:
        punch_missing(rng, c, domain)
    return c


NAN = float("nan")


def punch_missing(rng, c, domain="json"):
    """Missing values (the part of the data domain that the default generator never reaches).
    point: NaN cells in extra numeric columns (a quantity not recorded at every point), None cells in text columns, a flag column of
    bools with gaps, an all-missing column, NaN in pressure / loading (few cells, or — pressure — every cell: no pressure recorded at all);
    independent of the branch layout drawn before, so every layout meets every kind of gap.
    model: no fit error / no ranges handed over (the model then carries NaN for them), exact zeros (perfect fit, range starting at 0),
    a model of the desorption branch.
    Records what was done under c["missing"] (for signatures and replays)."""
    done = []
    if c["kind"] == "point":
        n = len(c["pressure"])
        ex = c["extra"]

        def holes(density):
            if density == "all":
                return list(range(n))
            if density == "alternate":
                return list(range(rng.randint(0, 1), n, 2))
            if density == "tail":
                return list(range(rng.randint(0, n - 1), n))
            return sorted(rng.sample(range(n), rng.randint(1, max(1, n // 3))))

        def density():
            return rng.choice(["few", "few", "alternate", "tail", "all"])
        if "enthalpy" not in ex and rng.random() < 0.6:
            ex["enthalpy"] = [round(rng.uniform(1, 40), 6) for _ in range(n)]
        if "phase" not in ex and domain == "json" and rng.random() < 0.35:
            ex["phase"] = [rng.choice(["ads", "des", "x", "1"]) for _ in range(n)]
        if rng.random() < 0.25:
            ex["valid"] = [rng.random() < 0.5 for _ in range(n)]
        for name in list(ex):
            if rng.random() < 0.75:
                d = density()
                hs = holes(d)
                numeric = name in ("enthalpy", "counter")
                ex[name] = [(NAN if numeric else None) if i in hs else v for i, v in enumerate(ex[name])]
                done.append(f"{name}:{d}")
        if rng.random() < 0.3:
            # "all": NO pressure recorded at any point (S54-C06: with all points adsorption the document carries no branch key and the reader's
            # branch guess had nothing to take the maximum of: pandas' ValueError out of `split_ads_data`; repaired in the repository).
            # A one-point table with a gap in the pressure is the same thing.
            d = "all" if (n == 1 or rng.random() < 0.35) else "few"
            hs = holes(d)
            if d == "few":
                hs = hs[:n - 1]
            c["pressure"] = [NAN if i in hs else v for i, v in enumerate(c["pressure"])]
            done.append(f"pressure:{d}")
        if rng.random() < 0.25:
            d = rng.choice(["few", "tail"])
            hs = holes(d)
            c["loading"] = [NAN if i in hs else v for i, v in enumerate(c["loading"])]
            done.append(f"loading:{d}")
    elif c["kind"] == "model":
        m = c["model"]
        r = rng.random()
        if r < 0.25:
            m["rmse"] = None
            done.append("rmse:absent")
        elif r < 0.45:
            m["rmse"] = 0.0
            done.append("rmse:zero")
        r = rng.random()
        if r < 0.25:
            m["pressure_range"] = m["loading_range"] = None
            done.append("ranges:absent")
        elif r < 0.5:
            m["loading_range"] = [0.0, m["loading_range"][1]]
            m["pressure_range"] = [0.0, m["pressure_range"][1]] if rng.random() < 0.5 else m["pressure_range"]
            done.append("ranges:zero")
        if rng.random() < 0.3:
            c["model_branch"] = "des"              # a model of the desorption branch
            done.append("model_branch:des")
    c["missing"] = done



def build(pg, c, route="default", rng=None):
    """A real isotherm from a content description.  `route` varies how the same content is handed over."""
    import numpy as np
    import pandas as pd
    from pygaps.core.baseisotherm import BaseIsotherm
    mat = c["material"] if not c["material_props"] else {"name": c["material"], **c["material_props"]}
    if route == "material-object" and c["material_props"]:
        mat = pg.Material(c["material"], **c["material_props"])
    common = dict(material=mat, adsorbate=c["adsorbate"], temperature=c["temperature"], **c["units"], **c["meta"])
    if route == "shorthand":
        common["m"], common["a"], common["t"] = common.pop("material"), common.pop("adsorbate"), common.pop("temperature")
    if c["kind"] == "base":
        return BaseIsotherm(**common)
    if c["kind"] == "model":
        m = c["model"]
        from pygaps.modelling import get_isotherm_model
        opt = {k: (tuple(m[k]) if isinstance(m[k], list) else m[k]) for k in ("rmse", "pressure_range", "loading_range") if m.get(k) is not None}
        model = get_isotherm_model(m["name"], parameters={k: np.float64(v) for k, v in m["params"].items()}, **opt)
        return pg.ModelIsotherm(model=model, branch=c["model_branch"], **common)
    ps, ls, br = c["pressure"], c["loading"], c["branch"]
    cols = {"pressure": ps, "loading": ls, **c["extra"]}
    if route == "arrays" and not c["extra"]:
        return pg.PointIsotherm(pressure=list(ps), loading=list(ls), branch=list(br), **common)
    if route == "tuples" and not c["extra"]:
        return pg.PointIsotherm(pressure=tuple(ps), loading=tuple(ls), branch=list(br), **common)
    if route == "numpy" and not c["extra"]:
        return pg.PointIsotherm(pressure=np.array(ps), loading=np.array(ls), branch=np.array(br), **common)
    df = pd.DataFrame(cols)
    if route == "index-shift":
        df.index = range(5, 5 + len(ps))
    elif route == "index-str":
        df.index = [f"row{i}" for i in range(len(ps))]
    elif route == "index-shuffled-labels":
        df.index = list(reversed(range(len(ps))))
    elif route == "column-order":
        df = df[list(reversed(df.columns))]
    elif route == "branch-column":
        df["branch"] = br
        return pg.PointIsotherm(isotherm_data=df, pressure_key="pressure", loading_key="loading", **common)
    return pg.PointIsotherm(isotherm_data=df, pressure_key="pressure", loading_key="loading", branch=list(br), **common)


def observe(pg, iso):
    """Observable content of a real isotherm, as plain data (for comparisons)."""
    d = iso.to_dict()
    out = {"class": type(iso).__name__, "dict": d}
    if isinstance(iso, pg.PointIsotherm):
        raw = iso.data_raw
        out["columns"] = {c: raw[c].tolist() for c in raw.columns}
    elif isinstance(iso, pg.ModelIsotherm):
        out["model"] = iso.model.to_dict()
    return out


def same_value(a, b, tol=0.0):
    if isinstance(a, bool) or isinstance(b, bool):
        return type(a) is type(b) and a == b
    if isinstance(a, (int, float)) and isinstance(b, (int, float)):
        if type(a) is not type(b):
            return False
        if isinstance(a, float) and (math.isnan(a) and math.isnan(b)):
            return True
        return a == b or (tol and abs(a - b) <= tol * max(abs(a), abs(b)))
    if isinstance(a, (list, tuple)) and isinstance(b, (list, tuple)):
        return len(a) == len(b) and all(same_value(x, y, tol) for x, y in zip(a, b))
    if isinstance(a, dict) and isinstance(b, dict):
        return set(a) == set(b) and all(same_value(a[k], b[k], tol) for k in a)
    return type(a) is type(b) and a == b
