"""Write operations that fail part-way BY THEMSELVES — no proxy, no injected fault (used by props/c09.py only).

Property C09 quantifies over "some statement is rejected".  The sqlite3 driver rejects a statement while it BINDS its parameters when
a user-supplied value cannot be handed to SQLite: an int outside 64 bit (`OverflowError: Python int too large to convert to SQLite
INTEGER`), a str holding a lone surrogate (`UnicodeEncodeError`); the module itself gives up between two statements when a data column
has a cell type it cannot store (`ParsingError` from `find_SQL_python_type`) or one `json.dumps` cannot serialise (`TypeError`).
None of these is a `sqlite3.Error` (Model/Store.lean: `SqlErr.foreign`).  Such a value may sit at ANY position of the statement
sequence of an upload: the name (first statement), the j-th property key (auto-insertion of property types), the j-th property value or
list element, the j-th metadata key / value of an isotherm, the material auto-inserted on the way, the name or the cells of a data
column (the very last statements).

A `Spec` is one valid write operation given as plain data; `spec.positions()` enumerates the places where a user value goes;
`spec.build(pg, pgsql, position, poison)` gives the call with that one value replaced (`position=None`: the valid operation itself =
what the user repeats after repairing the input; its model request line is `spec.model_line`).  Both calls issue the same statements
up to the rejected one, so the model's `runOp … (k, .foreign)` of the VALID operation describes the failed call, k = the index of the
`cursor.execute` call that raised (observed by a counting proxy in a separate run).
"""
import copy

from . import storelib as sl

#: ints SQLite cannot take (the 64 bit boundary on both sides, a 128 bit identifier as `uuid.UUID.int` gives, a decimal giant)
BIG_INTS = [2 ** 63, -2 ** 63 - 1, 0x6f1c7b0e3d2a4c589e0b7a5d1c2e4f90, 10 ** 30, 2 ** 64 + 12345]
#: strs the driver cannot encode as UTF-8 (text decoded with errors='surrogateescape', a lone high / low surrogate)
BAD_STRS = [b"caf\xe9 batch".decode("utf-8", errors="surrogateescape"), "\ud800", "lot\udfff7"]


def poisons_for(accepts):
    """the poison values for a position: `accepts` = 'str' (a name / key: must stay a str) or 'any' (a value)"""
    return [("surrogate-str", v) for v in BAD_STRS] + ([("big-int", v) for v in BIG_INTS] if accepts == "any" else [])


def _expand(props):
    """[(key, value or list)] -> positions ('key', i) / ('value', i, j or None)"""
    out = []
    for i, (k, v) in enumerate(props):
        out.append((("key", i), "str"))
        if isinstance(v, list):
            out += [(("value", i, j), "any") for j in range(len(v))]
        else:
            out.append((("value", i, None), "any"))
    return out


def _poisoned_props(props, position, poison):
    props = copy.deepcopy(props)
    if position is None:
        return props
    if position[0] == "key":
        props[position[1]] = (poison, props[position[1]][1])
    elif position[0] == "value":
        i, j = position[1], position[2]
        if j is None:
            props[i] = (props[i][0], poison)
        else:
            props[i][1][j] = poison
    return props


class EntitySpec:
    """material_to_db / adsorbate_to_db of an item with ordered properties, new or overwrite"""

    def __init__(self, what, name, props, overwrite=False):
        self.what, self.name, self.props, self.overwrite = what, name, props, overwrite
        self.label = f"{'material' if what == 'mat' else 'adsorbate'}_to_db({'overwrite' if overwrite else 'new'})"
        self.model_line = None

    def positions(self):
        return [(("name",), "str")] + _expand(self.props)

    def build(self, pg, pgsql, position=None, poison=None):
        name = poison if position == ("name",) else self.name
        props = dict(_poisoned_props(self.props, position, poison))
        if len(props) != len(self.props):
            return None                     # the poisoned key collides with another key: not the same operation shape
        cls, fn = (pg.Material, pgsql.material_to_db) if self.what == "mat" else (pg.Adsorbate, pgsql.adsorbate_to_db)
        o = cls(name, **props)
        if position is None:
            full = dict(o.to_dict())
            full.pop("name")
            self.model_line = " ".join(["matToDb" if self.what == "mat" else "adsToDb", self.name, "T", "T" if self.overwrite else "F"] + sl.props_tokens(full))
        return lambda p, o=o: fn(o, db_path=p, overwrite=self.overwrite, verbose=False)


class IsoSpec:
    """isotherm_to_db of a Base / Point / Model isotherm: material by name or as an object with properties (auto-inserted when unknown),
    ordered metadata, supplementary data columns (PointIsotherm)"""

    def __init__(self, cls, material, adsorbate, temperature, meta, mat_props=None, columns=(), label=None):
        self.cls, self.material, self.adsorbate, self.temperature = cls, material, adsorbate, temperature
        self.meta, self.mat_props, self.columns = meta, mat_props, list(columns)
        self.label = label or f"isotherm_to_db({cls})"
        self.model_line = None

    def positions(self):
        out = [(("material-name",), "str")]
        if self.mat_props is not None:
            out += [((("material",) + pos), acc) for pos, acc in _expand(self.mat_props)]
        out += [((("meta",) + pos), acc) for pos, acc in _expand(self.meta)]
        for i, _ in enumerate(self.columns):
            out.append((("column-name", i), "str"))
            out.append((("column-cells", i), "cells"))
        return out

    def build(self, pg, pgsql, position=None, poison=None):
        import pandas as pd
        from pygaps.core.baseisotherm import BaseIsotherm
        from .models import make
        position = position or ()
        mname = poison if position == ("material-name",) else self.material
        material = mname
        if self.mat_props is not None:
            mp = dict(_poisoned_props(self.mat_props, position[1:] if position[:1] == ("material",) else None, poison))
            if len(mp) != len(self.mat_props):
                return None
            material = pg.Material(mname, **mp)
        meta = dict(_poisoned_props(self.meta, position[1:] if position[:1] == ("meta",) else None, poison))
        if len(meta) != len(self.meta):
            return None
        common = dict(material=material, adsorbate=self.adsorbate, temperature=self.temperature, **meta)
        if self.cls == "base":
            iso = BaseIsotherm(**common)
        elif self.cls == "model":
            iso = pg.ModelIsotherm(model=make(pg, "Langmuir", {"K": 1.5, "n_m": 4.5}), **common)
        else:
            df = pd.DataFrame({"pressure": [0.1, 0.3, 0.6, 0.9], "loading": [1.0, 2.0, 2.5, 3.0]})
            for i, (cname, cells) in enumerate(self.columns):
                if position == ("column-name", i):
                    cname = poison
                if position == ("column-cells", i):
                    cells = poison
                df[cname] = pd.Series(list(cells), dtype=object if any(isinstance(c, (bytes, set)) for c in cells) else None)
            iso = pg.PointIsotherm(isotherm_data=df, pressure_key="pressure", loading_key="loading", **common)
        if not position:
            self.model_line = sl.iso_line(sl.iso_description(pg, iso), True, True)
        return lambda p, iso=iso: pgsql.isotherm_to_db(iso, db_path=p, verbose=False)


#: cells of a supplementary data column the module cannot store: no supported SQL type for the first cell (its own ParsingError,
#: raised between two statements), or a cell json.dumps refuses (TypeError, likewise between two statements)
BAD_CELLS = [("complex-cells", [1j, 2j, 3j, 4j]), ("unserialisable-cell", [1.5, b"raw", 2.5, 3.5])]


class TypeSpec:
    """the three `*_type_to_db` functions (one INSERT / UPDATE)"""

    def __init__(self, table, td, overwrite=False):
        self.table, self.td, self.overwrite = table, td, overwrite
        self.label = f"{table}_type_to_db{'(overwrite)' if overwrite else ''}"
        u = self.td.get("unit", '""') if table != "isotherm" else '""'
        self.model_line = f'typeToDb {table} {td["type"]} {u} {td.get("description", chr(34) * 2)} {"T" if overwrite else "F"}'

    def positions(self):
        return [((key,), "any" if key != "type" else "str") for key in self.td]

    def build(self, pg, pgsql, position=None, poison=None):
        td = dict(self.td)
        if position is not None:
            td[position[0]] = poison
        fn = {"adsorbate": pgsql.adsorbate_property_type_to_db, "material": pgsql.material_property_type_to_db, "isotherm": pgsql.isotherm_type_to_db}[self.table]
        return lambda p, td=td: fn(dict(td), db_path=p, overwrite=self.overwrite, verbose=False)


class DeleteSpec:
    """the deletions by name / id (the SELECT that looks the item up is the statement that is rejected)"""

    def __init__(self, what, key, model_line):
        self.what, self.key, self.model_line = what, key, model_line
        self.label = f"{what}_delete_db"

    def positions(self):
        return [(("key",), "any")]

    def build(self, pg, pgsql, position=None, poison=None):
        key = self.key if position is None else poison
        fn = getattr(pgsql, f"{self.what}_delete_db")
        return lambda p, key=key: fn(key, db_path=p, verbose=False)


def specs(variant, stored_isos):
    """The valid operations whose user values are poisoned one at a time, for a database with the prior content of `variant`
    (props/c09.py `prepare`: materials matA {density, batch} / matB {}, adsorbates adsA {formula, mass, alias} / adsB {mass}; variant >= 1:
    two isotherms; variant >= 2: matC, adsC, spare types)."""
    out = [
        EntitySpec("mat", "matP", [("density", 3.25), ("batch_uid", "b-17"), ("grade", 7.5), ("tags", ["t1", "t2", "t3"]), ("supplier", "s1")]),
        EntitySpec("mat", "matA", [("density", 2.75), ("lot", "n4"), ("sieved", 0.25)], overwrite=True),
        EntitySpec("ads", "adsP", [("mass", 16.5), ("alias", ["adsp", "pp", "pq"]), ("newprop", "x1"), ("grade", 2.5)]),
        EntitySpec("ads", "adsA", [("mass", 29.5), ("other", "y1"), ("third", 3.5)], overwrite=True),
        IsoSpec("point", "matQ", "adsQ", 77.5, [("operator", "me"), ("sample_uid", "u-1"), ("run_no", 3.5), ("lab", "l2"), ("checked", True)],
                mat_props=[("density", 1.75), ("batch_uid", "b-2"), ("comment", "as-received")],
                columns=[("enth", [5.5, 6.5, 7.5, 8.5]), ("zone", [1.25, 2.25, 3.25, 4.25])],
                label="isotherm_to_db(point, auto-insert material with properties + adsorbate, two supplementary columns)"),
        IsoSpec("base", "matA", "adsA", 121.5, [("user", "u3"), ("n_runs", 2.5), ("rig", "r1"), ("note", "n")], label="isotherm_to_db(base, stored material and adsorbate)"),
        IsoSpec("model", "matB", "adsQ2", 91.5, [("project", "p2"), ("fit_uid", "f-9"), ("quality", 0.5)], label="isotherm_to_db(model, auto-insert adsorbate)"),
        TypeSpec("material", {"type": "tPoison", "unit": "u", "description": "d"}),
        TypeSpec("adsorbate", {"type": "mass", "unit": "u2", "description": "upd"}, overwrite=True),
        TypeSpec("isotherm", {"type": "tPoison", "description": "d"}),
        DeleteSpec("material", "matB", "matDelete matB"),
        DeleteSpec("adsorbate", "adsA" if variant == 0 else "adsB", "adsDelete adsA" if variant == 0 else "adsDelete adsB"),
    ]
    if variant >= 1:
        out.append(DeleteSpec("isotherm", stored_isos[1].iso_id, f"isoDelete {stored_isos[1].iso_id}"))
    return out
