"""Shared helpers for the model-equation properties (C10, C11, C12, C13): samplers, grids, Float transport."""
import math
import struct

R_GAS = 8.31446261815324


def bits(x):
    return str(struct.unpack(">Q", struct.pack(">d", float(x)))[0])


def unbits(s):
    return struct.unpack(">d", struct.pack(">Q", int(s)))[0]


def logu(rng, lo, hi):
    return math.exp(rng.uniform(math.log(lo), math.log(hi)))


# model -> sampler of (params dict, extra attrs dict)
def sample_params(name, rng):
    u = lambda: logu(rng, 1e-3, 1e3)          # noqa
    cap = lambda: logu(rng, 1e-2, 1e2)        # noqa
    if name == "Henry":
        return {"K": u()}
    if name == "Langmuir":
        return {"K": u(), "n_m": cap()}
    if name == "DSLangmuir":
        return {"n_m1": cap(), "K1": u(), "n_m2": cap(), "K2": u()}
    if name == "TSLangmuir":
        return {"n_m1": cap(), "n_m2": cap(), "n_m3": cap(), "K1": u(), "K2": u(), "K3": u()}
    if name == "BET":
        return {"n_m": cap(), "C": logu(rng, 1e-1, 1e3), "N": rng.uniform(0.02, 0.98)}
    if name == "GAB":
        return {"n_m": cap(), "C": logu(rng, 1e-1, 1e3), "K": rng.uniform(0.02, 0.98)}
    if name == "Freundlich":
        return {"K": u(), "m": logu(rng, 0.3, 8)}
    if name == "DR":
        return {"n_m": cap(), "e": logu(rng, 2e3, 3e4)}
    if name == "DA":
        return {"n_m": cap(), "e": logu(rng, 2e3, 3e4), "m": rng.uniform(1, 3)}
    if name == "Quadratic":
        return {"n_m": cap(), "Ka": u(), "Kb": u()}
    if name == "TemkinApprox":
        return {"n_m": cap(), "K": u(), "tht": rng.uniform(0, 3)}
    if name == "Toth":
        return {"n_m": cap(), "K": u(), "t": logu(rng, 0.25, 4)}
    if name == "JensenSeaton":
        return {"K": u(), "a": cap(), "b": logu(rng, 1e-3, 1e1), "c": logu(rng, 0.25, 4)}
    if name == "Virial":
        return {"K": u(), "A": rng.uniform(0, 1), "B": rng.uniform(0, 0.3), "C": rng.uniform(0, 0.05)}
    if name == "FHVST":
        return {"n_m": cap(), "K": u(), "a1v": rng.uniform(0, 2)}
    if name == "WVST":
        return {"n_m": cap(), "K": u(), "L1v": rng.uniform(0.15, 1), "Lv1": rng.uniform(0.15, 1)}
    raise KeyError(name)


SAT = {"Langmuir": lambda p: p["n_m"], "DSLangmuir": lambda p: p["n_m1"] + p["n_m2"],
       "TSLangmuir": lambda p: p["n_m1"] + p["n_m2"] + p["n_m3"], "DR": lambda p: p["n_m"], "DA": lambda p: p["n_m"],
       "Quadratic": lambda p: 2 * p["n_m"], "TemkinApprox": lambda p: p["n_m"], "Toth": lambda p: p["n_m"]}
HENRY = {"Henry": lambda p: p["K"], "Langmuir": lambda p: p["n_m"] * p["K"],
         "DSLangmuir": lambda p: p["n_m1"] * p["K1"] + p["n_m2"] * p["K2"],
         "TSLangmuir": lambda p: p["n_m1"] * p["K1"] + p["n_m2"] * p["K2"] + p["n_m3"] * p["K3"],
         "BET": lambda p: p["n_m"] * p["C"], "GAB": lambda p: p["n_m"] * p["C"] * p["K"],
         "Quadratic": lambda p: p["n_m"] * p["Ka"], "TemkinApprox": lambda p: p["n_m"] * p["K"],
         "Toth": lambda p: p["n_m"] * p["K"], "JensenSeaton": lambda p: p["K"],
         "Virial": lambda p: p["K"], "FHVST": lambda p: p["K"], "WVST": lambda p: p["K"]}
QUAD_INV = {"BET", "GAB", "DSLangmuir", "Quadratic"}
ROOT_INV = {"TSLangmuir", "TemkinApprox", "JensenSeaton", "FHVST", "WVST"}
PEXPLICIT = {"Virial", "FHVST", "WVST"}
REL_ONLY = {"DR", "DA"}          # relative pressure in (0, 1]


def p_grid(name, par, rng, n):
    """Pressures inside the validity range, increasing, denser near 0 and near the pole."""
    if name in ("BET", "GAB"):
        pole = 1 / par["N" if name == "BET" else "K"]
        xs = sorted(set([pole * f for f in (1e-6, 1e-3, 0.01, 0.5, 0.9, 0.95)] + [pole * rng.uniform(0, 0.95) for _ in range(n)]))
    elif name in REL_ONLY:
        xs = sorted(set([1e-4, 1e-2, 0.5, 1.0] + [rng.uniform(1e-4, 1) for _ in range(n)]))
    else:
        k = max(v for kk, v in par.items() if kk.startswith("K")) if any(kk.startswith("K") for kk in par) else 1.0
        xs = sorted(set([logu(rng, 1e-4, 1e2) / k for _ in range(n + 4)]))
    return xs


def henry_probe(name, par):
    """A pressure small enough for the first-order term of n(p)/p to be below 1e-9 (model specific rate)."""
    if name in ("BET", "GAB"):
        pole = 1 / par["N" if name == "BET" else "K"]
        return 1e-10 * min(pole, 1 / (par["C"] * (par["K"] if name == "GAB" else 1.0)))
    if name == "Quadratic":
        return 1e-10 * min(1 / par["Ka"], par["Ka"] / par["Kb"])
    if name == "Toth":
        return (1e-11 ** (1 / par["t"])) / par["K"]
    if name == "JensenSeaton":
        return min(par["a"] * (1e-11 ** (1 / par["c"])) / par["K"], 1e-10 / par["b"])
    kmax = max(v for kk, v in par.items() if kk.startswith("K"))
    return 1e-10 / kmax


def make(pg, name, par, temp=300.0):
    import numpy as np
    from pygaps.modelling import get_isotherm_model
    m = get_isotherm_model(name, parameters={k: np.float64(v) for k, v in par.items()})
    if name in REL_ONLY:
        m.minus_rt = -R_GAS * temp
    return m


def relerr(a, b):
    if a == b:
        return 0.0
    return abs(a - b) / max(abs(a), abs(b), 1e-300)


