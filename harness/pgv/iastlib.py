"""Helpers of the C13 check (IAST): raw point data, an IAST certificate computed from the raw data alone, query histories, argument-type variants.

Nothing here reads an isotherm object to decide the property: `raw_loading` / `raw_spreading` work on the arrays the isotherm was built from
(the float counterpart of `PgVerif.Model.Iast.pointCert`, tied to it through the `pcert` op of Drv/Iast.lean by the harness).
Branches: `d["ads"]` / `d["des"]` hold the rows of a branch in INCREASING pressure order (what the certificate integrates over); the isotherm
stores the desorption rows in DECREASING order after the adsorption rows (`stored_rows`), and the Lean certificate on a branch (`pcertb`,
`pointCertBranch`) starts from those stored rows and does the selection and the reversal itself.
"""
import math

from .models import logu

KINDS = ["linear", "nearest", "zero", "slinear", "quadratic", "cubic", "previous", "next"]


# ----------------------------------------------------------------------------------------------------------------- raw data
def _curve(rng):
    """A strictly increasing, concave-ish loading curve n(p) with n(0) = 0 (closed forms, no pyGAPS involved)."""
    shape = rng.choice(["langmuir", "toth", "dslangmuir"])
    nm, k = rng.uniform(1, 8), logu(rng, 0.05, 20)
    if shape == "langmuir":
        return shape, {"n_m": nm, "K": k}, (lambda p: nm * k * p / (1 + k * p))
    if shape == "toth":
        t = rng.uniform(0.4, 1.5)
        return shape, {"n_m": nm, "K": k, "t": t}, (lambda p: nm * k * p / (1 + (k * p) ** t) ** (1 / t))
    nm2, k2 = rng.uniform(1, 8), logu(rng, 0.05, 20)
    return shape, {"n_m1": nm, "K1": k, "n_m2": nm2, "K2": k2}, (lambda p: nm * k * p / (1 + k * p) + nm2 * k2 * p / (1 + k2 * p))


def point_data(rng, np, hysteresis=False, npts=None):
    """Raw data of one component: coarse (8-40 points) so that the interpolation KIND matters, regular or irregular spacing,
    optionally a measured origin, optionally a desorption branch lying above the adsorption branch."""
    shape, par, f = _curve(rng)
    n = npts or rng.randint(8, 40)
    lo, hi = logu(rng, 1e-4, 1e-2), logu(rng, 8e2, 5e3)
    if rng.random() < 0.5:
        ps = np.geomspace(lo, hi, n)
    else:
        ps = np.array(sorted({lo, hi} | {logu(rng, lo, hi) for _ in range(n - 2)}))
    ls = np.array([f(float(p)) for p in ps])
    origin = rng.random() < 0.3
    if origin:
        ps, ls = np.concatenate([[0.0], ps]), np.concatenate([[0.0], ls])
    d = {"shape": shape, "params": par, "origin": origin, "ads": (ps, ls), "des": None}
    if hysteresis:
        boost = rng.uniform(1.5, 4.0)
        pos = ps[1:] if origin else ps
        r = rng.random()
        if r < 0.5:
            pd = pos[:-1]                                   # the pressures of the adsorption points, without the turning point
            if float(pd[-1]) < 0.25 * float(pos[-1]):       # (irregular spacing, sparse at the top: desorption starts just below the turning point — the
                pd = np.concatenate([pd, [float(pos[-1]) * rng.uniform(0.5, 0.98)]])          # mixtures of the check stay inside the measured range)
        else:
            # its own pressures, below the turning point (regular or irregular spacing, from 4 points)
            m = rng.randint(4, 30)
            # (down to the first adsorption pressure or below: below the lowest point of a branch the library's interpolation has no value,
            #  scipy's ValueError — the mixtures of the check stay inside the measured range of the branch they ask for)
            top, bot = float(pos[-1]) * rng.uniform(0.5, 0.98), float(pos[0]) * rng.uniform(0.8, 1.0)
            pd = np.geomspace(bot, top, m) if r < 0.75 else np.array(sorted({bot, top} | {logu(rng, bot, top) for _ in range(m - 2)}))
        ld = np.array([min(f(float(p) * boost), float(ls[-1])) for p in pd])
        d["boost"] = boost
        # `des` holds the desorption rows in INCREASING pressure order; they are STORED as measured (`stored_rows`): adsorption upwards,
        # then desorption downwards from below the last adsorption point
        d["des"] = (pd, ld)
    return d


def stored_rows(np, d):
    """(pressure, loading, branch marks) as stored in the isotherm: the adsorption rows, then the desorption rows in DECREASING pressure order"""
    ps, ls = d["ads"]
    if d["des"] is None:
        return ps, ls, [0] * len(ps)
    pd, ld = d["des"]
    return np.concatenate([ps, pd[::-1]]), np.concatenate([ls, ld[::-1]]), [0] * len(ps) + [1] * len(pd)


def build_point(pg, np, d, ads):
    pressure, loading, branch = stored_rows(np, d)
    if d["des"] is None:
        branch = None
    kw = dict(pressure=pressure.copy(), loading=loading.copy(), material="pgv-synth", adsorbate=ads, temperature=300.0, pressure_mode="absolute", pressure_unit="bar",
              loading_basis="molar", loading_unit="mmol", material_basis="mass", material_unit="g", temperature_unit="K")
    if branch is not None:
        kw["branch"] = branch
    return pg.PointIsotherm(**kw)


def guarded(ps, ls):
    """the origin guard of `spreading_pressure_at` (Model.dropOrigin)"""
    if len(ps) > 1 and ps[0] == 0 and ls[0] == 0:
        return ps[1:], ls[1:]
    return ps, ls


def raw_loading(ps, ls, q):
    """linear interpolation of the stored data; None outside the measured range"""
    if not (ps[0] <= q <= ps[-1]):
        return None
    import numpy as np
    return float(np.interp(q, ps, ls))


def raw_spreading(ps, ls, q):
    """∫_0^q n(p)/p dp of the Henry-continued piecewise-linear isotherm through the raw data; None above the last point"""
    lq = raw_loading(ps, ls, q)
    ps, ls = guarded(ps, ls)
    if q > ps[-1]:
        return None
    if q <= ps[0]:
        return float(ls[0] / ps[0] * q)
    if lq is None:
        return None
    terms = [float(ls[0])]
    k = int(sum(1 for p in ps if p < q))
    for i in range(k - 1):
        s = (ls[i + 1] - ls[i]) / (ps[i + 1] - ps[i])
        c = ls[i] - s * ps[i]
        terms.append(float(s * (ps[i + 1] - ps[i]) + c * math.log(ps[i + 1] / ps[i])))
    s = (lq - ls[k - 1]) / (q - ps[k - 1])
    c = ls[k - 1] - s * ps[k - 1]
    terms.append(float(s * (q - ps[k - 1]) + c * math.log(q / ps[k - 1])))
    return math.fsum(terms)


def pcert_line(qlist, q, ps, ls, p0):
    """request line of the Lean certificate (`pcert`) for one component, or None when the model has no value there
    (fictitious pressure below the first positive data point: the library's own `loading_at` has no value there either)"""
    gp, gl = guarded(ps, ls)
    if not (gp[0] <= p0 <= gp[-1]):
        return None
    logs = [math.log(gp[i + 1] / gp[i]) for i in range(len(gp) - 1)]
    k = int(sum(1 for p in gp if p < p0))
    lg = math.log(p0 / gp[k - 1]) if k > 0 else 0.0
    return f"pcert {qlist(ps)} {qlist(ls)} {qlist(logs)} {q(p0)} {q(lg)}"


def pcertb_line(np, qlist, q, d, br, p0):
    """request line of the Lean certificate on a BRANCH (`pcertb`): the rows of the whole isotherm AS STORED, their branch marks and the requested
    branch; the Lean model selects the rows of the branch, reverses the desorption rows and applies the origin guard (Model/IastPoint.lean
    `pointCertBranch`).  The logarithm inputs are those of the rows the fold runs over (increasing, guarded)."""
    gp, gl = guarded(*d[br])
    if not (gp[0] <= p0 <= gp[-1]):
        return None
    logs = [math.log(gp[i + 1] / gp[i]) for i in range(len(gp) - 1)]
    k = int(sum(1 for p in gp if p < p0))
    lg = math.log(p0 / gp[k - 1]) if k > 0 else 0.0
    sp, sl, marks = stored_rows(np, d)
    return f"pcertb {qlist(sp)} {qlist(sl)} [{';'.join(str(m) for m in marks)}] {0 if br == 'ads' else 1} {qlist(logs)} {q(p0)} {q(lg)}"


# ----------------------------------------------------------------------------------------------------------------- query histories
def query_point(rng, np, iso, d):
    """One earlier, unrelated query of a PointIsotherm (what a user does before IAST: draw a smooth curve, look up a value in other
    units, on another branch, with extrapolation).  Returns a description; exceptions of the query itself are part of the history."""
    branches = ["ads"] + (["des", "des"] if d["des"] is not None else [])
    br = rng.choice(branches)
    ps, ls = d[br]
    gp, gl = guarded(ps, ls)
    kind = rng.choice(KINDS + ["cubic", "quadratic", "nearest"])
    fill = rng.choice([None, None, "extrapolate", 0.0, (0.0, float(ls[-1]))])
    op = rng.choice(["loading_at", "loading_at", "loading_at", "loading_at-default", "loading_at-default", "pressure_at", "spreading_pressure_at", "loading_at-units", "accessors"])
    inside = [logu(rng, float(gp[0]), float(gp[-1])) for _ in range(rng.choice([1, 1, 5]))]
    desc = {"op": op, "branch": br}
    try:
        if op == "loading_at":
            desc.update(interpolation_type=kind, interp_fill=fill, pressure=inside)
            iso.loading_at(inside if len(inside) > 1 else inside[0], branch=br, interpolation_type=kind, interp_fill=fill)
        elif op == "loading_at-default":       # the most common earlier query: default kind and fill value, possibly on the other branch
            desc.update(pressure=inside[0])
            iso.loading_at(inside[0], branch=br)
        elif op == "pressure_at":
            lv = [rng.uniform(float(min(gl)), float(max(gl))) for _ in inside]
            desc.update(interpolation_type=kind, interp_fill=fill, loading=lv)
            iso.pressure_at(lv if len(lv) > 1 else lv[0], branch=br, interpolation_type=kind, interp_fill=fill)
        elif op == "spreading_pressure_at":
            f2 = rng.choice([None, float(ls[-1])])
            desc.update(interp_fill=f2, pressure=inside[0])
            iso.spreading_pressure_at(inside[0], branch=br, interp_fill=f2)
        elif op == "loading_at-units":
            pu, lu = rng.choice([("Pa", 1e5), ("kPa", 1e2), ("torr", 750.062)]), rng.choice(["mol", "cm3(STP)"])
            desc.update(interpolation_type=kind, pressure_unit=pu[0], loading_unit=lu, pressure=inside[0] * pu[1])
            iso.loading_at(inside[0] * pu[1], branch=br, interpolation_type=kind, pressure_unit=pu[0], loading_unit=lu)
        else:
            iso.pressure(branch=br, pressure_unit="kPa")
            iso.loading(branch=br, loading_unit="mol")
            iso.data(branch=br)
    except Exception as e:  # noqa  (e.g. a spline that needs more points, a value outside the range)
        desc["raised"] = type(e).__name__
    return desc


def query_model(rng, np, iso):
    """earlier evaluations of a ModelIsotherm (other units, arrays, the three accessors)"""
    op = rng.choice(["loading_at", "pressure_at", "spreading_pressure_at", "loading_at-units", "points"])
    desc = {"op": op}
    try:
        if op == "loading_at":
            iso.loading_at([logu(rng, 1e-3, 50) for _ in range(4)])
        elif op == "pressure_at":
            iso.pressure_at(float(iso.loading_at(logu(rng, 1e-2, 5))))
        elif op == "spreading_pressure_at":
            iso.spreading_pressure_at(logu(rng, 1e-3, 50))
        elif op == "loading_at-units":
            iso.loading_at(logu(rng, 1e2, 1e6), pressure_unit="Pa", loading_unit="mol", material_unit="kg")
        else:
            iso.pressure(points=7)
            iso.loading(points=7)
    except Exception as e:  # noqa
        desc["raised"] = type(e).__name__
    return desc


# ----------------------------------------------------------------------------------------------------------------- argument types
def vector_variants(np, vals):
    """The same numbers in the containers / dtypes a caller may use for partial pressures, fractions, guesses.
    `vals`: Python numbers; integer-valued ones are also offered as integers."""
    fl = [float(v) for v in vals]
    out = {
        "list[float]": list(fl),
        "tuple[float]": tuple(fl),
        "list[numpy.float64]": [np.float64(v) for v in fl],
        "list[0-d array]": [np.array(v) for v in fl],
    }
    if all(float(np.float32(v)) == v for v in fl):
        out["array[float32]"] = np.array(fl, dtype=np.float32)
        out["list[numpy.float32]"] = [np.float32(v) for v in fl]
    if all(v == int(v) for v in fl):
        iv = [int(v) for v in fl]
        out.update({
            "list[int]": list(iv),
            "tuple[int]": tuple(iv),
            "array[int64]": np.array(iv, dtype=np.int64),
            "array[int32]": np.array(iv, dtype=np.int32),
            "list[numpy.int64]": [np.int64(v) for v in iv],
            "list[0-d int array]": [np.array(v) for v in iv],
            "mixed[int,float]": [iv[0]] + fl[1:],
            "mixed[float,int]": [fl[0]] + iv[1:],
        })
        if all(0 <= v < 256 for v in iv):
            out["array[uint8]"] = np.array(iv, dtype=np.uint8)
    return out


def scalar_variants(np, v):
    out = {"float": float(v), "numpy.float64": np.float64(v), "0-d array": np.array(float(v))}
    if float(np.float32(v)) == float(v):
        out["numpy.float32"] = np.float32(v)
    if float(v) == int(v):
        out.update({"int": int(v), "numpy.int64": np.int64(int(v)), "numpy.int32": np.int32(int(v)), "0-d int array": np.array(int(v))})
    return out


def describe(v):
    """JSON-able description of an argument as passed (type + values) for the replay file"""
    import numpy as np
    if isinstance(v, np.ndarray):
        return {"type": f"numpy.ndarray[{v.dtype}] shape {v.shape}", "values": v.tolist()}
    if isinstance(v, (list, tuple)):
        return {"type": type(v).__name__ + "[" + ",".join(sorted({type(x).__name__ for x in v})) + "]", "values": [x.tolist() if hasattr(x, "tolist") else x for x in v]}
    return {"type": type(v).__name__, "values": v.tolist() if hasattr(v, "tolist") else v}
