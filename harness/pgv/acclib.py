"""Correspondence of Model/Accessor.lean (semantics of the generated accessor descriptors) with the REAL accessor methods of
`pygaps.Adsorbate` / `pygaps.Material`, on private objects whose thermodynamic backend is a seeded stub.

Every case builds a fresh `pygaps.Adsorbate('pgv_stub…', store=False, …)` (never an element of ADSORBATE_LIST), replaces its
`_state` by a `StubState` (a table from (getter, input pair, quality, temperature|pressure) to an exactly representable number
or to an exception), calls the real method, and asks the Lean driver `Drv/Accessor.lean` what the descriptor generated from the
source (`gen`) and the independent specification table (`spec`) predict for the same table, dictionary and arguments.

  gen  disagreement  -> broken correspondence (model or translator no longer describes the code)
  spec disagreement  -> a concrete call on which the method does not return what the documented units / the fallback law require
"""
from fractions import Fraction as Fr

from .core import close, frac, qstr, tok

STATE_GETTERS = ["p", "rhomass", "rhomolar", "hmolar", "surface_tension"]
CONST_GETTERS = ["molar_mass", "Ttriple", "p_critical", "T_critical"]
UNITS = ["Pa", "kPa", "MPa", "mbar", "bar", "atm", "mmHg", "torr"]
ERR_NAMES = {"ParameterError": "param", "CalculationError": "calc", "KeyError": "key", "TypeError": "type", "ValueError": "value"}


class StubState:
    """Stands in for a CoolProp AbstractState: `update` + argument-less getters, answered from a table."""

    def __init__(self, table, cp, exc_classes):
        self._table = table            # {(getter, kind, q, x): float | exception class}
        self._cp = cp
        self._inp = ("n", None, None)
        self._exc = exc_classes
        self.calls = []                # every call made on the object
        self.raised = False

    def _fail(self, cls, what):
        self.raised = True
        raise cls(f"pgv stub backend: {what}")

    def update(self, pair, a, b):
        self.calls.append(("update", pair, a, b))
        if pair == self._cp.QT_INPUTS:
            kind, q, x = "QT", a, b
        elif pair == self._cp.PQ_INPUTS:
            kind, q, x = "PQ", b, a
        else:
            self._fail(ValueError, "input pair")
        if q is None or x is None or isinstance(q, str) or isinstance(x, str):
            self._fail(TypeError, "update with a non-number")      # what CoolProp does with None
        self._inp = (kind, Fr(q), Fr(x))

    def __getattr__(self, name):
        if name.startswith("_"):
            raise AttributeError(name)

        def getter(*args):
            self.calls.append((name,) + self._inp)
            if args:
                self._fail(TypeError, "getter takes no arguments")
            v = self._table.get((name,) + self._inp)
            if v is None:
                self._fail(ValueError, f"no value for {name} at {self._inp}")
            if isinstance(v, type):
                self._fail(v, f"{name} unavailable at {self._inp}")
            return v
        return getter


def dyadic(rng, lo, hi):
    """an exactly representable float in [lo, hi] with a short rational form"""
    k = rng.choice([0, 3, 6, 10])
    n = rng.randint(int(lo * 2 ** k), max(int(lo * 2 ** k) + 1, int(hi * 2 ** k)))
    return n / 2 ** k


def make_table(rng, T, P, mode, exc_classes):
    """mode: 'ok' every entry answers, 'mixed' ~20 % of the entries raise / are absent, 'dead' everything raises"""
    T2 = T + 16.0
    inputs = [("n", None, None), ("QT", Fr(0), Fr(T)), ("QT", Fr(1), Fr(T)), ("QT", Fr(1, 2), Fr(T)), ("QT", Fr(0), Fr(T2)),
              ("PQ", Fr(0), Fr(P)), ("PQ", Fr(1), Fr(P))]
    table = {}
    for g in STATE_GETTERS:
        for inp in inputs:
            table[(g,) + inp] = dyadic(rng, 0.001, 5000.0) * rng.choice([1, 1, 1, -1] if g == "hmolar" else [1])
    for g in CONST_GETTERS:
        for inp in inputs[:2]:
            table[(g,) + inp] = dyadic(rng, 0.01, 700.0)
    for k in list(table):
        r = rng.random()
        if mode == "dead" or (mode == "mixed" and r < 0.15):
            table[k] = rng.choice(exc_classes)
        elif mode == "mixed" and r < 0.22:
            del table[k]
    return table


def backend_token(table, props_si):
    ents = []
    for (g, kind, q, x), v in table.items():
        val = "~" if isinstance(v, type) else qstr(v)
        if kind == "n":
            ents.append(f"s:{g}:n:~:~:{val}")
        else:
            ents.append(f"s:{g}:{kind}:{q.numerator}/{q.denominator}:{x.numerator}/{x.denominator}:{val}")
    for key, v in props_si.items():
        ents.append(f"p:{key}:n:~:~:{'~' if v is None or isinstance(v, type) else qstr(v)}")
    return "[" + ";".join(ents) + "]"


def dict_token(d):
    return "[" + ";".join(f"{k}:{qstr(v)}" for k, v in d.items() if v is not None) + "]"


def lean_err_name(e):
    return ERR_NAMES.get(type(e).__name__, "other")


def agree(got, reply, rel=1e-12):
    """got = ('ok', float) | ('err', name);  reply = 'ok n/d' | 'err name'"""
    r = reply.split()
    if got[0] == "ok":
        if r[0] != "ok" or r[1] == "~":
            return False
        n, d = r[1].split("/")
        return close(got[1], Fr(int(n), int(d)), rel=rel)
    if r[0] != "err":
        return False
    return r[1] == got[1]


def accessor_cases(ck, pg, names_params, n_per):
    """Run the real accessors on stub-backed private adsorbates.  Returns the list of cases
    (line for the driver, observed result, description) — the caller pipes the lines through the driver."""
    from pygaps.utilities import coolprop_utilities as cpu
    from pygaps.utilities.exceptions import CalculationError, ParameterError
    CP = cpu.CP
    rng = ck.rng
    exc_classes = [ValueError, RuntimeError, KeyError, TypeError, ZeroDivisionError, OverflowError, CalculationError, ParameterError]
    keys = ["molar_mass", "p_triple", "t_triple", "p_critical", "t_critical", "saturation_pressure", "surface_tension",
            "liquid_density", "liquid_molar_density", "gas_density", "gas_molar_density", "enthalpy_vaporisation",
            "enthalpy_liquefaction"]
    cases = []
    orig_props_si = CP.CoolProp.PropsSI
    props_cell = {}

    def stub_props_si(key, name, *rest):
        v = props_cell["table"].get(key)
        props_cell["calls"].append((key, name))
        if rest or not isinstance(name, str):
            raise TypeError("pgv stub PropsSI: arguments")
        if v is None:
            raise ValueError(f"pgv stub PropsSI: no value for {key}")
        if isinstance(v, type):
            raise v(f"pgv stub PropsSI: {key} unavailable")
        return v
    CP.CoolProp.PropsSI = stub_props_si
    try:
        for name, params in names_params:
            pnames = [p for p, _ in params]
            for i in range(n_per):
                T = dyadic(rng, 40.0, 640.0)
                P = dyadic(rng, 10.0, 4.0e6)
                mode = rng.choice(["ok", "ok", "mixed", "mixed", "dead", "nostate"])
                table = {} if mode == "nostate" else make_table(rng, T, P, mode, exc_classes)
                r = rng.random()
                props_si = {"PTRIPLE": dyadic(rng, 0.5, 9.0e4) if r < 0.6 else (rng.choice(exc_classes) if r < 0.85 else None),
                            "PCRIT": dyadic(rng, 1e5, 9e6)}
                # user dictionary: every documented key present with probability 1/2, sometimes explicitly None
                user = {}
                dens = rng.choice([0.15, 0.5, 0.5, 0.9])
                for k in keys:
                    r = rng.random()
                    if r < dens:
                        user[k] = dyadic(rng, 0.001, 900.0)
                    elif r < dens + 0.05:
                        user[k] = None
                has_name = mode != "nostate" and rng.random() < 0.85
                ctor = dict(user)
                if has_name:
                    ctor["backend_name"] = "PGV_STUB_FLUID"
                ads = pg.Adsorbate(f"pgv_stub_{name}_{i}", store=False, **ctor)
                stub = None
                if mode != "nostate":
                    stub = StubState(table, CP, exc_classes)
                    ads._state = stub
                    ads._backend_mode = cpu.thermodynamic_backend()
                props_cell["table"] = props_si
                props_cell["calls"] = []
                # arguments
                kwargs, sent = {}, {"calculate": None, "temp": None, "press": None, "unit": None}
                c = rng.choice([None, True, True, False])
                if c is not None:
                    kwargs["calculate"] = c
                    sent["calculate"] = c
                if "temp" in pnames:
                    req = dict(params)["temp"] == ""
                    tv = T if (req or rng.random() < 0.7) else rng.choice([None, 0.0, "omit"])
                    if tv != "omit":
                        kwargs["temp"] = tv
                        sent["temp"] = tv
                if "press" in pnames:
                    pv = rng.choice(["omit", "omit", None, P, P, 0.0])
                    if pv != "omit":
                        kwargs["press"] = pv
                        sent["press"] = pv
                if "unit" in pnames:
                    uv = rng.choice(["omit", None] + UNITS + ["furlong", ""])
                    if uv != "omit":
                        kwargs["unit"] = uv
                        sent["unit"] = uv
                # positional or keyword passing, in the declared order
                args = []
                if rng.random() < 0.5:
                    for p in pnames:
                        if p in kwargs:
                            args.append(kwargs.pop(p))
                        else:
                            break
                try:
                    got = ("ok", float(getattr(ads, name)(*args, **kwargs)))
                except (KeyboardInterrupt, SystemExit):
                    raise
                except BaseException as e:  # noqa
                    got = ("err", lean_err_name(e), type(e).__name__)
                # what the model is told about the backend: PropsSI needs the backend name; no stub object = every read raises
                ps = dict(props_si)
                if not has_name:
                    ps = {k: None for k in ps}
                line = " ".join(["acc", "both", name, tok(sent["calculate"]), tok(sent["temp"]), tok(sent["press"]),
                                 tok(sent["unit"]), dict_token(user), backend_token(table, ps)])
                touched = bool(stub.calls) if stub is not None else False
                touched = touched or bool(props_cell["calls"])
                raised = (stub.raised if stub is not None else False)
                calc_eff = True if sent["calculate"] is None else sent["calculate"]
                path = ("direct" if not calc_eff else ("backend" if (touched and not raised and got[0] == "ok" and mode != "nostate") else "fallback"))
                cases.append({"line": line, "got": got, "accessor": name, "path": path, "mode": mode, "touched": touched,
                              "calculate": sent["calculate"], "temp": sent["temp"], "press": sent["press"], "unit": sent["unit"],
                              "user": {k: v for k, v in user.items()}, "backend_name": has_name,
                              "stub_calls": [list(map(str, c)) for c in (stub.calls if stub else [])][:8]})
    finally:
        CP.CoolProp.PropsSI = orig_props_si
    return cases


def material_cases(ck, pg, n):
    rng = ck.rng
    cases = []
    for i in range(n):
        props = {}
        for k in ("density", "molar_mass", "pgv_extra", "pgv_other"):
            r = rng.random()
            if r < 0.5:
                props[k] = dyadic(rng, 0.01, 900.0)
            elif r < 0.6:
                props[k] = None
        m = pg.Material(f"pgv_mat_{i}", store=False, **props)
        for what in ("density", "molar_mass"):
            try:
                v = getattr(m, what)
                got = ("ok", None if v is None else float(v))
            except Exception as e:  # noqa
                got = ("err", lean_err_name(e), type(e).__name__)
            cases.append({"line": f"mat both {what} {dict_token(props)} [density;molar_mass]", "got": got, "what": "Material." + what,
                          "props": dict(props)})
        for key in ("density", "molar_mass", "pgv_extra", "pgv_other", "pgv_absent"):
            attrs = [k for k in ("density", "molar_mass", "pgv_extra", "pgv_other", "pgv_absent") if hasattr(m, k)]
            try:
                v = m.get_prop(key)
                got = ("ok", None if v is None else float(v))
            except Exception as e:  # noqa
                got = ("err", lean_err_name(e), type(e).__name__)
            cases.append({"line": f"getprop both Material {key} {dict_token(props)} [{';'.join(attrs)}]", "got": got,
                          "what": "Material.get_prop", "key": key, "props": dict(props)})
        a = pg.Adsorbate(f"pgv_gp_{i}", store=False, **props)
        for key in ("density", "pgv_extra", "pgv_absent"):
            try:
                v = a.get_prop(key)
                got = ("ok", None if v is None else float(v))
            except Exception as e:  # noqa
                got = ("err", lean_err_name(e), type(e).__name__)
            cases.append({"line": f"getprop both Adsorbate {key} {dict_token(props)} []", "got": got,
                          "what": "Adsorbate.get_prop", "key": key, "props": dict(props)})
    return cases


def agree_opt(got, reply):
    r = reply.split()
    if got[0] == "ok":
        if r[0] != "ok":
            return False
        if got[1] is None:
            return r[1] == "~"
        if r[1] == "~":
            return False
        n, d = r[1].split("/")
        return Fr(int(n), int(d)) == frac(got[1])
    return r[0] == "err" and r[1] == got[1]


def run_correspondence(ck, pg, thorough):
    """Section of the C20 harness.  Appends to ck.broken / ck.fail_case; returns a summary for the evidence."""
    info = ck.gen_info.get("Accessors", {})
    accs = info.get("accessors")
    if not accs:
        # translation failed on this run: fall back on the accessor list of the class itself
        import inspect
        accs = {}
        for n, f in inspect.getmembers(pg.Adsorbate, inspect.isfunction):
            sig = inspect.signature(f)
            if "calculate" in sig.parameters:
                accs[n] = {"params": [[p.name, "" if p.default is inspect.Parameter.empty else repr(p.default)]
                                      for p in list(sig.parameters.values())[1:]]}
    names_params = [(n, [tuple(p) for p in d["params"]]) for n, d in accs.items()]
    n_per = 220 if thorough else 48
    cases = accessor_cases(ck, pg, names_params, n_per)
    mcases = material_cases(ck, pg, 120 if thorough else 30)
    try:
        replies = ck.drive("Accessor", [c["line"] for c in cases] + [c["line"] for c in mcases])
    except Exception as e:  # noqa  (driver not built: the proof step is already broken)
        ck.broken.append({"step": "driver Accessor", "what": str(e)[:600]})
        replies = None
    n_gen = n_spec = 0
    seen = {}
    for idx, c in enumerate(cases):
        ck.count(("acc", c["line"]), bucket=f"accessor:{c['accessor']}:{c['path']}",
                 sample={"accessor": c["accessor"], "calculate": c["calculate"], "temp": c["temp"], "unit": c["unit"], "path": c["path"],
                         "implementation": c["got"], "model": replies[idx] if replies else None} if idx % 97 == 0 else None)
        # property oracle needing no model: `calculate=False` never touches the backend
        if c["calculate"] is False and c["touched"]:
            ck.fail_case({"clause": "calculate=False does not touch the backend", "accessor": c["accessor"]},
                         {"stub_calls": c["stub_calls"], "user": c["user"]})
        if replies is None:
            continue
        g, s = [x.strip() for x in replies[idx].split(";")]
        desc = {k: c[k] for k in ("accessor", "calculate", "temp", "press", "unit", "user", "mode", "backend_name", "stub_calls")}
        if not agree(c["got"], g):
            n_gen += 1
            if n_gen <= 3:
                ck.broken.append({"step": "correspondence Model/Accessor (generated descriptor) vs " + c["accessor"],
                                  "what": {"case": desc, "model": g, "implementation": c["got"], "line": c["line"][:400]}})
        if not agree(c["got"], s):
            n_spec += 1
            sig = {"clause": "accessor = specification (documented unit, fallback law)", "accessor": c["accessor"], "path": c["path"]}
            seen[(c["accessor"], c["path"])] = seen.get((c["accessor"], c["path"]), 0) + 1
            if seen[(c["accessor"], c["path"])] <= 2:        # two witnesses per accessor and path are enough
                ck.fail_case(sig, {"case": desc, "specification": s, "implementation": c["got"], "driver_line": c["line"]})
    off = len(cases)
    for idx, c in enumerate(mcases):
        ck.count(("mat", c["line"], idx), bucket="accessor:" + c["what"])
        if replies is None:
            continue
        g, s = [x.strip() for x in replies[off + idx].split(";")]
        if not agree_opt(c["got"], g):
            n_gen += 1
            if n_gen <= 3:
                ck.broken.append({"step": "correspondence Model/Accessor vs " + c["what"],
                                  "what": {"case": {k: v for k, v in c.items() if k != "line"}, "model": g, "implementation": c["got"]}})
        if not agree_opt(c["got"], s):
            n_spec += 1
            ck.fail_case({"clause": "accessor = specification (documented unit, fallback law)", "accessor": c["what"]},
                         {"case": {k: v for k, v in c.items() if k != "line"}, "specification": s, "implementation": c["got"]})
    return {"accessor_cases": len(cases), "material_cases": len(mcases), "gen_disagreements": n_gen, "spec_disagreements": n_spec,
            "accessors": [n for n, _ in names_params]}
