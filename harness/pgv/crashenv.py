"""Crash environments and transaction-environment observation for C09 (used by props/c09.py only).

The statement-level model (Model/Store.lean, `runOp`) says "the process died => nothing is committed".  That sentence is true of the
real store only under an ENVIRONMENT that the statement sequence does not show (Model/Pager.lean, `Env`): the rollback journal is a file,
every statement of the call runs inside ONE transaction on ONE connection, and the transaction ends with the call.  A change of that
environment (journal_mode MEMORY/OFF, synchronous OFF, isolation_level=None / autocommit, a commit in the middle, a second connection)
leaves the statement sequence alone and is harmless as long as all dirty pages still sit in SQLite's page cache when the process dies.

This module therefore provides

* a proxy for the `sqlite3` module object inside pygaps.parsing.sqlite that, like storelib's, counts `cursor.execute` calls and injects
  the fault of a `Plan` — for statement faults the exception raised INSTEAD of statement k can be of any class (`Plan.exc`;
  `exception_classes`: sqlite3.Error subclasses, Exception subclasses outside the sqlite3 hierarchy, BaseException subclasses), and the
  proxy records out of which `execute` call an exception came, whoever raised it (`Plan.raised_in`) — and in addition
  - runs the operation with a SMALL PAGE CACHE (`PRAGMA cache_size = <pages>` on the real connection right after connect: the cache size
    is a parameter of the environment, not of the code's semantics), so that SQLite spills dirty pages into the database file before the
    commit, exactly what it does with the default cache on uploads of a few megabytes,
  - OBSERVES the environment while the operation runs: journal_mode / synchronous / locking_mode of the connection, its isolation_level
    and autocommit attribute (read when the first non-PRAGMA statement is about to execute and again just before commit), the number of
    connections opened, and the transaction shape (once a transaction has begun it must last until the wrapper ends it; every
    INSERT/UPDATE/DELETE must run inside a transaction; nothing may follow the commit) — through `Connection.in_transaction` and
    sqlite3's trace callback, so that a `COMMIT` issued by any route is seen;
* `recover(path)`: what the NEXT connection finds — an independent read-write connection (it plays back a hot journal, as any later
  user of the file would), `PRAGMA integrity_check`;
* `safe_read(path)`: storelib.read_tables that reports a malformed file instead of raising.
"""
import os
import re
import sqlite3

from . import storelib as sl

#: page-cache sizes (pages) of the small-cache environments.  SQLite keeps at least a handful of pages whatever the setting; with these
#: values an upload of one isotherm spills from its first, fourth or ninth dirty page on (measured on the unchanged tree).
CACHE_PAGES = (1, 4, 10)

#: fault kinds raised INSTEAD of statement k (Model/Store.lean `FaultKind` without the two exits)
STATEMENT_FAULTS = ("integrity", "interface", "operational", "foreign")


def exception_classes(pgsql):
    """The exception classes a statement can be left with, by what `with_connection` is specified to do with them
    (Model/Store.lean `SqlErr`): -> {harness kind: (model kind, [(class name, factory)])}.

    * 'dberror'   — sqlite3.Error subclasses other than Integrity-/InterfaceError (model: `.operational`: propagates, no commit);
    * 'foreign'   — Exception subclasses OUTSIDE the sqlite3.Error hierarchy: what the driver raises while it binds a value
                    (OverflowError, UnicodeEncodeError), what the module / json / numpy raise between two statements, MemoryError,
                    sqlite3.Warning (an Exception, not a sqlite3.Error) and the library's own ParsingError (model: `.foreign`);
    * 'interrupt' — BaseException subclasses that are no Exception: KeyboardInterrupt, SystemExit, GeneratorExit,
                    asyncio.CancelledError (model: `.foreign` as well: no `except` clause of the wrapper matches)."""
    import asyncio
    real = sqlite3
    parsing_error = getattr(pgsql, "ParsingError", None)
    foreign = [
        ("OverflowError", lambda: OverflowError("Python int too large to convert to SQLite INTEGER")),
        ("UnicodeEncodeError", lambda: UnicodeEncodeError("utf-8", "a\udc80", 1, 2, "surrogates not allowed")),
        ("MemoryError", lambda: MemoryError()),
        ("ValueError", lambda: ValueError("injected fault")),
        ("TypeError", lambda: TypeError("Object of type bytes is not JSON serializable")),
        ("KeyError", lambda: KeyError("injected fault")),
        ("RecursionError", lambda: RecursionError("injected fault")),
        ("OSError", lambda: OSError(5, "injected fault")),
        ("sqlite3.Warning", lambda: real.Warning("injected fault")),
    ]
    if isinstance(parsing_error, type) and not issubclass(parsing_error, real.Error):
        foreign.append(("ParsingError", lambda: parsing_error("injected fault")))
    return {
        "dberror": ("operational", [(c, (lambda c=c: getattr(real, c)("injected fault")))
                                    for c in ("ProgrammingError", "DatabaseError", "DataError", "InternalError", "NotSupportedError", "Error")]),
        "foreign": ("foreign", foreign),
        "interrupt": ("foreign", [("KeyboardInterrupt", lambda: KeyboardInterrupt()), ("SystemExit", lambda: SystemExit(3)),
                                  ("GeneratorExit", lambda: GeneratorExit()), ("CancelledError", lambda: asyncio.CancelledError())]),
    }


_WRITE_RE = re.compile(r"^\s*(INSERT|UPDATE|DELETE|REPLACE|CREATE|DROP|ALTER)\b", re.I)
_PRAGMA_RE = re.compile(r"^\s*PRAGMA\b", re.I)
_TXN_RE = re.compile(r"^\s*(BEGIN|COMMIT|END|ROLLBACK|SAVEPOINT|RELEASE)\b", re.I)


class Plan(sl.Plan):
    """storelib.Plan + the environment the operation runs in + what is observed about the environment the code sets up."""

    def __init__(self, k=None, kind=None, cache=None, observe=False, exc=None):
        super().__init__(k, kind)
        self.cache = cache          # None = SQLite's default page cache
        self.observe = observe
        self.exc = exc              # statement faults: a callable making the exception raised INSTEAD of statement k (None: the kind's default class)
        self.planted = None         # the exception instance raised instead of statement k (statement faults)
        self.raised_in = None       # index of the cursor.execute call out of which an exception came (planted, or raised by the driver itself
        #                             while it bound the parameters / ran the statement); None: no execute call raised
        self.connects = 0
        self.rollbacks = 0
        self.envs = []              # distinct environment readings, in order of appearance
        self.shape = []             # deviations from "one connection, one transaction, ended by the wrapper"
        self.trace = []             # (connection number, SQL prefix): transaction control and PRAGMA statements as SQLite ran them
        self.muted = False


def read_env(real):
    """The crash-relevant settings of a real sqlite3 connection (queries only: nothing is changed)."""
    def q(name):
        try:
            r = real.execute(f"PRAGMA {name}").fetchone()
            return r[0].lower() if isinstance(r[0], str) else r[0]
        except sqlite3.Error as e:      # pragma: no cover
            return "error:" + type(e).__name__
    return {"journal_mode": q("journal_mode"), "synchronous": q("synchronous"), "locking_mode": q("locking_mode"),
            "isolation_level": real.isolation_level, "autocommit": getattr(real, "autocommit", None)}


def default_env(path):
    """The environment a plain `sqlite3.connect(path)` of this interpreter / SQLite build gives (measured, not assumed)."""
    con = sqlite3.connect(path)
    try:
        return read_env(con)
    finally:
        con.close()


class _Cursor:
    def __init__(self, real, conn):
        self._c, self._conn = real, conn

    def _run(self, sql, call):
        conn = self._conn
        p = conn._plan
        k = p.count
        p.count += 1
        conn._before(f"statement {k}", sql)
        if p.k == k:
            if p.kind in STATEMENT_FAULTS:
                p.raised_in = k
                if p.exc is not None:
                    p.planted = p.exc()
                elif p.kind == "integrity":
                    p.planted = conn._mod.IntegrityError("injected fault")
                elif p.kind == "interface":
                    p.planted = conn._mod.InterfaceError("injected fault")
                elif p.kind == "operational":
                    p.planted = conn._mod.OperationalError("injected fault")
                else:
                    p.planted = RuntimeError("injected fault")          # 'foreign': any exception class outside sqlite3.Error
                raise p.planted
            if p.kind == "exitBefore":
                os._exit(17)
        try:
            call()
        except BaseException:
            p.raised_in = k
            raise
        conn._after(k, sql)
        if p.k == k and p.kind == "exitAfter":
            os._exit(17)
        return self

    def execute(self, sql, params=()):
        return self._run(sql, lambda: self._c.execute(sql, params))

    def executemany(self, sql, seq):
        return self._run(sql, lambda: self._c.executemany(sql, seq))

    def executescript(self, script):
        return self._run(script, lambda: self._c.executescript(script))

    @property
    def connection(self):
        return self._conn

    def fetchone(self):
        return self._c.fetchone()

    def fetchall(self):
        return self._c.fetchall()

    def fetchmany(self, *a):
        return self._c.fetchmany(*a)

    def __iter__(self):
        return iter(self._c)

    @property
    def lastrowid(self):
        return self._c.lastrowid

    def __getattr__(self, name):
        return getattr(self._c, name)


class _Conn:
    def __init__(self, real, plan, mod, number):
        d = object.__setattr__
        d(self, "_r", real)
        d(self, "_plan", plan)
        d(self, "_mod", mod)
        d(self, "_number", number)
        d(self, "_txn", "none")       # none -> open -> ended (by itself) / closed (by the wrapper's commit / rollback)
        d(self, "_probed", False)

    # ------------------------------------------------------------ observation
    def _note(self, what):
        p = self._plan
        msg = f"connection {self._number}: {what}"
        if msg not in p.shape and len(p.shape) < 12:
            p.shape.append(msg)

    def _probe(self):
        p = self._plan
        p.muted = True
        try:
            env = read_env(self._r)
        finally:
            p.muted = False
        if env not in p.envs:
            p.envs.append(env)

    def _before(self, when, sql=None):
        p = self._plan
        if not p.observe:
            return
        if sql is None or not _PRAGMA_RE.match(sql):
            if not self._probed or sql is None:
                self._probe()
                object.__setattr__(self, "_probed", True)
        live = self._r.in_transaction
        st = self._txn
        if st == "closed":
            self._note(f"{when} is issued after the wrapper's commit / rollback")
        elif st == "open" and not live:
            self._note(f"the transaction ended before {when} (commit or rollback in the middle of the operation)")
            st = "ended"
        if live and st in ("none", "ended"):
            if st == "ended":
                self._note(f"a second transaction was begun before {when}")
            st = "open"
        object.__setattr__(self, "_txn", st)

    def _after(self, k, sql):
        p = self._plan
        if not p.observe:
            return
        live = self._r.in_transaction
        if _WRITE_RE.match(sql) and not live:
            self._note(f"write statement {k} ran outside a transaction (autocommit: it is committed by itself)")
        if live and self._txn in ("none", "ended"):
            if self._txn == "ended":
                self._note(f"a second transaction was begun by statement {k}")
            object.__setattr__(self, "_txn", "open")
        elif not live and self._txn == "open":
            self._note(f"the transaction was ended by statement {k}")
            object.__setattr__(self, "_txn", "ended")

    # ------------------------------------------------------------ the connection API the wrapper uses
    def cursor(self, *a, **k):
        return _Cursor(self._r.cursor(*a, **k), self)

    def execute(self, sql, params=()):
        return self.cursor().execute(sql, params)

    def executemany(self, sql, seq):
        return self.cursor().executemany(sql, seq)

    def executescript(self, script):
        return self.cursor().executescript(script)

    def commit(self):
        p = self._plan
        p.commits += 1
        self._before("the commit")
        if p.k == p.count and p.kind == "exitBefore":
            os._exit(17)
        self._r.commit()
        object.__setattr__(self, "_txn", "closed")
        if p.k == p.count and p.kind == "exitAfter":
            os._exit(17)

    def rollback(self):
        self._plan.rollbacks += 1
        self._r.rollback()
        object.__setattr__(self, "_txn", "closed")

    def __enter__(self):
        return self

    def __exit__(self, et, ev, tb):
        if et is None:
            self.commit()
        else:
            self.rollback()
        return False

    def __setattr__(self, name, value):
        setattr(self._r, name, value)

    def __getattr__(self, name):
        return getattr(self._r, name)


class Proxy:
    """Stands in for the `sqlite3` module object inside pygaps.parsing.sqlite (this process only)."""

    def __init__(self, plan):
        self._real = sqlite3
        self.plan = plan

    def connect(self, *a, **k):
        p = self.plan
        real = self._real.connect(*a, **k)
        p.connects += 1
        number = p.connects
        if p.cache is not None:
            real.execute(f"PRAGMA cache_size = {int(p.cache)}")      # the environment: how much memory SQLite may use for pages
        if p.observe:
            def cb(sql, p=p, number=number):
                if not p.muted and (_TXN_RE.match(sql) or _PRAGMA_RE.match(sql)) and len(p.trace) < 60:
                    p.trace.append((number, sql[:80]))
            real.set_trace_callback(cb)
        return _Conn(real, p, self._real, number)

    def __getattr__(self, name):
        return getattr(self._real, name)


def with_fault(pgsql, plan, thunk):
    """Run thunk() with the module's sqlite3 replaced; returns the exception (or None)."""
    saved = pgsql.sqlite3
    pgsql.sqlite3 = Proxy(plan)
    try:
        thunk()
        return None
    except BaseException as e:  # noqa
        return e
    finally:
        pgsql.sqlite3 = saved


def outcome_of(exc, planted=None):
    """Outcome of a call in the terms of Model/Store.lean `Outcome`: 'parsing' = `with_connection` TRANSLATED a sqlite3 error into a
    ParsingError; 'other' = an exception left the call as it was raised — also when that exception happens to be a ParsingError (one
    planted by the harness, or one the module raised by itself between two statements: for the wrapper it is not a sqlite3 error)."""
    if exc is None:
        return "ok"
    if exc is planted:
        return "other"
    if type(exc).__name__ == "ParsingError" and not isinstance(exc.__cause__ or exc.__context__, sqlite3.Error):
        return "other"
    return sl.outcome_of(exc)


def in_child(pgsql, plan, thunk):
    """Run thunk() under the fault plan in a forked child; returns 'died' / 'ok' / 'parsing' / 'other'."""
    pid = os.fork()
    if pid == 0:
        code = 0
        try:
            e = with_fault(pgsql, plan, thunk)
            code = 0 if e is None else (3 if type(e).__name__ == "ParsingError" else 4)
        finally:
            os._exit(code)
    _, status = os.waitpid(pid, 0)
    code = os.waitstatus_to_exitcode(status)
    return {0: "ok", 3: "parsing", 4: "other", 17: "died"}.get(code, f"exit{code}")


# ------------------------------------------------------------------------------------------------- after the fault
def recover(path):
    """What the next user of the file finds: an independent READ-WRITE connection (plays back a hot journal), integrity_check.
    -> (a journal file was left behind, integrity_check rows or [('error: …',)])"""
    hot = os.path.exists(path + "-journal")
    try:
        con = sqlite3.connect(path)
        try:
            integ = con.execute("PRAGMA integrity_check").fetchall()
        finally:
            con.close()
    except sqlite3.Error as e:
        integ = [(f"error: {type(e).__name__}: {e}"[:200],)]
    return hot, integ


def safe_read(path):
    """(tables or None, integrity rows, foreign_key_check rows, error text or None): a malformed file is a finding, not a crash."""
    try:
        t, integ, fk = sl.read_tables(path)
        return t, integ, fk, None
    except sqlite3.Error as e:
        return None, [(f"error: {type(e).__name__}: {e}"[:200],)], [], f"{type(e).__name__}: {e}"[:300]


# ------------------------------------------------------------------------------------------------- deviations
def env_token(env):
    """Request line for Drv/Pager.lean: `env <journal_mode> <synchronous> <T|F one transaction>` is completed by the caller."""
    jm = str(env.get("journal_mode"))
    sy = env.get("synchronous")
    return jm if re.fullmatch(r"[a-z]+", jm) else "unknown", sy if isinstance(sy, int) else -1


def autocommit_on(env):
    """isolation_level=None (legacy control: no implicit BEGIN) or autocommit=True (3.12 attribute)."""
    return env.get("isolation_level") is None or env.get("autocommit") is True


#: the settings `Model.Pager.Env` represents (their value goes to the driver, the model gives the verdict); a deviation in any other
#: observed setting is outside the model
MODELLED = ("journal_mode", "synchronous")


def deviations(plan, default):
    """Everything in which the environment the operation ran in differs from the one the theorems were instantiated for (the defaults
    of a plain connection; one connection; one transaction ended by the wrapper): [(key, text)], key = the setting, or 'shape'."""
    out = []
    for env in plan.envs:
        for key, want in default.items():
            if env.get(key) != want:
                item = (key, f"{key} = {env.get(key)!r} while the operation runs (a plain connection has {want!r})")
                if item not in out:
                    out.append(item)
    if plan.connects != 1:
        out.append(("shape", f"{plan.connects} connections opened by one call (each has its own transaction)"))
    if plan.commits > 1:
        out.append(("shape", f"{plan.commits} commits issued by one call"))
    out += [("shape", x) for x in plan.shape]
    return out
