"""Shared machinery of the pyGAPS proof checks.

One `Check` object per run of `./check Cxx --tier T`:
  regenerate Gen/ -> lake build -> axiom audit -> hygiene grep -> (property harness:
  corpus, correspondence, failing-input search, known findings) -> evidence -> exit code.

Exit codes: 0 property held on everything explored; 1 VIOLATION (line printed);
2 infrastructure problem (never reported as a violation).
"""
import hashlib
import json
import os
import random
import re
import subprocess
import sys
import time
import traceback
from fractions import Fraction
from pathlib import Path

VERIF = Path(__file__).resolve().parents[2]
LEAN = Path(os.environ.get("PGV_LEAN_DIR") or (VERIF / "lean"))  # PGV_LEAN_DIR: private copy for parallel self-tests only
REPO = Path(os.environ.get("PGV_REPO", "/repo"))
SRC = REPO / "src" / "pygaps"
ALLOWED_AXIOMS = {"propext", "Classical.choice", "Quot.sound"}
HYGIENE_RE = re.compile(
    r"\bsorry\b|\badmit\b|^\s*axiom\s|native_decide|bv_decide|implemented_by|\bunsafe\s|maxHeartbeats\s+0\b"
)

TRUSTED_BASE = [
    "Lean 4.33.0 kernel (thorough tier: re-checked with leanchecker)",
    "Mathlib v4.33.0 as compiled under /opt/veriftools/mathlib4",
    "axioms: propext, Classical.choice, Quot.sound only (audited with #print axioms on every run)",
    "translator harness/pgv/translate.py (Python ast -> Lean text), validated by running Gen definitions against the Python originals",
    "correspondence harness (this process) and the Lean interpreter running PgVerif/Driver.lean",
    "IEEE-754 rounding, numpy/pandas/scipy/CoolProp/SQLite internals: modelled or measured, not verified",
]


class Infra(Exception):
    """Machinery problem: exit 2."""


def sh(cmd, cwd=None, timeout=3600, env=None, input=None):
    e = dict(os.environ)
    if env:
        e.update(env)
    p = subprocess.run(cmd, cwd=cwd, capture_output=True, text=True, timeout=timeout, env=e, input=input)
    return p.returncode, p.stdout, p.stderr


def strip_lean_comments(text):
    """Remove /- -/ block comments (nested) and -- line comments."""
    out = []
    i, n, depth = 0, len(text), 0
    while i < n:
        if text.startswith("/-", i):
            depth += 1
            i += 2
        elif depth and text.startswith("-/", i):
            depth -= 1
            i += 2
        elif depth:
            if text[i] == "\n":
                out.append("\n")
            i += 1
        elif text.startswith("--", i):
            while i < n and text[i] != "\n":
                i += 1
        else:
            out.append(text[i])
            i += 1
    return "".join(out)


def frac(x):
    """Exact rational of a python number (finite float/int/Fraction)."""
    if isinstance(x, Fraction):
        return x
    if isinstance(x, bool):
        raise TypeError("bool")
    if isinstance(x, int):
        return Fraction(x)
    return Fraction(float(x))


def qstr(x):
    f = frac(x)
    return f"{f.numerator}/{f.denominator}"


def parse_q(s):
    n, d = s.split("/")
    return Fraction(int(n), int(d))


def close(a, b, rel=1e-11, abs_=1e-300):
    """a, b numbers (Fraction/float).  relative comparison done exactly."""
    fa, fb = frac(a), frac(b)
    if fa == fb:
        return True
    diff = abs(fa - fb)
    scale = max(abs(fa), abs(fb))
    return diff <= Fraction(rel) * scale or diff <= Fraction(abs_)


def tok(v):
    """Encode a value for the line protocol."""
    if v is None:
        return "~"
    if isinstance(v, str):
        if v == "":
            return '""'
        assert not re.search(r"\s|;|\[|\]|=", v), v
        return v
    if isinstance(v, bool):
        return "T" if v else "F"
    if isinstance(v, (list, tuple)):
        return "[" + ";".join(tok(x) for x in v) + "]"
    return qstr(v)


class Check:
    def __init__(self, pid, tier, seed, replay=None):
        self.pid = pid
        self.tier = tier
        self.seed = seed
        self.replay = replay
        self.rng = random.Random(f"{pid}/{seed}")
        self.t0 = time.time()
        self.violations = []          # (replay_path, note)
        self.known_hits = []
        self.theorems = {}            # name -> axioms list
        self.obligations = 0
        self.discharged = 0
        self.build_log = ""
        self.broken = []              # descriptions of broken proof/tie/correspondence steps
        self.cov = {
            "evaluations": 0,
            "distinct_nontrivial": 0,
            "rule": "",
            "samples": [],
            "exhaustive": False,
            "distribution": {},
        }
        self._distinct = set()
        self.assumptions = []
        self.findings = [f for f in load_findings() if f["property"] == pid]
        self.notes = []
        self.gen_info = {}
        self.failed_sigs = []
        self.extra_prop_files = []
        self.boost = float(os.environ.get("PGV_BOOST", "1"))
        self.stale_stamps = []
        self.package_changed = []
        self.replay_obj = json.loads(Path(replay).read_text()) if replay else None

    # ---------------------------------------------------------------- sizes
    def n(self, quick, thorough):
        """Size of a generator loop: the thorough value in the thorough tier; in the quick tier the quick value times `boost`
        (PGV_BOOST, or 3 when a source stamp of the property is stale: the modelled code has moved), never beyond the thorough value."""
        if self.tier == "thorough":
            return thorough
        b = self.boost
        if thorough >= quick:
            return min(thorough, int(round(quick * b)))
        return max(thorough, int(round(quick / b)))

    # ---------------------------------------------------------------- counting
    def count(self, key, nontrivial=True, sample=None, bucket=None):
        """Register one executed case.  key = canonical description (hashable)."""
        self.cov["evaluations"] += 1
        if nontrivial:
            h = hashlib.md5(repr(key).encode()).digest()[:8]
            self._distinct.add(h)
        if bucket is not None:
            d = self.cov["distribution"]
            d[bucket] = d.get(bucket, 0) + 1
        if sample is not None and len(self.cov["samples"]) < 12:
            self.cov["samples"].append(sample)

    # ---------------------------------------------------------------- lean side
    def regenerate(self, which=None):
        from . import translate
        try:
            info = translate.generate(SRC, LEAN / "PgVerif" / "Gen", which)
            self.gen_info = info
            return True
        except translate.Untranslatable as e:
            self.broken.append({"step": "translate", "what": str(e)})
            return False

    def lake_build(self, modules):
        rc, out, err = sh(["lake", "build"] + list(modules), cwd=LEAN, timeout=3000)
        self.build_log = (out + err)[-6000:]
        if rc != 0:
            errs = [l for l in (out + err).splitlines() if "error" in l.lower()][:12]
            self.broken.append({"step": "lake build " + " ".join(modules), "what": "\n".join(errs) or self.build_log[-1500:]})
            return False
        return True

    def prop_files(self):
        """Props/<pid>.lean, Props/<pid>/*.lean and any extra theorem files of the property (tie lemmas)."""
        base = LEAN / "PgVerif" / "Props"
        fs = []
        if (base / f"{self.pid}.lean").exists():
            fs.append(base / f"{self.pid}.lean")
        fs += sorted((base / self.pid).glob("*.lean")) if (base / self.pid).is_dir() else []
        fs += [LEAN / x for x in self.extra_prop_files]
        return fs

    def list_theorems(self, files=None):
        """(namespace-qualified) names of theorem declarations in the property files."""
        names = []
        for f in files or self.prop_files():
            text = strip_lean_comments(f.read_text())
            ns = []
            for line in text.splitlines():
                m = re.match(r"\s*namespace\s+(\S+)", line)
                if m:
                    ns.append(m.group(1))
                    continue
                m = re.match(r"\s*end\s+(\S+)", line)
                if m and ns and ns[-1] == m.group(1):
                    ns.pop()
                    continue
                m = re.match(r"\s*(?:@\[[^\]]*\]\s*)?(?:protected\s+)?theorem\s+(\S+)", line)  # private helpers are not obligations
                if m:
                    names.append(".".join(ns + [m.group(1)]))
        return names

    def audit(self, extra_files=()):
        """#print axioms on every property theorem; hygiene grep over the project."""
        files = self.prop_files() + [Path(p) for p in extra_files]
        names = self.list_theorems(files)
        self.obligations = len(names)
        if not names:
            raise Infra("no theorems found in " + ", ".join(map(str, files)))
        mods = []
        for f in files:
            rel = f.relative_to(LEAN).with_suffix("")
            mods.append(".".join(rel.parts))
        src = "".join(f"import {m}\n" for m in mods) + "".join(f"#print axioms {n}\n" for n in names)
        adir = LEAN / "PgVerif" / "Audit"
        adir.mkdir(exist_ok=True)
        af = adir / f"{self.pid}.lean"
        af.write_text(src)
        rc, out, err = sh(["lake", "env", "lean", str(af.relative_to(LEAN))], cwd=LEAN, timeout=1200)
        text = out + err
        # parse "'name' depends on axioms: [a, b]" / "'name' does not depend on any axioms"
        text1 = re.sub(r"\s+", " ", text)
        for n in names:
            m = re.search(r"'" + re.escape(n) + r"' depends on axioms: \[([^\]]*)\]", text1)
            if m:
                ax = [a.strip() for a in m.group(1).split(",") if a.strip()]
            elif re.search(r"'" + re.escape(n) + r"' does not depend on any axioms", text1):
                ax = []
            else:
                ax = None
            self.theorems[n] = ax
        bad = {n: a for n, a in self.theorems.items() if a is None or not set(a) <= ALLOWED_AXIOMS}
        self.discharged = len(names) - len(bad)
        if bad:
            self.broken.append({"step": "axiom audit", "what": json.dumps(bad)[:1500] + " :: " + text[-800:]})
        # hygiene grep over hand-written + generated lean
        hits = []
        own = {f.resolve() for f in files}
        for f in sorted((LEAN / "PgVerif").rglob("*.lean")):
            # the property's own theorem files and everything they can import (models, lemmas, ties, specs, generated text);
            # other properties' theorem files are audited by their own checks
            rel = f.relative_to(LEAN / "PgVerif").parts
            if rel[0] == "Props" and f.resolve() not in own and not (len(rel) > 1 and rel[1] == self.pid):
                continue
            for i, line in enumerate(strip_lean_comments(f.read_text()).splitlines(), 1):
                if HYGIENE_RE.search(line):
                    hits.append(f"{f.relative_to(LEAN)}:{i}: {line.strip()[:100]}")
        if hits:
            self.broken.append({"step": "hygiene grep", "what": "\n".join(hits[:20])})
        return not bad and not hits

    def leanchecker(self, modules):
        rc, out, err = sh(["lake", "env", "leanchecker"] + list(modules), cwd=LEAN, timeout=3000)
        if rc != 0:
            self.broken.append({"step": "leanchecker", "what": (out + err)[-1500:]})
            return False
        self.notes.append("leanchecker ok: " + " ".join(modules))
        return True

    def drive(self, driver, lines, timeout=3000):
        """Run the Lean driver PgVerif/Drv/<driver>.lean on request lines; returns reply lines (same length)."""
        if not lines:
            return []
        data = "\n".join(lines) + "\n"
        rc, out, err = sh(["lake", "env", "lean", "--run", f"PgVerif/Drv/{driver}.lean"], cwd=LEAN, timeout=timeout, input=data)
        replies = out.splitlines()
        if rc != 0 or len(replies) != len(lines):
            raise Infra(f"driver rc={rc} replies={len(replies)}/{len(lines)} err={err[-1500:]} out_tail={out[-300:]}")
        return replies

    # ---------------------------------------------------------------- findings / violations
    def match_known(self, sig):
        """sig: dict describing the failing case.  A known finding matches if all of its
        `match` keys equal the corresponding keys of sig."""
        for f in self.findings:
            if f.get("status") != "known":
                continue
            m = f.get("match", {})
            if m and all(sig.get(k) == v for k, v in m.items()):
                return f
        return None

    def fail_case(self, sig, detail):
        """A concrete input on which the property fails on the real code."""
        f = self.match_known(sig)
        if f is not None:
            if f["id"] not in [k["id"] for k in self.known_hits]:
                self.known_hits.append(f)
            return False
        self.failed_sigs.append(sig)
        self.write_violation({"kind": "failing-input", "signature": sig, "detail": detail})
        return True

    def write_violation(self, obj, no_input=False):
        obj = dict(obj)
        obj["property"] = self.pid
        obj["seed"] = self.seed
        obj["tier"] = self.tier
        obj["boost"] = self.boost
        blob = json.dumps(obj, sort_keys=True, default=str)
        dg = hashlib.md5(blob.encode()).hexdigest()[:10]
        rdir = Path(os.environ.get("PGV_REPLAY_DIR") or (VERIF / "replays"))
        rdir.mkdir(exist_ok=True, parents=True)
        path = rdir / f"{self.pid}-{dg}.json"
        shown = f"replays/{path.name}" if rdir == VERIF / "replays" else str(path)
        obj["replay_cmd"] = f"./check {self.pid} --replay {shown}"
        path.write_text(json.dumps(obj, indent=1, default=str))
        if len(self.violations) < 5:
            line = f"VIOLATION property={self.pid} replay={shown}"
            if no_input:
                line += " no-failing-input-found"
            print(line, flush=True)
        self.violations.append(str(path))

    # ---------------------------------------------------------------- finish
    def finish(self, level="proof", checker_cmd=None, extra=None):
        # broken proof / correspondence without a concrete failing input
        if self.broken and not self.violations:
            self.write_violation({"kind": "no-longer-shown", "broken": self.broken, "functions_changed_since_model_validation": self.stale_stamps}, no_input=True)
        for f in self.known_hits:
            print(f"KNOWN-FINDING: property={self.pid} {f['id']}: {f['what']}", flush=True)
        self.cov["distinct_nontrivial"] = len(self._distinct)
        self.cov["obligations"] = self.obligations
        self.cov["discharged"] = self.discharged
        self.cov["checker_cmd"] = checker_cmd or (
            f"cd lean && lake build PgVerif.Props.{self.pid} && lake env lean PgVerif/Audit/{self.pid}.lean"
        )
        self.cov["trusted_base"] = TRUSTED_BASE
        self.cov["theorems"] = self.theorems
        self.cov["broken_steps"] = self.broken
        self.cov["known_findings_reproduced"] = [f["id"] for f in self.known_hits]
        self.cov["generated"] = self.gen_info
        self.cov["notes"] = self.notes
        self.cov["source_stamps"] = {"stale": self.stale_stamps, "package_files_changed": self.package_changed, "boost": self.boost,
                                     "what": "digests of the normalised AST of every function of the anchored files (harness/stamps.lock.json) compared with the current tree"}
        if extra:
            self.cov.update(extra)
        ev = {
            "property_id": self.pid,
            "tier": self.tier,
            "seed": int(self.seed),
            "level": level,
            "coverage": self.cov,
            "assumptions": self.assumptions,
            "wall_s": round(time.time() - self.t0, 2),
            "violations": len(self.violations),
        }
        edir = Path(os.environ.get("PGV_EVIDENCE_DIR") or (VERIF / "evidence"))   # seed/self-test runs write elsewhere
        edir.mkdir(exist_ok=True, parents=True)
        (edir / f"{self.pid}.json").write_text(json.dumps(ev, indent=1, default=str))
        ok = not self.violations
        print(
            f"[{self.pid}] tier={self.tier} seed={self.seed} theorems={self.discharged}/{self.obligations} "
            f"cases={self.cov['evaluations']} distinct={self.cov['distinct_nontrivial']} "
            f"known={len(self.known_hits)} violations={len(self.violations)} "
            f"wall={ev['wall_s']}s -> {'OK' if ok else 'FAIL'}",
            flush=True,
        )
        return 0 if ok else 1


def anchor_files(pid):
    for line in (VERIF / "properties.jsonl").read_text().splitlines():
        if line.strip():
            d = json.loads(line)
            if d["id"] == pid:
                return list(d["anchors"]["files"])
    return []


def load_findings():
    p = VERIF / "known_findings.json"
    if not p.exists():
        return []
    return json.loads(p.read_text())["findings"]


def import_pygaps():
    """Import pyGAPS from the working tree under check (never from site-packages)."""
    src = str(REPO / "src")
    if src not in sys.path:
        sys.path.insert(0, src)
    import logging
    import warnings
    warnings.filterwarnings("ignore")
    import pygaps  # noqa
    if not str(Path(pygaps.__file__).resolve()).startswith(str(REPO.resolve())):
        raise Infra(f"pygaps imported from {pygaps.__file__}, expected under {REPO}")
    logging.getLogger("pygaps").setLevel(logging.CRITICAL)
    pygaps.logger.setLevel(logging.CRITICAL)
    return pygaps


def err_class(e):
    """Canonical error class of an exception raised by the implementation."""
    n = type(e).__name__
    return {
        "ParameterError": "param",
        "CalculationError": "calc",
        "ParsingError": "parsing",
        "GraphingError": "graph",
    }.get(n, "other:" + n)


def run_check(pid, tier, seed, replay, body, modules=None, gen=None, level="proof", drivers=(), extra_prop_files=()):
    """Common driver.  body(ck) runs the property-specific part."""
    ck = Check(pid, tier, seed, replay)
    ck.extra_prop_files = list(extra_prop_files)
    # watchdog: a run that does not finish (a numerical library looping on NaN input, a dead-locked child) is an infrastructure problem, exit 2
    import threading
    limit = float(os.environ.get("PGV_TIMEOUT") or (7200 if tier == "thorough" else 1800))

    def _watchdog():
        print(f"[{pid}] TIMEOUT: no result after {limit:.0f} s (PGV_TIMEOUT)", file=sys.stderr, flush=True)
        os._exit(2)
    _t = threading.Timer(limit, _watchdog)
    _t.daemon = True
    _t.start()
    if ck.replay_obj is not None:
        ck.seed = seed = int(ck.replay_obj.get("seed", seed))
        ck.tier = tier = ck.replay_obj.get("tier", tier)
        ck.rng = random.Random(f"{pid}/{seed}")
    try:
        ok = ck.regenerate(gen)
        mods = modules or [".".join(f.relative_to(LEAN).with_suffix("").parts) for f in ck.prop_files()]
        if ok:
            ok = ck.lake_build(mods + [f"PgVerif.Drv.{d}" for d in drivers])
        if ok:
            ck.audit()
            if tier == "thorough" and os.environ.get("PGV_SKIP_LEANCHECKER") != "1":
                ck.leanchecker(mods)
        ck.proof_ok = ok and not ck.broken
        # source stamps: has the code that the hand-written models mirror moved since they were last validated?
        from . import stamps
        lock_all = stamps.load_lock(VERIF)
        lock = lock_all.get("stamps", {}).get(pid)
        pkg = lock_all.get("package")
        if pkg is not None:
            now = stamps.package_digests(REPO)
            ck.package_changed = sorted(k for k in set(pkg) | set(now) if pkg.get(k) != now.get(k))
            if ck.package_changed:
                ck.boost = max(ck.boost, 2.0)
                ck.notes.append("files of the package that differ from the tree the models were validated against (quick-tier search enlarged x2): " + "; ".join(ck.package_changed[:30]))
        if lock is not None:
            ck.stale_stamps = stamps.compare(lock, stamps.current(REPO, anchor_files(pid)))
            if ck.stale_stamps:
                ck.boost = max(ck.boost, 3.0)
                ck.notes.append("stale source stamps (functions of the anchored files whose normalised AST differs from the one the models were validated "
                                "against; the quick-tier search was enlarged x3): " + "; ".join(ck.stale_stamps[:40]))
        if ck.replay_obj is not None and ck.replay_obj.get("boost"):
            ck.boost = float(ck.replay_obj["boost"])
        cov = None
        if os.environ.get("PGV_IMPCOV", "1") != "0":
            from . import impcov
            cov = impcov.ImpCov(SRC, anchor_files(pid))
            cov.start()
        try:
            body(ck)
        finally:
            if cov is not None:
                cov.stop()
        if cov is not None:
            rep = cov.report()
            expect = impcov.expectation(VERIF).get(pid, {})
            unexpected = {rel: [q for q in r["functions_never_entered"] if q not in expect.get(rel, [])] for rel, r in rep.items()}
            unexpected = {k: v for k, v in unexpected.items() if v}
            ck.cov["implementation_coverage"] = {
                "what": "statement lines of the property's anchored files executed in this process by the harness body (sys.monitoring)",
                "files": rep,
                "functions_not_reached_and_not_expected": unexpected,
            }
            if unexpected:
                ck.notes.append("implementation coverage: anchored functions not reached by this run and not listed in harness/impcov_expect.json: "
                                + json.dumps(unexpected)[:1500])
        rc = ck.finish(level=level)
        if ck.replay_obj is not None:
            # replay mode: exit 1 iff the recorded failure is still there
            want = ck.replay_obj
            if want.get("kind") == "failing-input":
                again = want.get("signature") in ck.failed_sigs
            else:
                again = bool(ck.broken)
            print(f"[{pid}] replay of {replay}: {'REPRODUCED' if again else 'not reproduced'}", flush=True)
            return 1 if again else 0
        return rc
    except Infra as e:
        print(f"[{pid}] INFRASTRUCTURE: {e}", file=sys.stderr, flush=True)
        return 2
    except subprocess.TimeoutExpired as e:
        print(f"[{pid}] TIMEOUT: {e}", file=sys.stderr, flush=True)
        return 2
    except Exception:
        traceback.print_exc()
        return 2
