"""E17 — the isotherm constructors against the Lean model `Model/Construct.lean` (driver `Drv/Construct.lean`) and against the
documented interface (Spec), used by a new section of harness/props/c05.py.

  (1) translator validation: the generated tables (Gen/IsoParams) == the class attributes / signatures of the imported classes == the tables
      the driver runs on; the Lean Spec (driver `spec`) == the constants below.
  (2) property oracles on the REAL constructors, driven by the documented interface only (no model): a missing required descriptor is refused;
      omitted unit parameters read back as the documented defaults; accepted <=> the labels after defaulting are a valid set (independent
      predicate from the unit tables of pgv.isogen); a relative mode stores no pressure unit; the unit / required / shorthand keys never
      appear among the metadata; every key the class does not declare reserved is kept as metadata; shorthands == long names (also for
      falsy values); `Cls(**iso.to_dict())` has the same dictionary and identifier (all three classes, and the `from_*` class methods);
      the order of keyword arguments is irrelevant.
  (3) correspondence: seeded argument dictionaries (valid-mostly + malformed) through BaseIsotherm / PointIsotherm / ModelIsotherm(model
      instance) and through the model: outcome class, `to_dict()` key by key with types, the caller's material dictionary after the call;
      the data arguments of PointIsotherm (keys, column order, other_keys, branch marks) and the routes of ModelIsotherm.
All randomness from ck.rng.  Registered materials used here are removed again; nothing is left in the global registries.
"""
import copy
import inspect
import json
from fractions import Fraction

from pgv import isogen
from pgv.core import close, frac, qstr

# ---------------------------------------------------------------------------------------------------- documented interface (docs/manual/isotherm.rst)
SPEC = {
    "required": ["material", "adsorbate", "temperature"],
    "shorthands": [["m", "material"], ["a", "adsorbate"], ["t", "temperature"]],
    "unit_defaults": [["pressure_mode", "absolute"], ["pressure_unit", "bar"], ["loading_basis", "molar"], ["loading_unit", "mmol"],
                      ["material_basis", "mass"], ["material_unit", "g"], ["temperature_unit", "K"]],
    "json_keys": ["file_version", "isotherm_data", "isotherm_model"],
}
UNIT_KEYS = [k for k, _ in SPEC["unit_defaults"]]
DEFAULT = dict(map(tuple, SPEC["unit_defaults"]))
TEMP_UNITS = ["K", "°C"]
REG_PLAIN, REG_PROPS = "pgv_reg_plain", "pgv_reg_props"
REG_PROPS_ORIG = {"density": 1.5, "batch": "b7"}
ERR = {"ParameterError": "param", "AttributeError": "attr", "TypeError": "type", "ValueError": "value", "KeyError": "key"}


def spec_valid(u):
    """Independent statement of "a valid set of labels" (unit tables of pgv.isogen, written from the SI tables): u maps the seven keys to a string or None."""
    def s(k):
        return u[k] if isinstance(u[k], str) else None
    if s("pressure_mode") not in ("absolute", "relative", "relative%"):
        return False
    if s("pressure_mode") == "absolute" and s("pressure_unit") not in isogen.PA:
        return False
    lb, mb = s("loading_basis"), s("material_basis")
    if lb not in list(isogen.LOAD) + ["fraction", "percent"] or mb not in isogen.MAT:
        return False
    if lb in isogen.LOAD and (s("loading_unit") not in isogen.LOAD[lb] or s("material_unit") not in isogen.MAT[mb]):
        return False
    return s("temperature_unit") in TEMP_UNITS


# ---------------------------------------------------------------------------------------------------- transport
class Mat:
    """Description of a `Material` instance argument (the real object is created per call)."""

    def __init__(self, name, props):
        self.name, self.props = name, dict(props)

    def __repr__(self):
        return f"Mat({self.name!r}, {self.props!r})"


def enc_sc(v):
    if v is None or isinstance(v, (bool, str)):
        return v
    if isinstance(v, int):
        return v
    if isinstance(v, float):
        return {"$f": qstr(v)}
    raise TypeError(f"not a scalar: {v!r}")


def enc(v):
    if isinstance(v, Mat):
        return {"$m": {"name": v.name, "props": [[k, enc_sc(x)] for k, x in v.props.items()]}}
    if isinstance(v, dict):
        return {"$d": [[k, enc_sc(x)] for k, x in v.items()]}
    if isinstance(v, (list, tuple)):
        return [enc_sc(x) for x in v]
    return enc_sc(v)


def dec(j):
    """model value -> python value; floats come back as Fractions"""
    if isinstance(j, dict):
        if "$f" in j:
            n, d = j["$f"].split("/")
            return Fraction(int(n), int(d))
        if "$d" in j:
            return {k: dec(v) for k, v in j["$d"]}
        if "$m" in j:
            return Mat(j["$m"]["name"], {k: dec(v) for k, v in j["$m"]["props"]})
    if isinstance(j, list):
        return [dec(x) for x in j]
    return j


def same(model_v, real_v, tol=0.0):
    """model value (ints, Fractions for floats, …) against the implementation's value, types included"""
    if isinstance(model_v, Fraction):
        if not isinstance(real_v, float) or real_v != real_v or real_v in (float("inf"), float("-inf")):
            return False
        return frac(real_v) == model_v or (tol > 0 and close(model_v, real_v, rel=tol))
    if isinstance(model_v, bool) or model_v is None or isinstance(model_v, (int, str)):
        return type(model_v) is type(real_v) and model_v == real_v
    if isinstance(model_v, list):
        return isinstance(real_v, (list, tuple)) and len(model_v) == len(real_v) and all(same(a, b, tol) for a, b in zip(model_v, real_v))
    if isinstance(model_v, dict):
        return isinstance(real_v, dict) and set(model_v) == set(real_v) and all(same(model_v[k], real_v[k], tol) for k in model_v)
    return False


def realise(pg, v):
    """argument description -> fresh python argument (dictionaries are copied: the constructor empties them)"""
    if isinstance(v, Mat):
        return pg.Material(v.name, **v.props)
    return copy.deepcopy(v)


def plain(v):
    """for replay files"""
    if isinstance(v, Mat):
        return {"Material": v.name, **v.props}
    if isinstance(v, dict):
        return {k: plain(x) for k, x in v.items()}
    if isinstance(v, (list, tuple)):
        return [plain(x) for x in v]
    return v


# ---------------------------------------------------------------------------------------------------- the session's registries
class Session:
    def __init__(self, pg):
        self.pg = pg
        self.reg = [pg.Material(REG_PLAIN, store=True), pg.Material(REG_PROPS, store=True, **REG_PROPS_ORIG)]

    def reset(self):
        self.reg[0].properties.clear()
        self.reg[1].properties.clear()
        self.reg[1].properties.update(REG_PROPS_ORIG)

    def close(self):
        for m in self.reg:
            while m in self.pg.MATERIAL_LIST:
                self.pg.MATERIAL_LIST.remove(m)

    def ads_find(self, s):
        """what `Adsorbate.find` answers for a string: the registered adsorbate listing the lower-cased string as an alias"""
        for a in self.pg.ADSORBATE_LIST:
            if s.lower() in a.alias:
                return a.name
        return None

    def mat_find(self, s):
        for m in self.pg.MATERIAL_LIST:
            if m.name == s:
                return dict(m.properties)
        return None

    def world(self, args):
        """registry answers for every string the constructor may look up in this call"""
        ads, mat = {}, {}
        for k in ("adsorbate", "a"):
            v = args.get(k)
            if isinstance(v, str) and v not in ads:
                r = self.ads_find(v)
                if r is not None:
                    ads[v] = r
        for k in ("material", "m"):
            v = args.get(k)
            name = v.get("name") if isinstance(v, dict) else v
            if isinstance(name, str) and name not in mat:
                r = self.mat_find(name)
                if r is not None:
                    mat[name] = r
        return {"ads": [[k, v] for k, v in ads.items()], "mat": [[k, [[a, enc_sc(b)] for a, b in v.items()]] for k, v in mat.items()]}


# ---------------------------------------------------------------------------------------------------- generators
ADS_OK = ["N2", "nitrogen", "NITROGEN", "CO2", "argon", "pgv_custom_gas", "Custom Gas X", ""]
MAT_NAMES = ["zeolite-X", "MOF-5", "carbon black", "mat_ü", "", REG_PLAIN, REG_PROPS]
TEMP_OK = [77, 77.355, 298.15, 0, 0.0, -5, 1e-3, True, False, "77.3", " 77 ", "1e2", "-0.5", ".5", "7.", "+12.25e-1", "00300"]
TEMP_BAD = ["abc", "", "1,5", "K77", "1e", "--5", "7 7", [77], {}, (1, 2)]
RESERVED_META = ["_material", "_adsorbate", "_temperature", "data_raw", "other_keys", "l_interpolator", "model", "properties", "file_version", "isotherm_model"]


def gen_material(rng, malformed):
    r = rng.random()
    if malformed and r < 0.25:
        return rng.choice([5, True, 2.5, [1, 2], None])
    if r < 0.5:
        return rng.choice(MAT_NAMES)
    if r < 0.8:
        d = {}
        kind = rng.random()
        if kind < 0.75:
            d["name"] = rng.choice(MAT_NAMES)
        elif kind < 0.85:
            d["name"] = rng.choice([5, None, True])
        for k in rng.sample(["density", "molar_mass", "batch", "comment", "n"], rng.randint(0, 3)):
            d[k] = {"density": round(rng.uniform(0.5, 3), 3), "molar_mass": rng.choice([60.08, 100]), "batch": rng.choice(["b1", "b2"]),
                    "comment": rng.choice(["x y", "", None]), "n": rng.randint(0, 5)}[k]
        if rng.random() < 0.3:
            items = list(d.items())
            rng.shuffle(items)
            d = dict(items)
        return d
    return Mat(rng.choice(["obj-A", "obj-B", REG_PROPS]), {} if rng.random() < 0.4 else {"density": round(rng.uniform(0.5, 3), 3), "tag": "t1"})


def gen_adsorbate(rng, malformed):
    if malformed and rng.random() < 0.3:
        return rng.choice([5, True, ["N2"], None, 2.5, {"name": "N2"}])
    return rng.choice(ADS_OK)


def gen_temperature(rng, malformed):
    if malformed and rng.random() < 0.3:
        return rng.choice(TEMP_BAD + [None])
    r = rng.random()
    if r < 0.5:
        return rng.choice(TEMP_OK)
    if r < 0.75:
        return round(rng.uniform(-200, 600), rng.randint(0, 6))
    if r < 0.9:
        return rng.randint(-10, 900)
    x = round(rng.uniform(0, 500), rng.randint(0, 5))
    return rng.choice([f"{x}", f" {x}", f"{x:e}", f"+{x}", f"{x} "])


def gen_units(rng, malformed):
    u = isogen.units(rng)
    if u["loading_basis"] not in isogen.LOAD and rng.random() < 0.5:
        u["loading_unit"] = rng.choice([None, "mmol", "nonsense", 5])           # not looked at under fraction / percent
        if rng.random() < 0.3:
            u["material_unit"] = rng.choice(["nonsense", None, "kg"])
    if u["pressure_mode"] != "absolute" and rng.random() < 0.5:
        u["pressure_unit"] = rng.choice(["bar", "Pa", "nonsense", 5, None])        # forced to None
    for k in list(u):
        if rng.random() < 0.35:
            del u[k]                                                               # defaults
    if malformed:
        for _ in range(rng.randint(1, 2)):
            k = rng.choice(UNIT_KEYS)
            u[k] = rng.choice([None, "", "nonsense", 5, True, 1.5, ["bar"], {"a": 1}, "volume", "relativeX", "relative%", "relative", "absolute", "kg", "mol", "L",
                               "Pa", "C", "percent", "fraction", "Bar", "K"])
    return u


def gen_meta(rng, malformed):
    md = isogen.metadata(rng)
    for k, v in list(md.items()):
        if isinstance(v, float) and (v != v or v in (float("inf"), float("-inf"))):
            md[k] = 1.0
    if rng.random() < (0.5 if malformed else 0.15):
        for k in rng.sample(RESERVED_META, rng.randint(1, 2)):
            md[k] = rng.choice(["as-metadata", 3, None, [1, 2]])
    return md


def gen_args(rng, malformed):
    """keyword dictionary for a constructor call, in a random order"""
    a = {}
    style = rng.choice(["long", "long", "short", "mixed", "both"])
    for long_name, short, gen in (("material", "m", gen_material), ("adsorbate", "a", gen_adsorbate), ("temperature", "t", gen_temperature)):
        v = gen(rng, malformed)
        if malformed and rng.random() < 0.12:
            continue                                                                 # missing
        use_short = style == "short" or (style == "mixed" and rng.random() < 0.5)
        if style == "both":
            a[long_name] = v
            a[short] = rng.choice([None, gen(rng, False), 0, ""])
        elif use_short:
            a[short] = v
        else:
            a[long_name] = v
    a.update(gen_units(rng, malformed))
    a.update(gen_meta(rng, malformed))
    items = list(a.items())
    rng.shuffle(items)
    return dict(items)


# ---------------------------------------------------------------------------------------------------- running one call on the real classes
def call_real(pg, cls_name, args, extra=None):
    """(outcome, iso | None, realised args) — outcome 'ok' or the error class"""
    from pygaps.core.baseisotherm import BaseIsotherm
    cls = {"base": BaseIsotherm, "point": pg.PointIsotherm, "model": pg.ModelIsotherm}[cls_name]
    real = {k: realise(pg, v) for k, v in args.items()}
    kw = dict(real)
    kw.update(extra or {})
    try:
        iso = cls(**kw)
        return "ok", iso, real
    except Exception as e:  # noqa
        return ERR.get(type(e).__name__, "other:" + type(e).__name__), None, real


def real_dict(iso):
    try:
        return "ok", iso.to_dict()
    except Exception as e:  # noqa
        return ERR.get(type(e).__name__, "other:" + type(e).__name__), None


def sig_args(args):
    return json.loads(json.dumps({k: plain(v) for k, v in args.items()}, default=str))


def compare_dict(model_pairs, real):
    """first difference between the model's dictionary and `to_dict()`, or None"""
    md = {k: dec(v) for k, v in model_pairs}
    if set(md) != set(real):
        return {"keys only in model": sorted(set(md) - set(real)), "keys only in to_dict": sorted(set(real) - set(md), key=str)}
    for k in md:
        tol = 1e-15 if k == "temperature" else 0.0          # float('77.3') is correctly rounded: 2^-53 relative; measured max 1.1e-16
        if not same(md[k], real[k], tol):
            return {"key": k, "model": str(md[k])[:120], "to_dict": repr(real[k])[:120]}
    return None


# ---------------------------------------------------------------------------------------------------- (1) tables
def check_tables(ck, pg, replies):
    from pygaps.core import baseisotherm as bi
    from pygaps.parsing import json as pj
    B, P, M = bi.BaseIsotherm, pg.PointIsotherm, pg.ModelIsotherm
    g = (ck.gen_info or {}).get("IsoParams")
    n = 0

    def named(cls, skip=1):
        ps = list(inspect.signature(cls.__init__).parameters.values())[skip:]
        return [[p.name, (None if p.default is None else (p.default if isinstance(p.default, str) else repr(p.default)))] for p in ps if p.kind == p.POSITIONAL_OR_KEYWORD]

    real = {"required": list(B._required_params), "unit_params": [list(x) for x in B._unit_params.items()], "reserved_base": list(B._reserved_params),
            "reserved_point": list(P._reserved_params), "reserved_model": list(M._reserved_params), "shorthands": [list(x) for x in bi.SHORTHANDS.items()],
            "init_params": [p[0] for p in named(B)], "point_init": named(P), "model_init": named(M), "json_version": pj._parser_version}
    if g is not None:
        gen = {"required": g["required"], "unit_params": [list(x) for x in g["unit_params"]], "reserved_base": g["reserved"]["base"], "reserved_point": g["reserved"]["point"],
               "reserved_model": g["reserved"]["model"], "shorthands": [list(x) for x in g["shorthands"]], "init_params": g["init_params"],
               "point_init": [[a, (b if (b is None or isinstance(b, str)) else repr(b))] for a, b in g["point_init"]],
               "model_init": [[a, (b if (b is None or isinstance(b, str)) else repr(b))] for a, b in g["model_init"]], "json_version": g["json"]["version"]}
        for k in real:
            n += 1
            ck.count(("table", k), bucket="construct: generated table vs class attribute")
            if gen[k] != real[k]:
                ck.broken.append({"step": "translator validation IsoParams", "what": {"table": k, "generated": gen[k], "imported": real[k]}})
    if replies is not None:
        tj = json.loads(replies[0][3:]) if replies[0].startswith("ok ") else None
        sj = json.loads(replies[1][3:]) if replies[1].startswith("ok ") else None
        if tj is None or sj is None:
            ck.broken.append({"step": "driver Construct tables/spec", "what": replies[:2]})
            return
        for k in real:
            ck.count(("driver-table", k), bucket="construct: table the model runs on vs class attribute")
            if tj.get(k) != real[k]:
                ck.broken.append({"step": "model tables (driver) differ from the imported classes", "what": {"table": k, "driver": tj.get(k), "imported": real[k]}})
        if set(real_json := list(tj.get("json_writer", [])) + list(tj.get("json_reader", []))) != set(SPEC["json_keys"]):
            ck.broken.append({"step": "JSON format keys differ from the documented ones", "what": {"generated": real_json, "documented": SPEC["json_keys"]}})
        if sj != SPEC:
            ck.broken.append({"step": "Spec/IsoParams.lean differs from the harness constants", "what": {"lean": sj, "python": SPEC}})


# ---------------------------------------------------------------------------------------------------- (2) oracles on the real code
def _valid_call(rng):
    """a call the documentation says must be accepted: (args, effective labels)"""
    u = isogen.units(rng)
    a = {"material": rng.choice(MAT_NAMES[:4]), "adsorbate": rng.choice(ADS_OK[:6]), "temperature": rng.choice([77, 298.15, 0, 87.3, "77.3"])}
    a.update(u)                  # all seven given explicitly (None where the representation has no unit), as pgv.isogen does
    return a, u


def oracles(ck, pg, ses):
    from pygaps.core.baseisotherm import BaseIsotherm as B
    rng = ck.rng
    n = ck.n(200, 1500)
    declared = set(B._reserved_params) | set(B._unit_params) | set(B._required_params)
    key_pool = sorted({k for k, _ in SPEC["shorthands"]} | {"_material", "_adsorbate", "_temperature", "m", "t", "a", "p", "T", "mat", "ads", "temp", "name", "unit", "units",
                                                          "branch", "model", "pressure", "loading", "data", "properties", "iso_id"} | set(isogen.KEYS))
    for i in range(n):
        ses.reset()
        a, u = _valid_call(rng)
        sig0 = {"class": "base", "section": "constructor"}
        # ---- a documented-valid call is accepted and reads back what was given
        try:
            iso = B(**copy.deepcopy(a))
            d = iso.to_dict()
        except Exception as e:  # noqa
            ck.fail_case({**sig0, "clause": "documented-valid call refused"}, {"args": sig_args(a), "error": repr(e)[:200]})
            continue
        ck.count(("valid", i), bucket="construct oracle: valid call")
        for k in UNIT_KEYS:
            want = u[k]
            if d.get(k, "<absent>") != want or iso.units.get(k, "<absent>") != want:
                ck.fail_case({**sig0, "clause": "unit label not stored as given", "key": k}, {"args": sig_args(a), "to_dict": repr(d.get(k, "<absent>")), "units": repr(iso.units.get(k, "<absent>")), "expected": want})
        if u["pressure_mode"] != "absolute":
            # relative mode stores no pressure unit, whatever was passed
            for pu in ("bar", "Pa", "torr"):
                b = B(**{**copy.deepcopy(a), "pressure_unit": pu})
                ck.count(("relative", i, pu), bucket="construct oracle: relative mode")
                if b.pressure_unit is not None or b.to_dict().get("pressure_unit", "<absent>") is not None:
                    ck.fail_case({**sig0, "clause": "relative mode keeps a pressure unit"}, {"args": sig_args({**a, "pressure_unit": pu}), "pressure_unit": repr(b.pressure_unit)})
        # ---- missing required descriptors
        for miss in (("material",), ("adsorbate",), ("temperature",), ("material", "temperature"), ("material", "adsorbate", "temperature")):
            for how in ("absent", "None", "shorthand None"):
                b = copy.deepcopy(a)
                for k in miss:
                    del b[k]
                    if how == "None":
                        b[k] = None
                    elif how == "shorthand None":
                        b[k[0]] = None
                ck.count(("missing", miss, how, i), bucket="construct oracle: missing required")
                try:
                    got = B(**b)
                    ck.fail_case({**sig0, "clause": "missing required descriptor accepted", "missing": list(miss)}, {"args": sig_args(b), "to_dict": repr(_safe_dict(got))[:300]})
                except Exception:  # noqa
                    pass
        # ---- defaults
        omit = rng.sample(UNIT_KEYS, rng.randint(1, 7))
        b = {k: v for k, v in copy.deepcopy(a).items() if k not in omit}
        eff = {k: (DEFAULT[k] if k in omit else u[k]) for k in UNIT_KEYS}
        if eff["pressure_mode"] != "absolute":
            eff["pressure_unit"] = None
        expect_ok = spec_valid(eff)
        ck.count(("defaults", tuple(sorted(omit)), expect_ok, i), bucket="construct oracle: defaults")
        try:
            got = B(**b)
            gd = got.to_dict()
            if not expect_ok:
                ck.fail_case({**sig0, "clause": "invalid label set accepted"}, {"args": sig_args(b), "labels after defaulting": eff})
            else:
                for k in UNIT_KEYS:
                    if gd.get(k, "<absent>") != eff[k]:
                        ck.fail_case({**sig0, "clause": "omitted unit parameter does not read back as the documented default", "key": k},
                                     {"args": sig_args(b), "to_dict": repr(gd.get(k, "<absent>")), "expected": eff[k]})
        except Exception as e:  # noqa
            if expect_ok:
                ck.fail_case({**sig0, "clause": "valid label set (after defaulting) refused"}, {"args": sig_args(b), "labels after defaulting": eff, "error": repr(e)[:200]})
        # ---- a label outside the tables is refused
        k = rng.choice(UNIT_KEYS)
        bad = rng.choice(["nonsense", "", None, "Bar", "volume", "kilo"])
        b = {**copy.deepcopy(a), k: bad}
        eff = dict(u)
        eff[k] = bad
        if isinstance(eff["pressure_mode"], str) and eff["pressure_mode"] != "absolute":
            eff["pressure_unit"] = None
        if isinstance(b["pressure_mode"], str):
            ck.count(("bad-label", k, bad, i), bucket="construct oracle: label outside the tables")
            try:
                B(**b)
                if not spec_valid(eff):
                    ck.fail_case({**sig0, "clause": "invalid label set accepted"}, {"args": sig_args(b), "labels after defaulting": eff})
            except Exception as e:  # noqa
                if spec_valid(eff):
                    ck.fail_case({**sig0, "clause": "valid label set (after defaulting) refused"}, {"args": sig_args(b), "error": repr(e)[:200]})
        # ---- shorthands == long names (falsy values included)
        sh = copy.deepcopy(a)
        if rng.random() < 0.5:
            sh["temperature"] = rng.choice([0, 0.0, False, "0"])
        lg = copy.deepcopy(sh)
        which = rng.sample(["material", "adsorbate", "temperature"], rng.randint(1, 3))
        for k in which:
            sh[k[0]] = sh.pop(k)
        ck.count(("shorthand", tuple(which), i), bucket="construct oracle: shorthand == long name")
        try:
            i1, i2 = B(**sh), B(**lg)
            if i1.to_dict() != i2.to_dict() or i1.iso_id != i2.iso_id:
                ck.fail_case({**sig0, "clause": "shorthand differs from long name", "which": sorted(which)}, {"short": sig_args(sh), "long": sig_args(lg), "dicts": [repr(i1.to_dict())[:300], repr(i2.to_dict())[:300]]})
        except Exception as e:  # noqa
            ck.fail_case({**sig0, "clause": "shorthand differs from long name", "which": sorted(which)}, {"short": sig_args(sh), "long": sig_args(lg), "error": repr(e)[:200]})
        # ---- metadata: what is not declared reserved / unit / required is kept, what is a unit / required / shorthand key never shows among the metadata
        md = gen_meta(rng, False)
        for k in rng.sample(key_pool, 3):
            if k not in declared:
                md[k] = rng.choice(["v", 7, 0, None, 2.5])
        md = {k: v for k, v in md.items() if k not in declared}
        b = {**copy.deepcopy(a), **copy.deepcopy(md)}
        ck.count(("metadata", tuple(sorted(md, key=str)), i), bucket="construct oracle: metadata kept")
        try:
            got = B(**b)
            gd = got.to_dict()
            lost = [k for k in md if k not in gd or not isogen.same_value(gd[k], md[k]) or k not in got.properties]
            core_changed = [k for k in list(a) if not isogen.same_value(gd.get(k), d.get(k))]
            leaked = [k for k in got.properties if k in UNIT_KEYS or k in SPEC["required"] or k in dict(map(tuple, SPEC["shorthands"]))]
            if lost or core_changed:
                ck.fail_case({**sig0, "clause": "key not declared reserved is not kept as metadata", "keys": sorted(map(str, lost + core_changed))},
                             {"args": sig_args(b), "to_dict": repr(gd)[:400]})
            if leaked:
                ck.fail_case({**sig0, "clause": "constructor key among the metadata", "keys": sorted(leaked)}, {"args": sig_args(b), "properties": repr(got.properties)[:300]})
        except Exception as e:  # noqa
            ck.fail_case({**sig0, "clause": "key not declared reserved is not kept as metadata", "keys": ["<refused>"]}, {"args": sig_args(b), "error": repr(e)[:200]})
            continue
        # ---- the dictionary route: Cls(**to_dict()) has the same dictionary and identifier; keyword order is irrelevant
        try:
            again = B(**got.to_dict())
            ck.count(("dict-route", i), bucket="construct oracle: dictionary route")
            if again.to_dict() != gd or again.iso_id != got.iso_id:
                ck.fail_case({**sig0, "clause": "same content, different identifier", "route": "constructor(**to_dict())"}, {"args": sig_args(b), "first": repr(gd)[:300], "second": repr(again.to_dict())[:300]})
            items = list(copy.deepcopy(b).items())
            rng.shuffle(items)
            perm = B(**dict(items))
            ck.count(("kw-order", i), bucket="construct oracle: keyword order")
            if perm.to_dict() != gd or perm.iso_id != got.iso_id:
                ck.fail_case({**sig0, "clause": "same content, different identifier", "route": "keyword order"}, {"args": sig_args(dict(items))})
        except Exception as e:  # noqa
            ck.fail_case({**sig0, "clause": "route refused", "route": "constructor(**to_dict())"}, {"args": sig_args(b), "error": repr(e)[:200]})
    _class_routes(ck, pg, ses, ck.n(60, 400))
    _reused_arguments(ck, pg, ses, ck.n(150, 1200))


def _reused_arguments(ck, pg, ses, n):
    """The route "the same argument OBJECTS, used for a second construction" (C05: isotherms built from the same content by any route have the
    same identifier): a program that builds two isotherms from the same variables (material as a name, a DICTIONARY or a Material instance —
    also one that names a registered material —, metadata, data as lists / arrays / one table, one model instance) gets equal isotherms.  No
    copies in between: a constructor that consumes one of its arguments (finding S58-C05: the material setter popped `name` from the caller's
    dictionary, so the second isotherm had a nameless material) fails here."""
    import numpy as np
    import pandas as pd
    from pygaps.core.baseisotherm import BaseIsotherm as B
    from pygaps.modelling import get_isotherm_model
    rng = ck.rng
    for i in range(n):
        ses.reset()
        a, _u = _valid_call(rng)
        mat = gen_material(rng, False)
        if isinstance(mat, dict) and "name" not in mat and rng.random() < 0.8:
            mat = {"name": rng.choice(MAT_NAMES), **mat}                   # mostly the documented shape: a dictionary with a name
        a["material"] = mat
        a.update({k: v for k, v in gen_meta(rng, False).items() if k not in RESERVED_META})
        cls = rng.choice(["base", "base", "point", "point", "model"])
        real = {k: realise(pg, v) for k, v in a.items()}
        if rng.random() < 0.3:
            real["m"] = real.pop("material")
        ctor = B
        if cls == "point":
            ps, ls = _frame_case(rng, False)
            kind = rng.choice(["lists", "arrays", "table"])
            if kind == "lists":
                real.update(pressure=list(ps), loading=list(ls))
            elif kind == "arrays":
                real.update(pressure=np.array(ps), loading=np.array(ls))
            else:
                real.update(isotherm_data=pd.DataFrame({"p": ps, "n": ls, "extra": [float(j) for j in range(len(ps))]}), pressure_key="p", loading_key="n")
            if rng.random() < 0.5:
                real["branch"] = rng.choice(["ads", "des", "guess", [rng.choice([0, 1]) for _ in ps]])
            ctor = pg.PointIsotherm
        elif cls == "model":
            real["model"] = get_isotherm_model("Henry", parameters={"K": np.float64(2.0)}, rmse=0.0, pressure_range=(0.0, 1.0), loading_range=(0.0, 2.0))
            real["branch"] = rng.choice(["ads", "des"])
            ctor = pg.ModelIsotherm
        sig = {"class": cls, "section": "constructor"}
        shown = {**sig_args(a), "<material passed as>": "m" if "m" in real else "material",
                 "<data arguments>": {k: (v if isinstance(v, (str, list)) else type(v).__name__) for k, v in real.items() if k not in a and k != "m"}}
        try:
            first = ctor(**real)
            d1, id1 = first.to_dict(), first.iso_id
        except Exception:  # noqa
            ck.count(("reuse-refused", i), nontrivial=False, bucket="construct oracle: re-used arguments (first call refused)")
            continue
        ck.count(("reuse", cls, type(mat).__name__, i), bucket="construct oracle: re-used arguments")
        try:
            second = ctor(**real)
            d2, id2 = second.to_dict(), second.iso_id
        except Exception as e:  # noqa
            ck.fail_case({**sig, "clause": "same content, different identifier", "route": "the same argument objects, second construction"},
                         {"args": shown, "second construction": repr(e)[:200]})
            continue
        if id1 != id2 or not isogen.same_value(d1, d2) or first.iso_id != id1:
            held = real.get("m", real.get("material"))
            ck.fail_case({**sig, "clause": "same content, different identifier", "route": "the same argument objects, second construction"},
                         {"args": shown, "first": repr(d1)[:300], "second": repr(d2)[:300], "ids": [id1, id2, first.iso_id],
                          "material argument after the calls": repr(held)[:200] if isinstance(held, dict) else type(held).__name__})


def _safe_dict(iso):
    try:
        return iso.to_dict()
    except Exception as e:  # noqa
        return repr(e)


def spec_split(ps):
    """documented branch guess: adsorption up to and including the first maximum of the pressure, desorption after it; all desorption when the
    first point is the maximum (and not the only one)"""
    n = len(ps)
    k = max(range(n), key=lambda j: (ps[j], -j))            # first index of the maximum
    if k == n - 1:
        return [0] * n
    if k == 0:
        return [1] * n
    return [0] * (k + 1) + [1] * (n - k - 1)


def _class_routes(ck, pg, ses, n):
    """the dictionary route for the two data-carrying classes and the `from_*` class methods"""
    import numpy as np
    from pygaps.core.baseisotherm import BaseIsotherm as B
    from pygaps.modelling import get_isotherm_model
    rng = ck.rng
    for i in range(n):
        ses.reset()
        a, u = _valid_call(rng)
        a.update(gen_meta(rng, False))
        a = {k: v for k, v in a.items() if k not in RESERVED_META}
        a["temperature"] = float(a["temperature"]) if not isinstance(a["temperature"], str) else 77.3
        base = B(**copy.deepcopy(a))
        bd = base.to_dict()
        m = 2 + rng.randrange(6)
        ps = sorted(rng.uniform(0.01, 0.9) for _ in range(m))
        ls = [rng.uniform(0, 5) for _ in range(m)]
        sigp = {"class": "point", "section": "constructor"}
        # the documented default of `branch`: the marks are guessed from the pressures (adsorption up to the first maximum, desorption after it)
        ups, _ = _frame_case(rng, False)
        try:
            pd_ = pg.PointIsotherm(pressure=ups, loading=[1.0] * len(ups), **copy.deepcopy(a))
            ck.count(("default-branch", i), bucket="construct oracle: default branch")
            got_marks = [int(x) for x in pd_.data_raw["branch"]]
            if got_marks != spec_split(ups):
                ck.fail_case({**sigp, "clause": "default branch marks are not the guess from the pressures"}, {"pressures": ups, "marks": got_marks, "expected": spec_split(ups)})
        except Exception as e:  # noqa
            ck.fail_case({**sigp, "clause": "route refused", "route": "arrays without branch"}, {"args": sig_args(a), "pressures": ups, "error": repr(e)[:200]})
        try:
            p1 = pg.PointIsotherm(pressure=ps, loading=ls, **copy.deepcopy(a))
            p2 = pg.PointIsotherm.from_isotherm(base, pressure=ps, loading=ls)
            p3 = pg.PointIsotherm(isotherm_data=p1.data_raw.copy(), pressure_key=p1.pressure_key, loading_key=p1.loading_key, **p1.to_dict())
            ck.count(("point-routes", i), bucket="construct oracle: point routes")
            for name, q in (("from_isotherm", p2), ("constructor(**to_dict())", p3)):
                if q.to_dict() != bd or p1.to_dict() != bd or q.iso_id != p1.iso_id:
                    ck.fail_case({**sigp, "clause": "same content, different identifier", "route": name}, {"args": sig_args(a), "dicts": [repr(bd)[:300], repr(q.to_dict())[:300]]})
        except Exception as e:  # noqa
            ck.fail_case({**sigp, "clause": "route refused", "route": "point routes"}, {"args": sig_args(a), "error": repr(e)[:200]})
        sigm = {"class": "model", "section": "constructor"}
        try:
            name = rng.choice(["Henry", "Langmuir", "Toth"])
            par = {"Henry": {"K": 2.0}, "Langmuir": {"K": 3.0, "n_m": 5.0}, "Toth": {"K": 3.0, "n_m": 5.0, "t": 1.5}}[name]

            def inst():
                return get_isotherm_model(name, parameters={k: np.float64(v) for k, v in par.items()}, rmse=0.01, pressure_range=(0.01, 0.9), loading_range=(0.0, 4.0))
            br = rng.choice(["ads", "des"])
            m1 = pg.ModelIsotherm(model=inst(), branch=br, **copy.deepcopy(a))
            m2 = pg.ModelIsotherm.from_isotherm(base, model=inst(), branch=br)
            m3 = pg.ModelIsotherm(model=inst(), **m1.to_dict())
            ck.count(("model-routes", i), bucket="construct oracle: model routes")
            want = {**bd, "branch": br}
            for nm, q in (("constructor", m1), ("from_isotherm", m2), ("constructor(**to_dict())", m3)):
                if q.to_dict() != want or q.iso_id != m1.iso_id:
                    ck.fail_case({**sigm, "clause": "same content, different identifier", "route": nm}, {"args": sig_args(a), "dicts": [repr(want)[:300], repr(q.to_dict())[:300]]})
            # points computed from the model keep the description and carry the model's branch
            pm = pg.PointIsotherm.from_modelisotherm(m1, pressure_points=ps)
            want = {**bd, "model_from": name}
            marks = set(int(x) for x in pm.data_raw["branch"])
            if pm.to_dict() != want or marks != ({0} if br == "ads" else {1}):
                ck.fail_case({**sigm, "clause": "points from a model isotherm lose its description", "route": "from_modelisotherm"}, {"args": sig_args(a), "to_dict": repr(pm.to_dict())[:300], "marks": sorted(marks)})
        except Exception as e:  # noqa
            ck.fail_case({**sigm, "clause": "route refused", "route": "model routes"}, {"args": sig_args(a), "error": repr(e)[:200]})


# ---------------------------------------------------------------------------------------------------- (3) correspondence
def _frame_case(rng, malformed):
    """data arguments of a PointIsotherm / ModelIsotherm call: (python kwargs builder, driver json)"""
    n = rng.choice([1, 2, 3, 4, 6, 9])
    shape = rng.choice(["up", "up", "updown", "down", "flat", "random"])
    if shape == "up":
        ps = sorted(rng.uniform(0.01, 5) for _ in range(n))
    elif shape == "updown":
        k = rng.randint(1, n)
        up = sorted(rng.uniform(0.01, 5) for _ in range(k))
        ps = up + sorted((rng.uniform(0.01, up[-1]) for _ in range(n - k)), reverse=True)
    elif shape == "down":
        ps = sorted((rng.uniform(0.01, 5) for _ in range(n)), reverse=True)
    elif shape == "flat":
        ps = [1.5] * n
    else:
        ps = [rng.choice([0.5, 1.0, 2.0, 2.0, 3.0]) for _ in range(n)]
    ls = [round(rng.uniform(0, 9), 4) for _ in range(n)]
    return ps, ls


def correspondence(ck, pg, ses):
    import numpy as np
    import pandas as pd
    from pygaps.modelling import get_isotherm_model
    rng = ck.rng
    lines, plan = ["tables {}", "spec {}"], [("tables", None), ("spec", None)]
    # ---- float() of numerals
    for s in TEMP_OK + TEMP_BAD + [f"{rng.uniform(-500, 500):.{rng.randint(0, 8)}f}" for _ in range(ck.n(30, 300))] + [f"{rng.uniform(0, 1e5):e}" for _ in range(ck.n(10, 100))]:
        if isinstance(s, str):
            lines.append("float " + json.dumps(s))
            plan.append(("float", s))
    # ---- constructor calls
    n = ck.n(1200, 8000)
    for i in range(n):
        malformed = rng.random() < 0.4
        cls = rng.choice(["base", "base", "point", "model"])
        args = gen_args(rng, malformed)
        extra, sub = {}, {}
        if cls == "point":
            ps, ls = _frame_case(rng, False)
            extra = {"pressure": ps, "loading": ls}
            if rng.random() < 0.3:
                sub["branch"] = rng.choice(["ads", "des", "guess"])
        elif cls == "model":
            if rng.random() < 0.7:
                sub["branch"] = rng.choice(["ads", "des", "guess", "nonsense", None, 3])
        ses.reset()
        w = ses.world(args)
        margs = {**args, **sub}
        lines.append("construct " + json.dumps({"world": w, "args": [[k, enc(v)] for k, v in margs.items()], "cls": cls}))
        if cls == "model":
            extra = {"model": get_isotherm_model("Henry", parameters={"K": np.float64(2.0)}, rmse=0.0, pressure_range=(0.0, 1.0), loading_range=(0.0, 2.0))}
        out, iso, real = call_real(pg, cls, margs, extra)
        dres = real_dict(iso) if iso is not None else None
        # the material argument as the caller sees it after the call (the shorthand wins unless it is None)
        after = real["m"] if real.get("m") is not None else real.get("material")
        plan.append(("construct", {"i": i, "cls": cls, "args": margs, "out": out, "dict": dres, "after": after, "malformed": malformed,
                                   "labels_valid": (spec_valid({k: getattr(iso, k) for k in UNIT_KEYS}) if iso is not None else None)}))
    # ---- data arguments of PointIsotherm
    base_kw = {"material": "zeolite-X", "adsorbate": "N2", "temperature": 77.0}
    for i in range(ck.n(400, 3000)):
        malformed = rng.random() < 0.35
        ps, ls = _frame_case(rng, malformed)
        nrow = len(ps)
        kind = rng.choice(["arrays", "frame", "frame"])
        r = rng.random()
        if r < 0.45:
            branch, bj = rng.choice(["guess", "ads", "des"]), None
        elif r < 0.55:
            branch, bj = "<default>", None
        elif r < 0.8:
            L = nrow if not (malformed and rng.random() < 0.5) else nrow + rng.choice([-1, 1, 2])
            branch = [rng.choice([0, 1]) for _ in range(max(L, 0))]
            if rng.random() < 0.4:
                branch = [bool(x) for x in branch]
            bj = {"marks": [qstr(int(x)) for x in branch]}
        else:
            branch = rng.choice(["nonsense", "", "all", "ADS", 1, 0, True, None])
            bj = "<null>" if branch is None else (None if isinstance(branch, str) else {"scalar": qstr(int(branch))})
        if bj is None:
            bj = {"str": "guess" if branch == "<default>" else branch}
        elif bj == "<null>":
            bj = None
        kw = dict(base_kw)
        if branch != "<default>":
            kw["branch"] = branch
        req = {"pressure": None, "loading": None, "frame": None, "pressure_key": None, "loading_key": None, "branch": bj}
        if kind == "arrays":
            p_arg, l_arg = list(ps), list(ls)
            if malformed:
                q = rng.random()
                if q < 0.25:
                    p_arg = None
                elif q < 0.5:
                    l_arg = None
                elif q < 0.75:
                    l_arg = l_arg + [1.0]
            if rng.random() < 0.3 and p_arg is not None:
                p_arg = np.array(p_arg)
            kw["pressure"], kw["loading"] = p_arg, l_arg
            req["pressure"] = None if p_arg is None else [qstr(x) for x in ps]
            req["loading"] = None if l_arg is None else [qstr(x) for x in l_arg]
        else:
            pk, lk = rng.choice([("pressure", "loading"), ("p", "n"), ("P [bar]", "uptake")])
            others = rng.sample(["enthalpy", "Z", "alpha", "time", "0col", "ünï"], rng.randint(0, 3))
            cols = {pk: ps, lk: ls}
            for c in others:
                cols[c] = [round(rng.uniform(0, 1), 3) for _ in ps] if c != "alpha" else [rng.choice(["x", "y"]) for _ in ps]
            has_branch = rng.random() < 0.3
            if has_branch:
                cols["branch"] = [rng.choice([0, 1]) for _ in ps]
            items = list(cols.items())
            rng.shuffle(items)
            df = pd.DataFrame(dict(items))
            if rng.random() < 0.3:
                df.index = range(7, 7 + nrow)
            pk_arg, lk_arg = pk, lk
            if malformed:
                q = rng.random()
                if q < 0.2:
                    pk_arg = None
                elif q < 0.4:
                    lk_arg = None
                elif q < 0.6:
                    pk_arg = "absent column"
                elif q < 0.7:
                    lk_arg = "absent column"
            kw.update(isotherm_data=df, pressure_key=pk_arg, loading_key=lk_arg)
            num = [[pk, [qstr(x) for x in ps]]] + ([["branch", [qstr(x) for x in cols["branch"]]]] if has_branch else [])
            req.update(frame={"cols": [c for c, _ in items], "nrows": nrow, "num": num}, pressure_key=pk_arg, loading_key=lk_arg)
        lines.append("point " + json.dumps(req))
        try:
            iso = pg.PointIsotherm(**kw)
            raw = iso.data_raw
            marks = []
            for x in raw["branch"].tolist():
                marks.append(None if (x is None or (isinstance(x, float) and x != x)) else Fraction(int(x)))
            got = ("ok", {"pressure_key": iso.pressure_key, "loading_key": iso.loading_key, "columns": [str(c) for c in raw.columns], "other_keys": list(iso.other_keys), "marks": marks,
                          "pressures": raw[iso.pressure_key].tolist()})
        except Exception as e:  # noqa
            got = (ERR.get(type(e).__name__, "other:" + type(e).__name__), None)
        plan.append(("point", {"i": i, "kw": {k: (v if not hasattr(v, "columns") else {"columns": list(v.columns), "index0": int(v.index[0]) if len(v.index) else None}) for k, v in kw.items()},
                               "ps": ps, "got": got}))
    # ---- routes of ModelIsotherm
    for i in range(ck.n(200, 1500)):
        malformed = rng.random() < 0.5
        ps, ls = _frame_case(rng, malformed)
        ps = sorted(ps)                                                     # data the Henry fit cannot fail on
        ls = [2.0 * p for p in ps]
        nrow = len(ps)
        model_kind = rng.choice(["inst", "name", "name", None] if malformed else ["inst", "name"])
        data_kind = rng.choice(["none", "arrays", "frame"]) if malformed else ("none" if model_kind == "inst" and rng.random() < 0.6 else rng.choice(["arrays", "frame"]))
        if model_kind == "inst" and data_kind != "none":
            model_kind = "name"                                             # an instance together with data goes into get_isotherm_model(<instance>): fitting stage, not modelled
        branch = rng.choice(["ads", "ads", "des", "guess", "nonsense", None] if malformed else ["ads", "ads", "des"])
        kw = dict(base_kw)
        kw["branch"] = branch
        req = {"pressure": None, "loading": None, "frame": None, "pressure_key": None, "loading_key": None, "branch": enc(branch),
               "model": None if model_kind is None else {model_kind: "Henry"}}
        if model_kind == "inst":
            kw["model"] = get_isotherm_model("Henry", parameters={"K": np.float64(2.0)}, rmse=0.0, pressure_range=(0.0, 1.0), loading_range=(0.0, 2.0))
        elif model_kind == "name":
            kw["model"] = "Henry"
        if data_kind == "arrays":
            p_arg, l_arg = list(ps), list(ls)
            if malformed and rng.random() < 0.4:
                if rng.random() < 0.5:
                    p_arg = None
                else:
                    l_arg = l_arg + [1.0]
            kw["pressure"], kw["loading"] = p_arg, l_arg
            req["pressure"] = None if p_arg is None else [qstr(x) for x in p_arg]
            req["loading"] = [qstr(x) for x in l_arg]
            if branch not in ("ads", "des"):
                continue                                                    # stored as given, but a fitted model of such a branch is outside the property's domain
        elif data_kind == "frame":
            mk = [0] * nrow
            has_branch = rng.random() < 0.5
            if has_branch:
                mk = [rng.choice([0, 1]) for _ in range(nrow)]
                if rng.random() < 0.3:
                    mk = [0] * nrow
            df = pd.DataFrame({"p": ps, "n": ls, **({"branch": mk} if has_branch else {})})
            pk_arg, lk_arg = "p", "n"
            if malformed and rng.random() < 0.3:
                if rng.random() < 0.5:
                    pk_arg = None
                else:
                    lk_arg = None
            kw.update(isotherm_data=df, pressure_key=pk_arg, loading_key=lk_arg)
            req.update(frame={"cols": list(df.columns), "nrows": nrow, "num": [["p", [qstr(x) for x in ps]]] + ([["branch", [qstr(x) for x in mk]]] if has_branch else [])},
                       pressure_key=pk_arg, loading_key=lk_arg)
        lines.append("model " + json.dumps(req))
        try:
            iso = pg.ModelIsotherm(**kw)
            got = ("ok", {"branch": iso.branch, "model": iso.model.name, "pressure_range": [float(x) for x in iso.model.pressure_range]})
        except Exception as e:  # noqa
            got = (ERR.get(type(e).__name__, "other:" + type(e).__name__), None)
        plan.append(("model", {"i": i, "req": req, "got": got, "fit_expected": data_kind != "none"}))
    # ------------------------------------------------------------------------------------------------ run the model
    try:
        replies = ck.drive("Construct", lines)
    except Exception as e:  # noqa
        ck.broken.append({"step": "driver Construct", "what": str(e)[:800]})
        check_tables(ck, pg, None)
        return
    check_tables(ck, pg, replies)
    n_dis = 0

    def disagree(what):
        nonlocal n_dis
        n_dis += 1
        if n_dis <= 4:
            ck.broken.append({"step": "correspondence Model/Construct vs the constructors", "what": what})

    dist = ck.cov["distribution"]
    for (kind, c), rep in zip(plan, replies):
        if kind in ("tables", "spec"):
            continue
        if rep == "bad-op":
            ck.broken.append({"step": "driver Construct: request not understood", "what": {"kind": kind, "case": str(c)[:300]}})
            continue
        if kind == "float":
            try:
                real = ("ok", float(c))
            except ValueError:
                real = ("err value", None)
            ck.count(("float", c), bucket="construct: float(numeral)")
            if real[0] == "ok":
                if not (rep.startswith("ok ") and close(Fraction(*map(int, rep[3:].split("/"))), real[1], rel=1e-15)):
                    disagree({"float": c, "model": rep, "python": real[1]})
            elif rep != real[0]:
                disagree({"float": c, "model": rep, "python": "ValueError"})
            continue
        if kind == "construct":
            out = c["out"]
            key = ("construct", c["cls"], out, tuple(sorted((k, type(v).__name__) for k, v in c["args"].items())))
            ck.count(key, bucket=f"construct: {c['cls']} -> {out}", sample={"args": sig_args(c["args"]), "class": c["cls"], "outcome": out} if c["i"] % 211 == 0 else None)
            if out != "ok":
                if rep != "err " + out:
                    disagree({"class": c["cls"], "args": sig_args(c["args"]), "model": rep[:200], "constructor": out})
                continue
            if not rep.startswith("ok "):
                disagree({"class": c["cls"], "args": sig_args(c["args"]), "model": rep[:200], "constructor": "accepted"})
                continue
            mj = json.loads(rep[3:])
            dstat, dreal = c["dict"]
            if "dict_err" in mj:
                if dstat != mj["dict_err"]:
                    disagree({"class": c["cls"], "args": sig_args(c["args"]), "model to_dict": "err " + mj["dict_err"], "to_dict": dstat})
            elif dstat != "ok":
                disagree({"class": c["cls"], "args": sig_args(c["args"]), "model to_dict": "ok", "to_dict": dstat})
            else:
                diff = compare_dict(mj["dict"], dreal)
                if diff:
                    disagree({"class": c["cls"], "args": sig_args(c["args"]), "to_dict differs": diff})
            if not mj["valid"] or (c["labels_valid"] is False):
                # the theorem `construct_accepts_iff_validLabels`, executed: an accepted isotherm has a valid label set (model's predicate and the independent one)
                disagree({"class": c["cls"], "args": sig_args(c["args"]), "accepted with labels the model's validLabels / the unit tables reject": [mj["valid"], c["labels_valid"]]})
            if c["after"] is not None and isinstance(c["after"], dict):
                if not same(dec(mj["after"]), c["after"]):
                    disagree({"class": c["cls"], "args": sig_args(c["args"]), "material dictionary after the call": repr(c["after"])[:200], "model": str(dec(mj["after"]))[:200]})
            continue
        if kind == "point":
            st, g = c["got"]
            ck.count(("point", c["i"], st), bucket=f"construct: point data -> {st}")
            if st != "ok":
                if rep != "err " + st:
                    disagree({"point data": str(c["kw"])[:400], "model": rep[:200], "constructor": st})
                continue
            if not rep.startswith("ok "):
                disagree({"point data": str(c["kw"])[:400], "model": rep[:200], "constructor": "accepted"})
                continue
            mj = json.loads(rep[3:])
            mm = [None if x is None else Fraction(*map(int, x.split("/"))) for x in mj["marks"]]
            mine = {"pressure_key": mj["pressure_key"], "loading_key": mj["loading_key"], "columns": mj["columns"], "other_keys": mj["other_keys"], "marks": mm}
            theirs = {k: g[k] for k in mine}
            if mine != theirs:
                disagree({"point data": str(c["kw"])[:400], "model": str(mine)[:300], "constructor": str(theirs)[:300]})
            continue
        if kind == "model":
            st, g = c["got"]
            ck.count(("model", c["i"], st), bucket=f"construct: model route -> {st}")
            if st != "ok":
                if rep != "err " + st:
                    disagree({"model call": c["req"], "model": rep[:200], "constructor": st})
                continue
            if not rep.startswith("ok "):
                disagree({"model call": c["req"], "model": rep[:200], "constructor": "accepted"})
                continue
            mj = json.loads(rep[3:])
            if "stored" in mj:
                if mj["stored"] != g["model"] or not same(dec(mj["branch"]), g["branch"]) or g["pressure_range"] != [0.0, 1.0]:
                    disagree({"model call": c["req"], "model": mj, "constructor": g})
            else:
                fit = [Fraction(*map(int, x.split("/"))) for x in mj["fit"]]
                if not same(dec(mj["branch"]), g["branch"]) or [frac(x) for x in g["pressure_range"]] != [min(fit), max(fit)]:
                    disagree({"model call": c["req"], "model": mj, "constructor": g})
    ck.cov["construct_correspondence_disagreements"] = n_dis
    dist["construct: correspondence disagreements"] = n_dis


def json_attributes_oracle(ck, pg):
    """C06 (new block of harness/props/c06.py): what the ATTRIBUTES of an isotherm say — the seven unit labels, the temperature in kelvin, material and
    adsorbate, the metadata, the class — survives export + import.  (`to_dict()` is compared by the existing sections; this one does not go through it:
    a `to_dict` that drops a label makes export and identifier blind to it.)"""
    from pygaps.parsing.json import isotherm_from_json, isotherm_to_json
    rng = ck.rng
    for i in range(ck.n(80, 800)):
        c = isogen.content(rng)
        try:
            iso = isogen.build(pg, c)
        except Exception:  # noqa
            ck.count(("attr-build-refused", i), nontrivial=False, bucket="attributes: construction refused")
            continue
        sig = {"class": c["kind"], "section": "attributes"}
        try:
            back = isotherm_from_json(isotherm_to_json(iso))
        except Exception as e:  # noqa
            ck.fail_case({**sig, "clause": "import of an export refused"}, {"error": repr(e)[:200], "units": c["units"]})
            continue
        ck.count(("attributes", i, c["kind"], tuple(sorted(c["units"].items(), key=str))), bucket="attributes: export + import")
        diffs = []
        if type(back) is not type(iso):
            diffs.append(["class", type(iso).__name__, type(back).__name__])
        for k in UNIT_KEYS:
            if getattr(back, k, "<absent>") != getattr(iso, k, "<absent>"):
                diffs.append([k, repr(getattr(iso, k, "<absent>")), repr(getattr(back, k, "<absent>"))])
        try:
            t0, t1 = float(iso.temperature), float(back.temperature)
            if t0 != t1:
                diffs.append(["temperature [K]", t0, t1])
        except Exception as e:  # noqa
            diffs.append(["temperature [K]", "raised", repr(e)[:80]])
        if str(back.material) != str(iso.material) or not isogen.same_value(dict(back.material.properties), dict(iso.material.properties)):
            diffs.append(["material", repr(iso.material.to_dict()), repr(back.material.to_dict())])
        if str(back.adsorbate) != str(iso.adsorbate):
            diffs.append(["adsorbate", str(iso.adsorbate), str(back.adsorbate)])
        if not isogen.same_value(dict(back.properties), dict(iso.properties)):
            diffs.append(["metadata", repr(iso.properties)[:200], repr(back.properties)[:200]])
        if diffs:
            ck.fail_case({**sig, "clause": "re-imported content differs", "where": "attributes: " + ", ".join(sorted(d[0] for d in diffs))}, {"differences": diffs[:6], "units": c["units"]})


def run_section(ck, pg):
    ses = Session(pg)
    try:
        oracles(ck, pg, ses)
        correspondence(ck, pg, ses)
    finally:
        ses.reset()
        ses.close()
    ck.cov["rule"] = (ck.cov.get("rule") or "") + (
        " || constructors (E17): Spec-driven oracles on BaseIsotherm (missing required, documented defaults, accepted <=> valid labels after defaulting, relative mode, shorthands incl. falsy "
        "values, undeclared keys kept as metadata, constructor(**to_dict()), keyword order) and on the point / model classes (from_isotherm, from_modelisotherm, constructor(**to_dict())); "
        "correspondence with Model/Construct.lean: seeded keyword dictionaries (valid-mostly + malformed: missing / None / '' / wrong types / unknown units / reserved keys as metadata / "
        "material as str, dict, Material, registered / temperature as int, float, bool, numeral) x {BaseIsotherm, PointIsotherm, ModelIsotherm(model instance)}: outcome class, to_dict() key "
        "by key with types, the caller's material dictionary after the call; data arguments of PointIsotherm (arrays / tables, keys, column order, branch kinds); routes of ModelIsotherm; "
        "float() of numerals; generated tables == class attributes == tables the driver runs on")
