"""Shared machinery for the SQLite store properties (C08 refinement, C09 atomicity).

* empty database files are produced from the repository's own pragmas (no shipped data),
* operations are generated as plain descriptions, turned into (a) a call on the real API, (b) a request line for the
  Lean model `Drv/Store.lean`, (c) an update of a plain-dictionary specification,
* raw tables are read through an independent sqlite3 connection and canonicalised the same way as the model dump.
"""
import hashlib
import json
import os
import re
import shutil
import sqlite3
import tempfile
from pathlib import Path

SAFE = "abcdefghijklmnopqrstuvwxyzABCDEFGHIJKLMNOPQRSTUVWXYZ0123456789_-."


def canon_val(v):
    """Canonical token of a stored property value as it comes back from a REAL-affinity column."""
    if v is None:
        return "~"
    if isinstance(v, bool):
        return "TRUE" if v else "FALSE"
    if isinstance(v, (int, float)):
        return repr(float(v))
    s = str(v)
    try:                                   # REAL affinity converts numeric-looking text
        return repr(float(s)) if s.strip() == s and s else (s if s else '""')
    except ValueError:
        return s if s else '""'


def digest(s):
    return hashlib.md5(str(s).encode()).hexdigest()[:12]


class Files:
    """Scratch directory with a pristine empty template database."""

    def __init__(self, pg):
        import pygaps.utilities.sqlite_db_creator as m_creator
        import pygaps.utilities.sqlite_db_pragmas as m_pragmas
        import pygaps.utilities.sqlite_utilities as m_util
        from pygaps.utilities.sqlite_db_pragmas import PRAGMAS
        from pygaps.utilities.sqlite_utilities import db_execute_general
        from .core import REPO, Infra
        for m in (m_pragmas, m_util, m_creator):  # the databases of the harness must come from the tree under check (PGV_REPO)
            if not str(Path(m.__file__).resolve()).startswith(str(REPO.resolve())):
                raise Infra(f"{m.__name__} imported from {m.__file__}, expected under {REPO}")
        self.dir = Path(tempfile.mkdtemp(prefix="pgv-db-"))
        self.template = self.dir / "template.db"
        for pragma in PRAGMAS:
            db_execute_general(pragma, str(self.template))
        self.n = 0

    def new(self):
        self.n += 1
        p = self.dir / f"db{self.n}.db"
        shutil.copy(self.template, p)
        return str(p)

    def close(self):
        shutil.rmtree(self.dir, ignore_errors=True)


def key_tok(v):
    """key / label column as a token (None only occurs when the schema under check lost a NOT NULL or a foreign key)"""
    return "~" if v is None else (v if isinstance(v, str) else str(v))


def _rows(cur, sql, width, conv):
    """One table read.  When the table or a column the reads below name is not there (the schema of the tree under check differs from
    the one the model stands for) the harness stays alive: the content is reported as one unreadable row, which never equals the
    model's, and the oracle goes on judging the outcomes of the calls."""
    try:
        return [conv(r) for r in cur.execute(sql).fetchall()]
    except sqlite3.OperationalError as e:
        msg = "!unreadable:" + re.sub(r"[^A-Za-z0-9_.]+", "_", str(e))[:60]
        return [msg] if width == 1 else [(msg,) + ("",) * (width - 1)]


def read_tables(path):
    """Independent read of every table, ids resolved to names; same layout as `dumpDb` of the Lean driver."""
    con = sqlite3.connect(f"file:{path}?mode=ro", uri=True)
    cur = con.cursor()
    ads = _rows(cur, "SELECT name FROM adsorbates ORDER BY id", 1, lambda r: key_tok(r[0]))
    ads_props = _rows(cur, "SELECT a.name, p.type, p.value FROM adsorbate_properties p LEFT JOIN adsorbates a ON a.id = p.ads_id ORDER BY p.id", 3,
                      lambda r: (key_tok(r[0]), key_tok(r[1]), canon_val(r[2])))
    ads_types = _rows(cur, "SELECT type, unit, description FROM adsorbate_properties_type ORDER BY id", 3, lambda r: (key_tok(r[0]), r[1] or "", r[2] or ""))
    mats = _rows(cur, "SELECT name FROM materials ORDER BY id", 1, lambda r: key_tok(r[0]))
    mat_props = _rows(cur, "SELECT m.name, p.type, p.value FROM material_properties p LEFT JOIN materials m ON m.id = p.mat_id ORDER BY p.id", 3,
                      lambda r: (key_tok(r[0]), key_tok(r[1]), canon_val(r[2])))
    mat_types = _rows(cur, "SELECT type, unit, description FROM material_properties_type ORDER BY id", 3, lambda r: (key_tok(r[0]), r[1] or "", r[2] or ""))
    iso_types = _rows(cur, "SELECT type, description FROM isotherm_type ORDER BY id", 2, lambda r: (key_tok(r[0]), r[1] or ""))
    isos = _rows(cur, "SELECT id, iso_type, material, adsorbate, temperature FROM isotherms ORDER BY rowid", 5,
                 lambda r: (key_tok(r[0]), key_tok(r[1]), key_tok(r[2]), key_tok(r[3]), canon_val(r[4])))
    iso_props = _rows(cur, "SELECT iso_id, type, value FROM isotherm_properties ORDER BY id", 3, lambda r: (key_tok(r[0]), key_tok(r[1]), canon_val(r[2])))
    iso_data = _rows(cur, "SELECT iso_id, type, dtype, data FROM isotherm_data ORDER BY id", 4, lambda r: (key_tok(r[0]), key_tok(r[1]), key_tok(r[2]), digest(r[3])))
    integrity = cur.execute("PRAGMA integrity_check").fetchall()
    try:
        fk = cur.execute("PRAGMA foreign_key_check").fetchall()
    except sqlite3.OperationalError as e:       # e.g. "foreign key mismatch": a foreign key whose parent columns are not a key
        fk = [("foreign_key_check failed", str(e))]
    con.close()
    return {"ads": ads, "adsProps": ads_props, "adsTypes": ads_types, "mats": mats, "matProps": mat_props, "matTypes": mat_types,
            "isoTypes": iso_types, "isos": isos, "isoProps": iso_props, "isoData": iso_data}, integrity, fk


ORDER = ["ads", "adsProps", "adsTypes", "mats", "matProps", "matTypes", "isoTypes", "isos", "isoProps", "isoData"]


def dump_tables(t):
    return " | ".join(";".join(x if isinstance(x, str) else ",".join(x) for x in t[k]) for k in ORDER)


def parse_reply(r):
    """-> (outcome, stmts, db dump string, adsList, matList)"""
    parts = r.split(" | ")
    head = parts[0].split()
    mem = parts[-1].split(" ; ") if " ; " in parts[-1] else [parts[-1].strip(" ;"), ""]
    tables = " | ".join(p.strip() for p in parts[1:-1])
    return head[0], int(head[1]), tables, [x for x in mem[0].strip().split(";") if x], [x for x in mem[1].strip().split(";") if x]


def norm_dump(s):
    return " | ".join(p.strip() for p in s.split("|"))


# ----------------------------------------------------------------------------------------------- schema of a real database file
SCHEMA_KEYWORDS = {"AUTOINCREMENT", "CHECK", "COLLATE", "GENERATED", "CONFLICT", "DEFERRABLE", "DEFERRED", "WITHOUT", "STRICT", "TEMP", "TEMPORARY",
                   "VIRTUAL", "MATCH"}


def _esc(s):
    return str(s).replace("\\", "\\\\").replace("\n", "\\n").replace("\t", "\\t").replace(",", "\\c")


def schema_lines(path):
    """The schema of a database FILE in the line format of the Lean driver Drv/Schema.lean (`table <i>`, `other`), read through an
    independent connection with PRAGMA table_xinfo / index_list / index_info / foreign_key_list and from sqlite_master.
    Written independently of the translator's reader (pgv/translate.py: read_sqlite_schema)."""
    con = sqlite3.connect(f"file:{path}?mode=ro", uri=True)
    try:
        names = sorted(r[0] for r in con.execute("SELECT name FROM sqlite_master WHERE type = 'table' AND name NOT LIKE 'sqlite\\_%' ESCAPE '\\'"))
        lines, other = [], []
        pks = {}
        for t in names:
            qt = '"' + t.replace('"', '""') + '"'
            pks[t] = [r[1] for r in sorted((r for r in con.execute(f"PRAGMA table_xinfo({qt})").fetchall() if r[5]), key=lambda r: r[5])]
        for t in names:
            qt = '"' + t.replace('"', '""') + '"'
            f = [_esc(t)]
            for _cid, cname, ctype, notnull, dflt, pk, hidden in con.execute(f"PRAGMA table_xinfo({qt})").fetchall():
                f += ["COL", _esc(cname), _esc(ctype or ""), "T" if notnull else "F", str(pk), "~" if dflt is None else "=" + _esc(dflt)]
                if hidden:
                    other.append(("hidden-column", t + "." + cname))
            uniq = {tuple(pks[t])} if pks[t] else set()
            for _seq, iname, unique, origin, partial in con.execute(f"PRAGMA index_list({qt})").fetchall():
                qi = '"' + iname.replace('"', '""') + '"'
                cols = tuple(r[2] for r in con.execute(f"PRAGMA index_info({qi})").fetchall())
                if unique and not partial and None not in cols:
                    uniq.add(cols)
                if origin == "c":
                    other.append(("unique-index" if unique else "index", iname))
            for u in sorted(uniq):
                f += ["UNIQ", ",".join(_esc(c) for c in u)]
            fks = {}
            for fid, seq, ptable, cfrom, cto, on_update, on_delete, _m in con.execute(f"PRAGMA foreign_key_list({qt})").fetchall():
                fks.setdefault(fid, []).append((seq, cfrom, cto, ptable, on_delete.upper(), on_update.upper()))
            rows = []
            for g in fks.values():
                g.sort()
                to = [x[2] for x in g]
                if None in to:
                    to = pks.get(g[0][3], [])
                rows.append(([x[1] for x in g], g[0][3], to, g[0][4], g[0][5]))
            for cols, ptable, to, od, ou in sorted(rows):
                f += ["FK", ",".join(_esc(c) for c in cols), _esc(ptable), ",".join(_esc(c) for c in to), _esc(od), _esc(ou)]
            sql = con.execute("SELECT sql FROM sqlite_master WHERE type = 'table' AND name = ?", (t,)).fetchone()[0] or ""
            bare = re.sub(r"--[^\n]*|/\*.*?\*/", " ", sql, flags=re.S)
            bare = re.sub(r"'(?:[^']|'')*'|\"(?:[^\"]|\"\")*\"|`(?:[^`]|``)*`|\[[^\]]*\]", " ", bare)
            for kw in sorted({w.upper() for w in re.findall(r"[A-Za-z_]+", bare)} & SCHEMA_KEYWORDS):
                f += ["EXTRA", kw]
            lines.append("\t".join(f))
        for typ, name in con.execute("SELECT type, name FROM sqlite_master WHERE type NOT IN ('table', 'index')").fetchall():
            other.append((typ, name))
        return {"names": names, "tables": lines, "other": "\t".join(f"{_esc(a)},{_esc(b)}" for a, b in sorted(other))}
    finally:
        con.close()


SQL_TABLE_RE = re.compile(r"""\b(?:FROM|INTO|UPDATE|JOIN|TABLE)\s+(?:IF\s+(?:NOT\s+)?EXISTS\s+)?["'`\[]?([A-Za-z_][A-Za-z0-9_]*)""", re.I)


def tables_of_sql(sql):
    """table names a statement addresses (the text actually handed to SQLite)"""
    return set(SQL_TABLE_RE.findall(sql))


# ----------------------------------------------------------------------------------------------- operation descriptions
def props_tokens(props):
    """{'k': v or [v…]} -> model tokens `k=[v;v]` (dict order preserved)."""
    out = []
    for k, v in props.items():
        vs = list(v) if isinstance(v, (list, tuple, set)) else [v]
        out.append(f"{k}=[{';'.join(canon_val(x) for x in vs)}]")
    return out


def iso_description(pg, iso):
    """What isotherm_to_db will write for this isotherm: id, class, base columns, property rows, data rows."""
    from pygaps.core.baseisotherm import BaseIsotherm
    d = iso.to_dict()
    base = {k: d.pop(k, None) for k in BaseIsotherm._required_params}
    mat = base["material"]["name"] if isinstance(base["material"], dict) else base["material"]
    cls = "pointisotherm" if isinstance(iso, pg.PointIsotherm) else ("modelisotherm" if isinstance(iso, pg.ModelIsotherm) else "isotherm")
    props = []
    for k, v in d.items():
        if isinstance(v, bool):
            props.append(f"{k}={'TRUE' if v else 'FALSE'}")
        elif v is None:
            props.append(f"{k}=~")
        elif isinstance(v, (dict, list, tuple, set)):
            props.append(f"{k}=!")
        else:
            props.append(f"{k}={canon_val(v)}")
    data = []
    if cls == "pointisotherm":
        from pygaps.utilities.sqlite_utilities import find_SQL_python_type
        data.append(f"pressure:float:{digest(json.dumps(iso.pressure().tolist()))}")
        data.append(f"loading:float:{digest(json.dumps(iso.loading().tolist()))}")
        for k in iso.other_keys:
            data.append(f"{k}:{find_SQL_python_type(iso.other_data(k)[0])}:{digest(json.dumps(iso.other_data(k).tolist()))}")
    elif cls == "modelisotherm":
        data.append(f"model:dict:{digest(json.dumps(iso.model.to_dict()))}")
    mprops = dict(iso.material.to_dict())
    mprops.pop("name")
    aprops = dict(iso.adsorbate.to_dict())
    aprops.pop("name")
    return {"id": iso.iso_id, "cls": cls, "material": mat, "adsorbate": str(iso.adsorbate), "temperature": canon_val(base["temperature"]),
            "props": props, "data": data, "mprops": props_tokens(mprops), "aprops": props_tokens(aprops)}


def iso_line(desc, auto_mat, auto_ads):
    return " ".join(["isoToDb", desc["id"], desc["cls"], desc["material"], desc["adsorbate"], desc["temperature"],
                     "T" if auto_mat else "F", "T" if auto_ads else "F", "/"] + desc["mprops"] + ["/"] + desc["aprops"] + ["/"]
                    + desc["props"] + ["/"] + desc["data"])


def outcome_of(exc):
    if exc is None:
        return "ok"
    return "parsing" if type(exc).__name__ == "ParsingError" else "other"


# ----------------------------------------------------------------------------------------------- fault injection (C09)
class Plan:
    """Which `cursor.execute` call (0-based, counted over the whole public call) fails, and how."""

    def __init__(self, k=None, kind=None, log=None):
        self.k, self.kind, self.count, self.commits = k, kind, 0, 0
        self.log = log              # list: the text of every statement handed to cursor.execute is appended


class _Cursor:
    def __init__(self, real, plan, mod):
        self._c, self._plan, self._mod = real, plan, mod

    def execute(self, sql, params=()):
        p = self._plan
        k = p.count
        p.count += 1
        if p.log is not None:
            p.log.append(sql)
        if p.k == k:
            if p.kind == "integrity":
                raise self._mod.IntegrityError("injected fault")
            if p.kind == "interface":
                raise self._mod.InterfaceError("injected fault")
            if p.kind == "operational":
                raise self._mod.OperationalError("injected fault")
            if p.kind == "exitBefore":
                os._exit(17)
        self._c.execute(sql, params)
        if p.k == k and p.kind == "exitAfter":
            os._exit(17)
        return self

    def fetchone(self):
        return self._c.fetchone()

    def fetchall(self):
        return self._c.fetchall()

    def __iter__(self):
        return iter(self._c)

    @property
    def lastrowid(self):
        return self._c.lastrowid

    def __getattr__(self, name):
        return getattr(self._c, name)


class _Conn:
    def __init__(self, real, plan, mod):
        object.__setattr__(self, "_r", real)
        object.__setattr__(self, "_plan", plan)
        object.__setattr__(self, "_mod", mod)

    def cursor(self):
        return _Cursor(self._r.cursor(), self._plan, self._mod)

    def commit(self):
        p = self._plan
        p.commits += 1
        if p.k == p.count and p.kind == "exitBefore":
            os._exit(17)
        self._r.commit()
        if p.k == p.count and p.kind == "exitAfter":
            os._exit(17)

    def __setattr__(self, name, value):
        setattr(self._r, name, value)

    def __getattr__(self, name):
        return getattr(self._r, name)


class ProxySqlite:
    """Stands in for the `sqlite3` module object inside pygaps.parsing.sqlite (this process only)."""

    def __init__(self, plan):
        self._real = sqlite3
        self.plan = plan

    def connect(self, *a, **k):
        return _Conn(self._real.connect(*a, **k), self.plan, self._real)

    def __getattr__(self, name):
        return getattr(self._real, name)


def with_fault(pgsql, plan, thunk):
    """Run thunk() with the module's sqlite3 replaced; returns the exception (or None)."""
    saved = pgsql.sqlite3
    pgsql.sqlite3 = ProxySqlite(plan)
    try:
        thunk()
        return None
    except BaseException as e:  # noqa
        return e
    finally:
        pgsql.sqlite3 = saved


def in_child(pgsql, plan, thunk):
    """Run thunk() under the fault plan in a forked child; returns 'died' / 'ok' / 'parsing' / 'other'."""
    pid = os.fork()
    if pid == 0:
        code = 0
        try:
            e = with_fault(pgsql, plan, thunk)
            code = 0 if e is None else (3 if type(e).__name__ == "ParsingError" else 4)
        finally:
            os._exit(code)
    _, status = os.waitpid(pid, 0)
    code = os.waitstatus_to_exitcode(status)
    return {0: "ok", 3: "parsing", 4: "other", 17: "died"}.get(code, f"exit{code}")
