"""Helpers shared by the characterisation checks (C14, C16, C17, C19): translator validation of Gen/CharF.lean, exact list encoding."""
import math
from fractions import Fraction

from pgv.models import bits, relerr, unbits


def q(x):
    f = Fraction(float(x))
    return f"{f.numerator}/{f.denominator}"


def qlist(xs):
    return "[" + ";".join(q(x) for x in xs) + "]"


def parse_q(s):
    n, d = s.split("/")
    return Fraction(int(n), int(d))


def parse_qlist(s):
    inner = s[1:-1]
    return [parse_q(t) for t in inner.split(";")] if inner else []


def optq(x):
    return "~" if x is None else q(x)


def tv_run(ck, cases, driver="Char", tol=1e-12):
    """cases: list of (lean name, env dict, python value).  Runs the generated Float formula on the same arguments
    (ordered as the translator recorded them) and compares.  Disagreement = broken tie (not a violation by itself)."""
    info = ck.gen_info.get("Char", {}).get("functions", {})
    lines, meta = [], []
    for name, env, py in cases:
        args = info.get(name, {}).get("args")
        if args is None:
            ck.broken.append({"step": "translator", "what": f"generated function {name} is missing"})
            continue
        try:
            vals = [float(env[a]) for a in args]
        except KeyError as e:
            ck.broken.append({"step": "translator validation", "what": f"{name}: generated argument {e} has no value in the harness (source changed shape)"})
            continue
        lines.append(f"ev {name} [{';'.join(bits(v) for v in vals)}]")
        meta.append((name, vals, py))
    bad = 0
    if lines:
        try:
            replies = ck.drive(driver, lines)
        except Exception as e:
            ck.broken.append({"step": f"driver {driver}", "what": str(e)[:600]})
            return
        for (name, vals, py), rep, line in zip(meta, replies, lines):
            ck.count(("tv", name, tuple(vals)), nontrivial=False, bucket="translator:" + name)
            t = rep.split()
            if t[0] != "ok":
                ok = False
            else:
                lean = unbits(t[1])
                py = float(py)
                ok = (math.isnan(lean) and math.isnan(py)) or relerr(lean, py) <= tol or abs(lean - py) < 1e-300
            if not ok:
                bad += 1
                if bad <= 3:
                    ck.broken.append({"step": "translator validation Gen.CharF vs Python", "what": {"request": line, "lean": rep, "python": repr(py), "function": name}})
    ck.cov["translator_cases"] = ck.cov.get("translator_cases", 0) + len(lines)
    ck.cov["translator_disagreements"] = ck.cov.get("translator_disagreements", 0) + bad


def quiet_logging():
    import logging
    logging.getLogger("pygaps").setLevel(logging.CRITICAL)
    try:
        from pygaps import logger
        logger.setLevel(logging.CRITICAL)
    except Exception:
        pass
