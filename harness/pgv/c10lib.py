"""Helpers used by the C10 check only: the wide parameter box, the argument kinds of a model call and the snapshots that
decide whether a call changed its argument, the extended pressure / loading sweeps (extreme low coverage … validity limit)."""
import math

from pgv.models import HENRY, PEXPLICIT, QUAD_INV, REL_ONLY, ROOT_INV, SAT, henry_probe, logu, sample_params

# methods that are closed forms of their argument (everything else is a numerical inverse / a quadrature)
QUAD_SPREAD = {"Toth", "JensenSeaton", "DR", "DA"}                 # scipy.integrate.quad: scalars only
NO_SPREAD = {"Virial", "FHVST", "WVST"}                            # not implemented by the library
RATIONAL = {"Henry", "Langmuir", "DSLangmuir", "TSLangmuir", "BET", "GAB", "Quadratic", "TemkinApprox"}   # Model/ModelEval.lean


def closed_form(name, fn):
    if fn == "loading":
        return name not in PEXPLICIT
    if fn == "pressure":
        return name not in ROOT_INV
    return name not in QUAD_SPREAD | NO_SPREAD


def sample_params_wide(name, rng):
    """A parameter vector from the DECLARED box (`param_default_bounds`: affinities and capacities in (0, inf)), log-uniform over
    18 / 8 decades (a Henry constant per Pa is 1e-6, per bar 1e+3), the shape parameters over the range the property quantifies."""
    par = sample_params(name, rng)
    for k in par:
        if k.startswith("K") and not (name == "GAB" and k == "K"):
            par[k] = logu(rng, 1e-9, 1e9)
        elif k.startswith("n_m") or (name == "JensenSeaton" and k == "a"):
            par[k] = logu(rng, 1e-4, 1e4)
    if name in ("BET", "GAB"):
        par["C"] = logu(rng, 1e-3, 1e5)
        par["N" if name == "BET" else "K"] = min(0.999, logu(rng, 1e-3, 1.0))
    if name == "JensenSeaton":
        par["b"] = logu(rng, 1e-6, 1e3)
    return par


QUAD_DEGENERATE = {"BET", "GAB", "Quadratic"}


def quad_degenerate_params(name, par, rng):
    """The parameter region in which the leading coefficient of the quadratic solved by `pressure` vanishes or nearly vanishes -- BET with
    C = N or C -> N, GAB with C = 1 or C -> 1, Quadratic with Kb = 0 or Kb << Ka^2 -- all inside the declared bounds (findings S51-C10b:
    the textbook form of the root divided by that coefficient; repaired, Props/C10/Findings.lean `textbook_degenerate`,
    Lemmas/Quad.lean `stable_minus_linear`).  Exactly degenerate in 1 of 4 draws, else at a relative distance 1e-16 ... 1e-2 on either side."""
    par = dict(par)
    exact = rng.random() < 0.25
    eps = 0.0 if exact else logu(rng, 1e-16, 1e-2) * rng.choice([-1.0, 1.0])
    if name == "BET":
        par["C"] = par["N"] * (1 + eps)
    elif name == "GAB":
        par["C"] = 1 + eps
    elif name == "Quadratic":
        par["Kb"] = 0.0 if exact else par["Ka"] ** 2 * logu(rng, 1e-30, 1e-6)
    return par


def henry_probe_of(name, par):
    """`models.henry_probe`, also for the degenerate member Quadratic with Kb = 0 (Langmuir's model: first correction Ka p)."""
    if name == "Quadratic" and par["Kb"] == 0:
        return 1e-10 / par["Ka"]
    return henry_probe(name, par)


def quad_inverse_condition(name, par, p):
    """|d ln p / d ln n| of the inverse of BET / GAB / Quadratic / DSLangmuir at the pressure p, EXACT (rational arithmetic on the doubles:
    near saturation the terms cancel): the factor by which `pressure` must amplify a relative error of the loading it is given, whatever
    the implementation.  ~1 at low coverage, -> infinity towards saturation (DSLangmuir, Quadratic), < 1 towards the BET / GAB pole."""
    from fractions import Fraction as Fr
    q = {k: Fr(float(v)) for k, v in par.items()}
    p = Fr(float(p))
    if name == "BET":
        d = 1 + q["N"] * p / (1 - q["N"] * p) - p * (q["C"] - q["N"]) / (1 - q["N"] * p + q["C"] * p)
    elif name == "GAB":
        u = q["K"] * p
        d = 1 + u / (1 - u) - u * (q["C"] - 1) / (1 - u + q["C"] * u)
    elif name == "Quadratic":
        d = 1 + 2 * q["Kb"] * p / (q["Ka"] + 2 * q["Kb"] * p) - (q["Ka"] * p + 2 * q["Kb"] * p * p) / (1 + q["Ka"] * p + q["Kb"] * p * p)
    elif name == "DSLangmuir":
        n = q["n_m1"] * q["K1"] * p / (1 + q["K1"] * p) + q["n_m2"] * q["K2"] * p / (1 + q["K2"] * p)
        dn = q["n_m1"] * q["K1"] / (1 + q["K1"] * p) ** 2 + q["n_m2"] * q["K2"] / (1 + q["K2"] * p) ** 2
        d = p * dn / n
    else:
        raise KeyError(name)
    return float(1 / d) if d > 0 else float("inf")


def dubinin_condition(name, par, p, n):
    """|d ln p / d ln n| of the DR / DA inverse at (p, n): ln p = (e / -RT) L^(1/m) with L = -ln(n / n_m), hence |ln p| / (m L).  It grows
    without bound as p -> 1 (n -> n_m: the logarithm of a ratio that is 1 - 1e-9 carries 7 digits), so the round trip there is limited by
    the rounding of the loading itself, whatever the implementation."""
    m = par.get("m", 2.0)
    lam = -math.log(n / par["n_m"]) if 0 < n < par["n_m"] else 0.0
    if lam <= 0 or p <= 0:
        return float("inf")
    return abs(math.log(p)) / (m * lam)


def kscale(name, par):
    """The pressure at which the coverage is of order one half (the pole for BET/GAB)."""
    if name in ("BET", "GAB"):
        return 1 / par["N" if name == "BET" else "K"]
    if name in REL_ONLY:
        return 1.0
    ks = [v for k, v in par.items() if k.startswith("K")]
    return 1 / max(ks) if ks else 1.0


def sweep_pressures(name, par, rng, n_low, n_high):
    """Reduced pressures x = p / kscale: `n_low` points log-uniform over the extreme low-coverage end (1e-18 … 1e-4), `n_high`
    from there up to near saturation (x up to 1e4: coverage 1 - 1e-4 for Langmuir) / the validity limit (BET/GAB: up to 0.999 of
    the pole; DR/DA: relative pressures 1e-12 … 1)."""
    if name in ("BET", "GAB"):
        xs = [logu(rng, 1e-18, 1e-4) for _ in range(n_low)] + [logu(rng, 1e-4, 0.5) for _ in range(n_high // 2)] + \
             [1 - logu(rng, 1e-3, 0.5) for _ in range(n_high - n_high // 2)]
    elif name in REL_ONLY:
        xs = [logu(rng, 1e-12, 1.0) for _ in range(n_low + n_high)]
    else:
        xs = [logu(rng, 1e-18, 1e-4) for _ in range(n_low)] + [logu(rng, 1e-4, 1e4) for _ in range(n_high)]
    s = kscale(name, par)
    return [(x, x * s) for x in xs if 1e-290 < x * s < 1e290]


def henry_alpha(name, par):
    """Order of the first correction to Henry's law: n(p)/(K_H p) = 1 + O(p^alpha)."""
    if name == "Toth":
        return par["t"]
    if name == "JensenSeaton":
        return min(par["c"], 1.0)
    return 1.0


# ------------------------------------------------------------------------------------------------ argument kinds

SCALAR_KINDS = ("float", "int", "f64", "f32scalar", "0d")
ARRAY_KINDS = ("1d", "1d1", "readonly", "strided", "reversed", "2d", "f32", "i64", "i32", "series")
SEQ_KINDS = ("list", "tuple")


def arg_kinds(np, pd, vals, ints):
    """kind -> (argument object, the float value of each element in C order).  `vals`: >= 4 floats of the domain, `ints`: >= 1 ints."""
    a = np.array(vals, dtype=float)
    ro = a.copy()
    ro.setflags(write=False)
    big = np.full(2 * len(vals), 0.5 * (vals[0] + vals[1]))
    big[::2] = a
    f32 = a.astype(np.float32)
    out = {
        "float": (float(vals[1]), [vals[1]]),
        "int": (int(ints[0]), [float(ints[0])]),
        "f64": (np.float64(vals[1]), [vals[1]]),
        "f32scalar": (np.float32(vals[1]), [float(np.float32(vals[1]))]),
        "0d": (np.array(vals[1]), [vals[1]]),
        "1d": (a.copy(), list(vals)),
        "1d1": (a[2:3].copy(), [vals[2]]),
        "readonly": (ro, list(vals)),
        "strided": (big[::2], list(vals)),
        "reversed": (a.copy()[::-1], list(vals)[::-1]),
        "2d": (a[:4].reshape(2, 2).copy(), list(vals[:4])),
        "f32": (f32, [float(x) for x in f32]),
        "i64": (np.array(ints, dtype=np.int64), [float(i) for i in ints]),
        "i32": (np.array(ints, dtype=np.int32), [float(i) for i in ints]),
        "list": ([float(v) for v in vals], list(vals)),
        "tuple": (tuple(float(v) for v in vals), list(vals)),
        "series": (pd.Series(a.copy(), index=[f"r{i}" for i in range(len(vals))]), list(vals)),
    }
    return out


def snap(np, pd, arg):
    """Everything a caller can observe of the argument: type, dtype, shape, bytes (of the whole base buffer for a view), index."""
    if isinstance(arg, np.ndarray):
        base = arg.base if isinstance(arg.base, np.ndarray) else None
        return ("nd", str(arg.dtype), arg.shape, arg.strides, arg.tobytes(), None if base is None else base.tobytes())
    if isinstance(arg, pd.Series):
        return ("series", str(arg.dtype), tuple(arg.index), arg.to_numpy().tobytes(), arg.name)
    if isinstance(arg, (list, tuple)):
        return (type(arg).__name__, tuple(repr(x) for x in arg), tuple(id(x) for x in arg))
    return (type(arg).__name__, repr(arg))


def flat(np, res):
    """The numbers of a result in C order (a scalar is one number)."""
    return [float(x) for x in np.asarray(res, dtype=float).ravel()]


def same_numbers(a, b):
    """bitwise equality of two lists of floats (nan == nan)."""
    if len(a) != len(b):
        return False
    return all((x == y) or (x != x and y != y) for x, y in zip(a, b))


def near(a, b, rel):
    if a == b or (a != a and b != b):
        return True
    if math.isinf(a) or math.isinf(b) or a != a or b != b:
        return False
    return abs(a - b) <= rel * max(abs(a), abs(b))


# ------------------------------------------------------------------------------------------------ certified numerical inverses (2d)

# numerically inverted models -> parameter vectors in the quick tier (each x 18 coverage strata).  (Virial: Nelder-Mead, known finding S24
# -- answers that are no roots on the unchanged tree -- stays with the moderate oracle of section 2.)
CERTIFIED = {"FHVST": 120, "WVST": 80, "TSLangmuir": 120, "TemkinApprox": 40, "JensenSeaton": 80}
# upper edges of the coverage strata: dense on the steep approach to saturation
COVERAGE_STRATA = (0.002, 0.02, 0.1, 0.3, 0.5, 0.65, 0.75, 0.8, 0.84, 0.87, 0.89, 0.91, 0.93, 0.95, 0.96, 0.97, 0.98, 0.99)
CERT_KINDS = ("float", "f64", "0d", "1d1")
# corners and interior of the shape parameters (FH-VST: a1v >= -1 is the range of `fhvst_strictMonoOn`, the pole of the exponent lies outside)
_FHVST_A1V = (-0.9, -0.5, 0.0, 1.0, 3.0, 5.0)


def cert_kind(np, kind, v):
    return {"float": lambda: float(v), "f64": lambda: np.float64(v), "0d": lambda: np.array(float(v)), "1d1": lambda: np.array([float(v)])}[kind]()


def certified_params(name, rng, iv):
    """Parameter vector number `iv` of the certified-inverse grid: alternately the moderate box (capacities 1e-2..1e2, affinities 1e-3..1e3) and
    the wide one (1e-3..1e3, 1e-6..1e6); the shape parameter on a corner of its range in every third vector, else uniform over the range."""
    wide = iv % 2 == 1
    cap = (lambda: logu(rng, 1e-3, 1e3)) if wide else (lambda: logu(rng, 1e-2, 1e2))
    u = (lambda: logu(rng, 1e-6, 1e6)) if wide else (lambda: logu(rng, 1e-3, 1e3))
    if name == "FHVST":
        return {"n_m": cap(), "K": u(), "a1v": _FHVST_A1V[(iv // 3) % len(_FHVST_A1V)] if iv % 3 == 0 else rng.uniform(-0.9, 5)}
    if name == "WVST":
        lam = (lambda: rng.choice([0.15, 1.0])) if iv % 3 == 0 else (lambda: rng.uniform(0.15, 1))
        return {"n_m": cap(), "K": u(), "L1v": lam(), "Lv1": lam()}
    if name == "TSLangmuir":
        return {"n_m1": cap(), "n_m2": cap(), "n_m3": cap(), "K1": u(), "K2": u(), "K3": u()}
    if name == "TemkinApprox":
        return {"n_m": cap(), "K": u(), "tht": rng.choice([0.0, 3.0]) if iv % 3 == 0 else rng.uniform(0, 3)}
    if name == "JensenSeaton":
        return {"K": u(), "a": cap(), "b": logu(rng, 1e-6, 1e3) if wide else logu(rng, 1e-3, 1e1), "c": rng.choice([0.25, 4.0]) if iv % 3 == 0 else logu(rng, 0.25, 4)}
    raise KeyError(name)


def certified_arguments(np, name, par, m, rng):
    """[(coverage, argument of the closed-form direction)]: one jittered point in every coverage stratum.  Pressure-explicit models: the
    loading itself; TSLangmuir / TemkinApprox: the pressure at which the closed-form loading reaches that coverage (log-bisection on the
    closed form); Jensen-Seaton (no saturation capacity): reduced pressures K p / a stratified over 1e-6 ... 1e6."""
    edges = (0.0,) + COVERAGE_STRATA
    covs = [rng.uniform(a, b) for a, b in zip(edges, COVERAGE_STRATA)]
    if name in PEXPLICIT:
        return [(c, c * par["n_m"]) for c in covs]
    if name == "JensenSeaton":
        k = len(COVERAGE_STRATA)
        return [(None, 10.0 ** (-6 + 12 * (i + rng.random()) / k) * par["a"] / par["K"]) for i in range(k)]
    sat = SAT[name](par)
    lo = np.full(len(covs), -300.0)
    hi = np.full(len(covs), 300.0)
    target = np.array(covs) * sat
    with np.errstate(all="ignore"):
        for _ in range(60):
            mid = 0.5 * (lo + hi)
            below = np.asarray(m.loading(10.0 ** mid), dtype=float) < target
            lo = np.where(below, mid, lo)
            hi = np.where(below, hi, mid)
    return [(c, float(10.0 ** (0.5 * (a + b)))) for c, a, b in zip(covs, lo, hi)]
