"""C20 (and the 'outcome depends only on the target file' clause of C08): the in-memory registry of shipped adsorbates must survive any
history of store operations on OTHER database files with user adsorbates whose names collide with names or aliases of shipped ones.

Oracle (model-independent): at every step every shipped name and alias resolves (`Adsorbate.find`) to the shipped object itself; after the
user's adsorbate has been deleted again the registry is the original list (same objects, same order).  The Lean store model erases list
entries by exact name (`Mem.adsList.erase`); the code used to remove "the first entry that lists the name as an alias" (fixed: a7aabbc)."""
from . import storelib as sl


def run(ck, pg):
    import pygaps.parsing.sqlite as pgsql
    rng = ck.rng
    reg = pg.ADSORBATE_LIST
    original = list(reg)
    if not original:
        return
    files = sl.Files(pg)
    try:
        # the user's adsorbate is named like an ALIAS of a shipped one, never like the NAME of one: two registry entries with the same name are
        # the same adsorbate by the library's own equality, and deleting "it" is then the user's explicit request
        names = {a.name.lower() for a in original}
        shipped = [a for a in original if any(x.lower() not in names for x in a.alias)]
        for it in range(ck.n(10, 40)):
            target = rng.choice(shipped)
            label = rng.choice(sorted(x for x in target.alias if x.lower() not in names))
            label = rng.choice([label, label.upper(), label.title()])
            path = files.new()
            how = rng.choice(["delete by name", "delete by object", "overwrite then delete by name", "overwrite only"])
            sig = {"clause": "shipped adsorbate no longer resolves after store operations on another file", "how": how}
            detail = {"user_adsorbate_name": label, "shipped": target.name, "steps": []}

            def check(step):
                detail["steps"].append(step)
                bad = []
                for key in [target.name] + list(target.alias)[:6]:
                    try:
                        got = pg.Adsorbate.find(key)
                    except Exception as e:  # noqa
                        bad.append((key, type(e).__name__))
                        continue
                    if got is not target:
                        bad.append((key, f"resolves to another object named {got.name!r}"))
                ck.count(("regsession", how, step, it), bucket="registry under store history:" + how)
                if bad:
                    ck.fail_case(sig, {**detail, "failed_lookups": bad[:5], "registry_length": len(reg), "original_length": len(original)})
                    return False
                return True

            try:
                user = pg.Adsorbate(label, store=False, formula="X1")
                pgsql.adsorbate_to_db(user, db_path=path, autoinsert_properties=True, verbose=False)
                ok = check("upload")
                if ok and how.startswith("overwrite"):
                    user2 = pg.Adsorbate(label, store=False, formula="X2")
                    pgsql.adsorbate_to_db(user2, db_path=path, autoinsert_properties=True, overwrite=True, verbose=False)
                    ok = check("overwrite")
                    user = user2
                if ok and "delete" in how:
                    pgsql.adsorbate_delete_db(user if how.endswith("object") else label, db_path=path, verbose=False)
                    if check("delete") and not (len(reg) == len(original) and all(a is b for a, b in zip(reg, original))):
                        ck.fail_case({"clause": "registry differs from the original after the user's adsorbate was deleted again", "how": how},
                                     {**detail, "registry_length": len(reg), "original_length": len(original)})
            except Exception as e:  # noqa
                ck.fail_case({"clause": "store operation on a user adsorbate named like a shipped alias raises", "how": how, "error": type(e).__name__}, {**detail, "error": repr(e)[:300]})
            finally:
                reg[:] = original
    finally:
        reg[:] = original
        files.close()
