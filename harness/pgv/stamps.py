"""Source stamps: digests of the normalised AST of every function of a property's anchored files, as they were when the
hand-written Lean models and the correspondence harness of that property were last validated against them
(`harness/stamps.lock.json`, written by `harness/mkstamps.py`, never at check time).

A stale stamp is NOT a failure (the edit may be harmless, and every generated `Gen/*` text is rebuilt from the current source
anyway): it tells the check that the code it models has moved since the model was written, so the run (a) enlarges the
correspondence / failing-input search of the quick tier (`Check.boost`), and (b) lists the changed functions in the evidence
and in any `no-failing-input-found` replay, which is where a reader should look first.
"""
import ast
import hashlib
import json
from pathlib import Path


def _strip(node):
    """remove docstrings and logger / warnings statements (they cannot change a result)"""
    for n in ast.walk(node):
        body = getattr(n, "body", None)
        if isinstance(body, list):
            new = []
            for i, st in enumerate(body):
                if isinstance(st, ast.Expr) and isinstance(st.value, ast.Constant) and isinstance(st.value.value, str):
                    continue
                if isinstance(st, ast.Expr) and isinstance(st.value, ast.Call):
                    f = st.value.func
                    if isinstance(f, ast.Attribute) and isinstance(f.value, ast.Name) and f.value.id in ("logger", "warnings"):
                        continue
                new.append(st)
            n.body = new or [ast.Pass()]
    return node


def file_digests(path):
    path = Path(path)
    if path.suffix != ".py":
        return {"<file>": hashlib.md5(path.read_bytes()).hexdigest()}
    tree = ast.parse(path.read_text())
    out = {}

    def walk(node, prefix):
        rest = []
        for ch in ast.iter_child_nodes(node):
            if isinstance(ch, (ast.FunctionDef, ast.AsyncFunctionDef)):
                out[prefix + ch.name] = hashlib.md5(ast.dump(_strip(ch), include_attributes=False).encode()).hexdigest()
            elif isinstance(ch, ast.ClassDef):
                walk(ch, prefix + ch.name + ".")
            elif isinstance(ch, (ast.Import, ast.ImportFrom)):
                continue
            elif not (isinstance(ch, ast.Expr) and isinstance(getattr(ch, "value", None), ast.Constant)):
                if isinstance(ch, ast.stmt):
                    rest.append(ast.dump(ch, include_attributes=False))
        # module / class level statements (tables, class attributes) as one stamp
        if rest:
            out[prefix + "<body>"] = hashlib.md5("\n".join(rest).encode()).hexdigest()
    walk(tree, "")
    return out


def current(repo, rel_files):
    res = {}
    for rel in rel_files:
        p = Path(repo) / rel
        res[rel] = file_digests(p) if p.exists() else {"<missing>": ""}
    return res


def compare(lock, now):
    """list of 'rel:function' whose digest differs from the lock (changed, removed or new)"""
    stale = []
    for rel in sorted(set(lock) | set(now)):
        a, b = lock.get(rel, {}), now.get(rel, {})
        for q in sorted(set(a) | set(b)):
            if a.get(q) != b.get(q):
                stale.append(f"{rel}:{q}" + ("" if q in a and q in b else (" (new)" if q in b else " (removed)")))
    return stale


def package_digests(repo):
    """one digest per python file of the package (normalised AST) and per data file: a change ANYWHERE in the package may matter to any property"""
    root = Path(repo) / "src" / "pygaps"
    out = {}
    for f in sorted(root.rglob("*")):
        if not f.is_file() or "__pycache__" in f.parts or f.name == "_version.py":
            continue
        rel = str(f.relative_to(Path(repo)))
        if f.suffix == ".py":
            try:
                out[rel] = hashlib.md5(ast.dump(_strip(ast.parse(f.read_text())), include_attributes=False).encode()).hexdigest()
            except SyntaxError:
                out[rel] = "syntax-error"
        elif f.suffix in (".json", ".db", ".csv"):
            out[rel] = hashlib.md5(f.read_bytes()).hexdigest()
    return out


def load_lock(verif):
    p = Path(verif) / "harness" / "stamps.lock.json"
    return json.loads(p.read_text()) if p.exists() else {}
