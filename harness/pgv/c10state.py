"""C10, last sentence -- "evaluating through a model isotherm gives the bare model's values after unit conversion" -- on model
isotherms in every stored STATE (used by harness/props/c10.py only).

A state = adsorbate (real CoolProp fluids over their two-phase range, and the constant stub) x temperature NUMBER stored in K or in
degrees Celsius (constructed so, or reached through `convert_temperature`) x stored pressure mode / unit x stored loading basis / unit
(molar, mass, volume_gas, volume_liquid, fraction, percent) x stored material basis / unit x one of the 16 models (DR / DA on relative
pressure only).  On every state each of `loading_at`, `pressure_at`, `spreading_pressure_at` (scalar and 1-d argument), `pressure(points)`
and `loading(points)` (with strict limits) is called with a requested representation that is biased to the conversions that need the
adsorbate AT THE ISOTHERM TEMPERATURE (pressure-mode changes: p0(T); volume bases: densities at T), and compared with

  (1) the SI oracle: the bare model's own `loading` / `pressure` / `spreading_pressure` (a model object of its own, never the one inside
      the isotherm; DR / DA with RT at the harness's kelvin temperature) on the argument re-expressed with the SI tables of c01.py, the
      adsorbate's constants taken at the KELVIN temperature which the harness computes from the stored number and the unit
      (`c02.World`: never read from the isotherm);
  (2) the Lean model of the state run at Q (Model/ModelEval.lean `kelvinOf`, `convP`, `loadingAtS`, `pressureAtS`, `wholePressureS`,
      `wholeLoadingS` through Drv/ModelEval.lean `kel`, `cvp`, `lat`, `pat`, `wps`, `wls`; theorems Props/C10/State.lean): the adsorbate is
      tabulated for the driver at the harness's kelvin temperature ONLY, the driver computes the kelvin temperature of the state itself;
      for the rational models the whole pipeline is exact, for the others the conversions are (two-phase: Lean input conversion -> the
      bare model -> output factor);
  (3) the twin: the same model isotherm stored in the other temperature unit (same kelvin temperature) answers every call alike
      (Props/C10/State.lean `loadingAtS_twin`, `pressureAtS_twin`, `spreadingAtS_twin`, `wholePressureS_kelvinTwin`).
"""
import math
from fractions import Fraction as Fr

from pgv import c10lib as L
from pgv.core import frac, parse_q, qstr
from pgv.models import PEXPLICIT, QUAD_INV, REL_ONLY, ROOT_INV, make, sample_params

# further fluids beside c03.REAL (name known to pyGAPS); a fluid is used at a temperature only when every constant is available there
EXTRA_FLUIDS = ("ethane", "xenon", "n-hexane", "benzene", "n-pentane", "isobutane", "propene", "SF6", "methanol", "ethanol")
MODE_TOK = {"absolute": "absolute", "relative": "relative", "relative%": "relative%"}


class States:
    """generator of (adsorbate, stored temperature number, unit) with the world (exact constants) at the harness's kelvin temperature"""

    def __init__(self, ck, pg, c01, c02, c03):
        self.ck, self.pg, self.c01, self.c02, self.c03 = ck, pg, c01, c02, c03
        self.worlds = {}
        self.ranges = {}
        self.fluids = [n for n, _ in c03.REAL]
        for n in EXTRA_FLUIDS:
            try:
                pg.Adsorbate.find(n)
                self.fluids.append(n)
            except Exception:  # noqa   (not in this version's list)
                pass
        self.fluids = sorted(set(self.fluids))

    def two_phase(self, name):
        """(lowest, highest) temperature of the range used for the fluid: inside its two-phase region with a margin"""
        if name not in self.ranges:
            b = self.pg.Adsorbate.find(name).backend
            tt, tc = float(b.Ttriple()), float(b.T_critical())
            self.ranges[name] = (max(tt + 2.0, 0.45 * tc), 0.97 * tc)
        return self.ranges[name]

    def world(self, name, tk):
        if (name, tk) not in self.worlds:
            self.worlds[(name, tk)] = self.c02.World(self.pg, f"{name}@{tk!r}K", name, "pgv_mat", tk)
        return self.worlds[(name, tk)]

    @staticmethod
    def complete(w):
        P = w.props
        return P.psat is not None and P.psat > 0 and all(v is not None and v > 0 for v in P.q.values()) and P.md and P.mm

    def pick(self):
        """-> (adsorbate name, stored number, temperature unit, kelvin temperature computed HERE, world at that temperature)"""
        rng = self.ck.rng
        for _ in range(20):
            r = rng.random()
            if r < 0.07:
                name, tk0 = "pgv_stub", 77.0 + rng.uniform(-1.5, 1.5)
            elif r < 0.45:
                name, t0 = rng.choice(self.c03.REAL)
                tk0 = t0 + rng.uniform(-1.5, 1.5)
            else:
                name = rng.choice(self.fluids)
                lo, hi = self.two_phase(name)
                tk0 = rng.uniform(lo, hi)
            tu = "°C" if rng.random() < 0.65 else "K"
            if tu == "K":
                tval = round(tk0, 3)
            elif name != "pgv_stub" and rng.random() < 0.06 and self.two_phase(name)[0] < 273.15 < self.two_phase(name)[1]:
                tval = 0.0            # the stored number of a state may be falsy
            else:
                tval = round(tk0 - 273.15, 2)
            tk = tval if tu == "K" else tval + 273.15
            try:
                w = self.world(name, tk)
            except Exception:  # noqa
                continue
            if self.complete(w):
                return name, tval, tu, tk, w
        return None


def _tok_rep(c01, rep):
    """(mode token, exact Pa per unit | 1) of a pressure representation for the driver"""
    return MODE_TOK[rep[0]], (qstr(c01.PA[rep[1]]) if rep[0] == "absolute" else "1")


def _lim_tok(lim):
    if lim is None:
        return "- -"
    return " ".join("~" if x is None else qstr(x) for x in lim)


def _qlist(vs):
    return "[" + ";".join(qstr(v) for v in vs) + "]"


def _parse_list(rep):
    t = rep.split()
    if t[0] != "ok":
        return None
    return [parse_q(x) for x in t[1][1:-1].split(";")] if t[1] != "[]" else []


def run(ck, pg, np, pd, models, c01, c02, c03, PST, LST, MST, domain_values, call, capped):
    from pygaps.utilities.exceptions import CalculationError  # noqa
    rng = ck.rng
    gen = States(ck, pg, c01, c02, c03)
    fail = capped(ck, 2)
    FRAC = c03.FRAC
    lines, todo = [], []            # driver requests and what to do with the replies
    worst = {}

    def note(k, v):
        worst[k] = max(worst.get(k, 0.0), v)

    def ask(line, fn):
        lines.append(line)
        todo.append(fn)

    n_states = ck.n(120, 600)
    made = 0
    for it in range(n_states):
        st = gen.pick()
        if st is None:
            continue
        ads, tval, tu, tk, w = st
        P = w.props
        name = models[it % len(models)] if rng.random() < 0.8 else rng.choice(models)
        par = sample_params(name, rng)
        st_p = ("relative", None) if name in REL_ONLY else rng.choice(PST)
        st_l, st_m = rng.choice(LST), rng.choice(MST)
        lab = [st_p[0], st_p[1], st_l[0], st_l[1], st_m[0], st_m[1], tu]
        # the bare model: an object of its own, the RT term of DR / DA at the kelvin temperature computed above
        bare = make(pg, name, par, temp=tk)
        pvals, nvals = domain_values(np, name, par, bare, rng, 4)
        if not all(math.isfinite(v) and v > 1e-290 for v in pvals + nvals) or len(set(pvals)) < 4 or len(set(nvals)) < 4 \
                or pvals[0] >= pvals[-1] or nvals[0] >= nvals[-1]:
            continue
        route = "constructed" if rng.random() < 0.75 else "convert_temperature"
        own = "des" if rng.random() < 0.25 else "ads"          # the branch the model stands for; accessors are asked for it by name or not at all
        bkw = {"branch": own} if rng.random() < 0.4 else {}

        def build(tnum, tunit, how):
            m_ = make(pg, name, par, temp=300.0)          # (the constructor must replace the RT term by the one at the isotherm temperature)
            m_.pressure_range = (pvals[0], pvals[-1])
            m_.loading_range = (nvals[0], nvals[-1])
            kw = dict(model=m_, branch=own, material="pgv_mat", adsorbate=ads, pressure_mode=lab[0], pressure_unit=lab[1], loading_basis=lab[2],
                      loading_unit=lab[3], material_basis=lab[4], material_unit=lab[5])
            if how == "constructed":
                return pg.ModelIsotherm(temperature=tnum, temperature_unit=tunit, **kw)
            other = "K" if tunit != "K" else "°C"
            iso_ = pg.ModelIsotherm(temperature=(tnum + 273.15) if other == "K" else (tnum - 273.15), temperature_unit=other, **kw)
            iso_.convert_temperature(rng.choice(c03.CELSIUS) if tunit != "K" else "K")
            return iso_

        try:
            miso = build(tval, tu, route)
        except Exception as e:  # noqa
            fail({"clause": "model-isotherm-state", "accessor": "constructor", "temperature_unit": tu},
                 {"adsorbate": ads, "stored_temperature": tval, "model": name, "params": par, "stored": [str(x) for x in lab], "error": repr(e)[:300]})
            continue
        if route == "convert_temperature":
            # the state is what is stored now: its number (one rounding away from `tval`), and the kelvin temperature recomputed from it
            tval = float(miso._temperature)
            tk = tval if tu == "K" else tval + 273.15
            w = gen.world(ads, tk)
            if not gen.complete(w):
                continue
            P = w.props
            bare = make(pg, name, par, temp=tk)
        made += 1

        # ---- the request: biased to mode changes (p0 at T) and volume bases (densities at T)
        rq_p, rq_l, rq_m = c03.pick_request(rng, lab, PST, LST, MST)
        if lab[2] in FRAC:
            rq_m = (lab[4], lab[5])                  # (stored fraction + material change: findings S5d / S5e of C03)
        conv_p = rng.random() < 0.88
        conv_l = rng.random() < 0.88
        if not conv_p:
            rq_p = (lab[0], lab[1])
        if not conv_l:
            rq_l, rq_m = (lab[2], lab[3]), (lab[4], lab[5])
        kw_p = dict(pressure_mode=rq_p[0], pressure_unit=rq_p[1]) if conv_p else {}
        kw_l = dict(loading_basis=rq_l[0], loading_unit=rq_l[1], material_basis=rq_m[0], material_unit=rq_m[1]) if conv_l else {}
        f_p = P.scale_p(lab[0], lab[1]) / P.scale_p(rq_p[0], rq_p[1])          # stored -> requested, exact, constants at `tk`
        f_l = c03.expected_loading(P, lab, rq_l, rq_m, 1.0)
        mode_changes = (rq_p[0] == "absolute") != (lab[0] == "absolute")
        needs_density = c03.needs_T(lab[2], rq_l[0], rq_m[0], lab[4])
        base = {"clause": "model-isotherm-state", "temperature_unit": tu, "pressure_mode_changes": mode_changes}
        det = {"adsorbate": ads, "stored_temperature": tval, "temperature_unit": tu, "kelvin": tk, "state": route, "model": name, "params": par,
               "stored": [str(x) for x in lab[:6]], "model_branch": own, "requested": {**bkw, **kw_p, **kw_l}, "saturation_pressure_Pa_at_kelvin": float(P.psat),
               "loading_conversion_needs_density_at_T": needs_density}
        ck.count(("state", ads, tval, tu, name, tuple(lab[:6]), rq_p, rq_l, rq_m), bucket=f"state:{tu}:{'mode-change' if mode_changes else 'same-mode'}"
                 + (":density" if needs_density else ""),
                 sample={**det, "params": None} if made % 29 == 1 else None)

        # the twin: the same isotherm stored in the other temperature unit, at the same kelvin temperature
        try:
            twin = build(tk if tu != "K" else tk - 273.15, "K" if tu != "K" else "°C", "constructed")
        except Exception as e:  # noqa
            twin = None
            fail({**base, "accessor": "constructor", "oracle": "twin"}, {**det, "error": repr(e)[:300]})

        # ---- Lean: the kelvin temperature of the state (and `BaseIsotherm.temperature`)
        ucode = "K" if tu == "K" else "C"
        t_exact = frac(tval) if tu == "K" else frac(tval) + Fr(5463, 20)
        head = f"{ucode} {qstr(tval)} {qstr(t_exact)} {qstr(P.psat)}"
        sm, su = _tok_rep(c01, (lab[0], lab[1]))
        rm, ru = _tok_rep(c01, rq_p)
        reps = f"{sm} {su} {rm} {ru}"

        def on_kel(rep, miso=miso, tk=tk, det=det, base=base):
            t = rep.split()
            lean_t = float(parse_q(t[1])) if t[0] == "ok" else None
            got = float(miso.temperature)
            ck.count(("kel", det["adsorbate"], det["stored_temperature"], det["temperature_unit"]), bucket="state:kelvin")
            if lean_t is None or not L.near(lean_t, tk, 1e-14):
                ck.broken.append({"step": "correspondence Model/ModelEval.lean kelvinOf vs the harness", "what": {"reply": rep, "harness": tk}})
            elif not L.near(got, lean_t, 1e-14):
                fail({**base, "accessor": "temperature", "oracle": "lean"}, {**det, "got": got, "expected": lean_t})
        ask(f"kel {ucode} {qstr(tval)}", on_kel)

        rational = name in L.RATIONAL
        plist = _qlist([float(par[k]) for k in bare.param_names]) if rational else None

        # ================================================================ loading_at
        qs = [float(frac(v) * f_p) for v in pvals]
        with np.errstate(all="ignore"):
            ref_l = [call(np, bare.loading, np.float64(v)) for v in pvals]
        if all(s_ == "ok" for s_, _ in ref_l):
            bl = [float(np.asarray(v).ravel()[0]) for _, v in ref_l]
            exp = [float(frac(v) * f_l) for v in bl]
            numeric = name in PEXPLICIT
            usable = [True] * len(bl)
            usable_vec = usable
            if numeric:
                # a numerical inverse is compared only where the bare model's own answer is a root of pressure(n) = p (known findings S24,
                # S24b, S24c) and, for the vector call, where the bare model's vector solve returns that root too
                for i, (p_, l_) in enumerate(zip(pvals, bl)):
                    s_, back = call(np, bare.pressure, np.float64(l_))
                    usable[i] = s_ == "ok" and math.isfinite(l_) and l_ > 0 and L.near(float(np.asarray(back).ravel()[0]), p_, 1e-6)
                s_, vec = call(np, bare.loading, np.array(pvals))
                vec = L.flat(np, vec) if s_ == "ok" else [float("nan")] * len(bl)
                usable_vec = [u and L.near(a, b, 1e-4) for u, a, b in zip(usable, vec, bl)]
            tol = 5e-3 if numeric else 1e-9
            f = lambda a: miso.loading_at(a, **bkw, **kw_p, **kw_l)      # noqa
            results = {}
            for kind, arg in (("1d", np.array(qs)), ("scalar", qs[1])):
                s_, got = call(np, f, arg)
                ck.count(("state.loading_at", ads, tval, tu, name, tuple(lab[:6]), rq_p, rq_l, rq_m, kind), bucket="state:loading_at")
                e_ = exp if kind == "1d" else exp[1:2]
                u_ = usable_vec if kind == "1d" else usable[1:2]
                if s_ != "ok":
                    if all(u_) and not numeric:          # (a numerical inverse may report failure)
                        fail({**base, "accessor": "loading_at", "oracle": "SI"}, {**det, "argument": arg if kind == "scalar" else qs, "error": repr(got)[:300], "expected": e_})
                    continue
                gl = L.flat(np, got)
                results[kind] = gl
                bad = len(gl) != len(e_) or any(u and not L.near(g, x, tol) for g, x, u in zip(gl, e_, u_))
                for g, x, u in zip(gl, e_, u_):
                    if u and x:
                        note("loading_at/tol", abs(g - x) / abs(x) / tol)
                if bad:
                    fail({**base, "accessor": "loading_at", "oracle": "SI"},
                         {**det, "argument": arg if kind == "scalar" else qs, "got": gl, "expected": e_, "tol": tol,
                          "bare_model_argument": pvals if kind == "1d" else pvals[1:2]})
            # Lean: the exact pipeline (rational models) / the exact input conversion, then the bare model, then the exact factor
            if "1d" in results and not numeric:
                if rational:
                    def on_lat(rep, gl=results["1d"], qs=qs, det=det, base=base, exp=exp):
                        ex = _parse_list(rep)
                        ck.count(("lat", tuple(qs), det["adsorbate"], det["stored_temperature"]), bucket="state:lean:lat")
                        if ex is None:
                            ck.broken.append({"step": "driver ModelEval (lat)", "what": {"reply": rep[:200], **{k_: det[k_] for k_ in ("adsorbate", "stored_temperature", "temperature_unit", "model")}}})
                        elif not all(L.near(float(a), b, 1e-9) for a, b in zip(ex, exp)):
                            ck.broken.append({"step": "Model/ModelEval.lean loadingAtS vs the SI oracle of the harness", "what": {"lean": [float(x) for x in ex], "oracle": exp, **det}})
                        elif len(ex) != len(gl) or not all(L.near(g, float(x), 1e-9) for g, x in zip(gl, ex)):
                            fail({**base, "accessor": "loading_at", "oracle": "lean"}, {**det, "argument": qs, "got": gl, "expected": [float(x) for x in ex]})
                    ask(f"lat {head} {reps} {qstr(f_l)} {name} {plist} {_qlist(qs)}", on_lat)
                else:
                    def on_cvp(rep, gl=results["1d"], qs=qs, det=det, base=base, bare=bare, f_l=f_l):
                        ps_ = _parse_list(rep)
                        ck.count(("cvp-in", tuple(qs), det["adsorbate"], det["stored_temperature"]), bucket="state:lean:cvp")
                        if ps_ is None:
                            ck.broken.append({"step": "driver ModelEval (cvp)", "what": {"reply": rep[:200], **{k_: det[k_] for k_ in ("adsorbate", "stored_temperature", "temperature_unit", "model")}}})
                            return
                        with np.errstate(all="ignore"):
                            ex = [float(frac(float(np.asarray(bare.loading(np.float64(float(p_)))).ravel()[0])) * f_l) for p_ in ps_]
                        if len(ex) != len(gl) or not all(L.near(g, x, 1e-9) for g, x in zip(gl, ex)):
                            fail({**base, "accessor": "loading_at", "oracle": "lean"},
                                 {**det, "argument": qs, "got": gl, "expected": ex, "stored_representation_argument": [float(p_) for p_ in ps_]})
                    ask(f"cvp {head} {reps} in {_qlist(qs)}", on_cvp)
            if twin is not None and "1d" in results:
                s_, tw = call(np, lambda a: twin.loading_at(a, **bkw, **kw_p, **kw_l), np.array(qs))
                gl = results["1d"]
                if s_ != "ok" and numeric:
                    pass            # (a numerical inverse may report failure)
                elif s_ != "ok" or len(L.flat(np, tw)) != len(gl) or any(u and not L.near(a, b, max(tol, 1e-9) if numeric else 1e-10) for a, b, u in zip(gl, L.flat(np, tw), usable_vec)):
                    fail({**base, "accessor": "loading_at", "oracle": "twin"},
                         {**det, "argument": qs, "got": gl, "twin_temperature": [float(twin._temperature), twin.temperature_unit], "twin": L.flat(np, tw) if s_ == "ok" else repr(tw)[:300]})

        # ================================================================ pressure_at
        if not conv_l or rq_l[1] is not None:            # (the accessor insists on a loading unit)
            ls = [float(frac(v) * f_l) for v in nvals]
            closed = L.closed_form(name, "pressure")
            with np.errstate(all="ignore"):
                ref_p = [call(np, bare.pressure, np.float64(v)) for v in nvals]
            tols = []
            for (s_, v), n_ in zip(ref_p, nvals):
                if s_ != "ok" or not math.isfinite(float(np.asarray(v).ravel()[0])):
                    tols.append(None)
                elif name in QUAD_INV:
                    tols.append(1e-6)
                elif not closed:
                    tols.append(1e-3)
                else:
                    tols.append(c03.inv_tolerance(bare, n_, np))
            if any(t is not None for t in tols):
                bp = [float(np.asarray(v).ravel()[0]) if s_ == "ok" else float("nan") for s_, v in ref_p]
                exp = [float(frac(v) * f_p) if math.isfinite(v) else float("nan") for v in bp]
                scale_ = max(abs(x) for x, t in zip(exp, tols) if t is not None)

                def close_p(g, x, t):
                    if name in QUAD_INV:            # error of the quadratic-formula inverses: absolute on the scale of the pressure range
                        return abs(g - x) <= t * (abs(x) + 1e-3 * scale_)
                    return L.near(g, x, t)
                f = lambda a: miso.pressure_at(a, **bkw, **kw_l, **kw_p)      # noqa
                results = {}
                for kind, arg in (("1d", np.array(ls)), ("scalar", ls[1])):
                    s_, got = call(np, f, arg)
                    ck.count(("state.pressure_at", ads, tval, tu, name, tuple(lab[:6]), rq_p, rq_l, rq_m, kind), bucket="state:pressure_at")
                    e_, t_ = (exp, tols) if kind == "1d" else (exp[1:2], tols[1:2])
                    if s_ != "ok":
                        if all(t is not None for t in t_) and closed:
                            fail({**base, "accessor": "pressure_at", "oracle": "SI"}, {**det, "argument": arg if kind == "scalar" else ls, "error": repr(got)[:300], "expected": e_})
                        continue
                    gl = L.flat(np, got)
                    results[kind] = gl
                    if len(gl) != len(e_) or any(t is not None and not close_p(g, x, t) for g, x, t in zip(gl, e_, t_)):
                        fail({**base, "accessor": "pressure_at", "oracle": "SI"},
                             {**det, "argument": arg if kind == "scalar" else ls, "got": gl, "expected": e_, "tol": t_, "bare_model_argument": nvals if kind == "1d" else nvals[1:2]})
                if "1d" in results and name in ("Henry", "Langmuir") and all(t is not None for t in tols):
                    def on_pat(rep, gl=results["1d"], ls=ls, det=det, base=base, exp=exp, tols=tols):
                        ex = _parse_list(rep)
                        ck.count(("pat", tuple(ls), det["adsorbate"], det["stored_temperature"]), bucket="state:lean:pat")
                        if ex is None:
                            ck.broken.append({"step": "driver ModelEval (pat)", "what": {"reply": rep[:200], **{k_: det[k_] for k_ in ("adsorbate", "stored_temperature", "temperature_unit", "model")}}})
                        elif not all(L.near(float(a), b, t) for a, b, t in zip(ex, exp, tols)):
                            ck.broken.append({"step": "Model/ModelEval.lean pressureAtS vs the SI oracle of the harness", "what": {"lean": [float(x) for x in ex], "oracle": exp, **det}})
                        elif len(ex) != len(gl) or not all(L.near(g, float(x), t) for g, x, t in zip(gl, ex, tols)):
                            fail({**base, "accessor": "pressure_at", "oracle": "lean"}, {**det, "argument": ls, "got": gl, "expected": [float(x) for x in ex]})
                    ask(f"pat {head} {reps} {qstr(f_l)} {name} {plist} {_qlist(ls)}", on_pat)
                elif "1d" in results and closed and name not in QUAD_INV:
                    # two-phase: the bare model's pressures (stored representation) re-expressed by the Lean model of the state
                    def on_out(rep, gl=results["1d"], ls=ls, det=det, base=base, tols=tols):
                        ex = _parse_list(rep)
                        ck.count(("cvp-out", tuple(ls), det["adsorbate"], det["stored_temperature"]), bucket="state:lean:cvp")
                        if ex is None:
                            ck.broken.append({"step": "driver ModelEval (cvp)", "what": {"reply": rep[:200], **{k_: det[k_] for k_ in ("adsorbate", "stored_temperature", "temperature_unit", "model")}}})
                        elif len(ex) != len(gl) or not all(t is None or L.near(g, float(x), t) for g, x, t in zip(gl, ex, tols)):
                            fail({**base, "accessor": "pressure_at", "oracle": "lean"}, {**det, "argument": ls, "got": gl, "expected": [float(x) for x in ex]})
                    if all(math.isfinite(v) for v in bp):
                        ask(f"cvp {head} {reps} out {_qlist(bp)}", on_out)
                if twin is not None and "1d" in results:
                    s_, tw = call(np, lambda a: twin.pressure_at(a, **bkw, **kw_l, **kw_p), np.array(ls))
                    gl = results["1d"]
                    # (tolerance: the conditioning-aware one of the SI oracle — the twin's kelvin temperature differs from the original's in the last bit
                    #  (-182.7 + 273.15), and a closed-form inverse near saturation amplifies that: DA at n/n_m = 0.99999 by 1e6; false alarm of the sweep
                    #  after round 7, quick seed 5)
                    if s_ != "ok" and not closed:
                        pass            # (a numerical inverse may report failure)
                    elif s_ != "ok" or len(L.flat(np, tw)) != len(gl) or any(t is not None and not close_p(a, b, max(t, 1e-10))
                                                                               for a, b, t in zip(gl, L.flat(np, tw), tols)):
                        fail({**base, "accessor": "pressure_at", "oracle": "twin"},
                             {**det, "argument": ls, "got": gl, "twin_temperature": [float(twin._temperature), twin.temperature_unit], "twin": L.flat(np, tw) if s_ == "ok" else repr(tw)[:300]})

        # ================================================================ spreading_pressure_at (input conversion only)
        if name not in L.NO_SPREAD:
            scalar_only = name in L.QUAD_SPREAD
            tol = 1e-6 if scalar_only else 1e-9
            import warnings
            quad_warned = []

            def quiet(f_, a_):
                """call with the warnings of scipy.integrate.quad recorded: a quadrature that gave up (Toth, Jensen-Seaton, and above all DR / DA,
                whose integrand loading(x)/x has an unbounded derivative at 0 -- findings S37, S37b of C11) returns a number that moves by per cents
                with the last bit of the upper limit or of RT; such a value is not compared"""
                with warnings.catch_warnings(record=True) as rec:
                    warnings.simplefilter("always")
                    r_ = call(np, f_, a_)
                quad_warned.extend(x for x in rec if "Integration" in type(x.message).__name__ or "Integration" in str(x.category))
                return r_
            ref_s = [quiet(bare.spreading_pressure, np.float64(v)) for v in (pvals[1:2] if scalar_only else pvals)]
            if all(s_ == "ok" for s_, _ in ref_s):
                exp = [float(np.asarray(v).ravel()[0]) for _, v in ref_s]
                arg = qs[1] if scalar_only else np.array(qs)
                f = lambda a: miso.spreading_pressure_at(a, **bkw, **kw_p)      # noqa
                s_, got = quiet(f, arg)
                ck.count(("state.spreading_pressure_at", ads, tval, tu, name, tuple(lab[:2]), rq_p), bucket="state:spreading_pressure_at")
                if s_ != "ok":
                    fail({**base, "accessor": "spreading_pressure_at", "oracle": "SI"}, {**det, "argument": qs[1] if scalar_only else qs, "error": repr(got)[:300], "expected": exp})
                else:
                    gl = L.flat(np, got)
                    s2, tw = quiet(lambda a: twin.spreading_pressure_at(a, **bkw, **kw_p), arg) if twin is not None else (None, None)
                    if quad_warned:
                        ck.count(("state.spreading.quad-warned", name), nontrivial=False, bucket="state:spreading_pressure_at:quadrature gave up (not compared)")
                    else:
                        for g, x in zip(gl, exp):
                            if x:
                                note(("spreading-quad/tol" if scalar_only else "spreading/tol"), abs(g - x) / abs(x) / tol)
                        if len(gl) != len(exp) or not all(L.near(g, x, tol) for g, x in zip(gl, exp)):
                            fail({**base, "accessor": "spreading_pressure_at", "oracle": "SI"},
                                 {**det, "argument": qs[1] if scalar_only else qs, "got": gl, "expected": exp, "tol": tol, "bare_model_argument": pvals[1:2] if scalar_only else pvals})
                        if twin is not None and (s2 != "ok" or not all(L.near(a, b, max(tol, 1e-10)) for a, b in zip(gl, L.flat(np, tw)))):
                            fail({**base, "accessor": "spreading_pressure_at", "oracle": "twin"},
                                 {**det, "argument": qs[1] if scalar_only else qs, "got": gl, "twin_temperature": [float(twin._temperature), twin.temperature_unit],
                                  "twin": L.flat(np, tw) if s2 == "ok" else repr(tw)[:300]})

        # ================================================================ whole-range accessors
        npts = rng.choice([1, 2, 3, 5, 17])
        with np.errstate(all="ignore"):
            if name in PEXPLICIT:
                grid = [float(x) for x in np.linspace(nvals[0], nvals[-1], npts)]
                l_src = grid
                p_src = [float(np.asarray(bare.pressure(np.float64(g))).ravel()[0]) for g in grid]
            else:
                grid = [float(x) for x in np.linspace(pvals[0], pvals[-1], npts)]
                p_src = grid
                l_src = [float(np.asarray(bare.loading(np.float64(g))).ravel()[0]) for g in grid]
        for acc, src, f_, kw in (("pressure", p_src, f_p, kw_p), ("loading", l_src, f_l, kw_l)):
            if not all(math.isfinite(v) for v in src):
                continue
            approx = [float(frac(v) * f_) for v in src]
            lim = None
            srt = sorted(set(approx))
            mids = [0.5 * (a + b) for a, b in zip(srt, srt[1:]) if b - a > 1e-6 * max(abs(a), abs(b))]
            if mids and rng.random() < 0.5:
                a_, b_ = sorted((rng.choice(mids), rng.choice(mids)))
                lim = rng.choice([(a_, None), (None, b_), (a_, b_) if a_ < b_ else (a_, None)])
            exp = [v for v in approx if lim is None or ((lim[0] is None or lim[0] < v) and (lim[1] is None or v < lim[1]))]
            args = dict(points=npts, **bkw, **kw)
            if lim is not None:
                args["limits"] = lim
            tol = 1e-9
            if acc == "pressure" and name in PEXPLICIT:
                tol = 1e-7
            s_, got = call(np, lambda a: getattr(miso, acc)(**a), args)
            ck.count(("state.range", acc, ads, tval, tu, name, tuple(lab[:6]), rq_p, rq_l, rq_m, npts, repr(lim)), bucket="state:whole-range:" + acc)
            cdet = {**det, "call": {k_: (v if isinstance(v, (int, float, tuple, type(None))) else str(v)) for k_, v in args.items()},
                    "range": [list(miso.model.pressure_range), list(miso.model.loading_range)]}
            if s_ != "ok":
                fail({**base, "accessor": acc + "()", "oracle": "SI"}, {**cdet, "error": repr(got)[:300], "expected": exp})
                continue
            gl = L.flat(np, got)
            if len(gl) != len(exp) or not all(L.near(g, x, tol) for g, x in zip(gl, exp)):
                fail({**base, "accessor": acc + "()", "oracle": "SI"}, {**cdet, "got": gl, "expected": exp})
                continue
            if name not in PEXPLICIT and (acc == "pressure" or rational):
                def on_whole(rep, gl=gl, acc=acc, cdet=cdet, base=base, exp=exp):
                    ex = _parse_list(rep)
                    ck.count(("whole", acc, cdet["adsorbate"], cdet["stored_temperature"], repr(cdet["call"])), bucket="state:lean:whole")
                    if ex is None:
                        ck.broken.append({"step": "driver ModelEval (wps/wls)", "what": {"reply": rep[:200], "call": cdet["call"]}})
                    elif len(ex) != len(exp) or not all(L.near(float(a), b, 1e-9) for a, b in zip(ex, exp)):
                        ck.broken.append({"step": "Model/ModelEval.lean wholePressureS / wholeLoadingS vs the SI oracle of the harness", "what": {"lean": [float(x) for x in ex], "oracle": exp, **cdet}})
                    elif len(ex) != len(gl) or not all(L.near(g, float(x), 1e-9) for g, x in zip(gl, ex)):
                        fail({**base, "accessor": acc + "()", "oracle": "lean"}, {**cdet, "got": gl, "expected": [float(x) for x in ex]})
                rng_tok = f"{qstr(pvals[0])} {qstr(pvals[-1])} {npts} {_lim_tok(lim)}"
                if acc == "pressure":
                    ask(f"wps {head} {reps} {rng_tok}", on_whole)
                else:
                    ask(f"wls {head} {reps} {qstr(f_l)} {name} {plist} {rng_tok}", on_whole)
            if twin is not None:
                s2, tw = call(np, lambda a: getattr(twin, acc)(**a), args)
                if s2 != "ok" or len(L.flat(np, tw)) != len(gl) or not all(L.near(a, b, max(tol, 1e-10)) for a, b in zip(gl, L.flat(np, tw))):
                    fail({**base, "accessor": acc + "()", "oracle": "twin"}, {**cdet, "got": gl, "twin_temperature": [float(twin._temperature), twin.temperature_unit], "twin": L.flat(np, tw) if s2 == "ok" else repr(tw)[:300]})

    # ---------------------------------------------------------------- the Lean model of the states
    if lines:
        try:
            replies = ck.drive("ModelEval", lines)
        except Exception as e:  # noqa
            replies = None
            ck.broken.append({"step": "driver ModelEval (states)", "what": str(e)[:600]})
        for fn, rep in zip(todo, replies or []):
            fn(rep)
    ck.cov["model_isotherm_states"] = {"states": made, "lean_requests": len(lines), "worst": {k: float(f"{v:.3g}") for k, v in sorted(worst.items())}}
