"""C20, first clause, over BOTH shipped sources and every construction route.

"Every adsorbate shipped with the package can be found by its name and by each of its aliases in any letter case, every name or alias
designates exactly one adsorbate, and an isotherm created with such a string is linked to that adsorbate" — quantified over "both the JSON
source list and the packaged database".  `props/c20.py` section 1 sweeps the registry as loaded at import (the packaged default.db, whose
stored strings went through the constructor when the file was made).  This module reaches the other routes an adsorbate is made by:

  json       one `Adsorbate(**entry)` per entry of data/adsorbates.json of the tree under check (name, alias list, properties exactly as
             written there — this is what `db_create` does), put into the registry list
  packaged   the registry as loaded, but the expected strings come from the raw rows of default.db (read with sqlite3, not through the
             library) and from the JSON list: what the shipped SOURCES say, not what the loaded objects say about themselves
  regenerated  a database made by `db_create` of the tree under check, read back (a) by `adsorbates_from_db(db_path=…)` and (b) by the
             library's own loader `pygaps.data.load_data()` with the default database pointed at the new file
  user       user-made adsorbates with lower / UPPER / Title / mIxEd names and aliases (alias absent, a string, a list, a tuple; the name
             repeated in the alias list in another case), stored by `store=True`, by appending, by `adsorbate_to_db` on a scratch
             database, read back from that database, or not stored at all

Oracle (independent of any model; the expected owner of a string is computed from the WRITTEN data): for every written name / alias `s`
of entry `e` and every case variant `v` (`v.lower() == s.lower()`): exactly one object of the registry equals `v`, it is `e`'s object,
`Adsorbate.find(v)` returns that very object, an isotherm constructed with `adsorbate=v` (and one whose `adsorbate` is assigned later) holds
that very object.  Near misses are not found.  The registry list is restored after every route.

Correspondence with the Lean model (Model/Registry.lean `ctorAlias`, `build`, `findS`, `designated` at `String.toLower`, theorems in
Props/C20/Normalise.lean) through Drv/Registry.lean: `ctor` — what the real constructor stored in `.alias` for every JSON entry and every
user-made adsorbate; `bfind` — `Adsorbate.find` and the number of designated objects on private registries (random sub-lists of the JSON
entries, the user-made adsorbates) for every written string x case variants and near misses.  ASCII strings only (`String.toLower`).
"""
import json
import sqlite3
from pathlib import Path

from . import storelib as sl

MAX_REPORTS = 2          # failing inputs written per (route family, clause); the rest is counted


def xh(s):
    return "x" + s.encode("utf-8").hex()


def unx(t):
    return bytes.fromhex(t[1:]).decode("utf-8")


def case_variants(s, rng):
    """Letter-case variants of `s` (those that lower-case to the same string), as written first."""
    out = [s, s.lower(), s.upper(), s.title(), s.swapcase(), s.capitalize(),
           "".join(c.upper() if rng.random() < 0.5 else c.lower() for c in s)]
    seen, res = set(), []
    for v in out:
        if v not in seen and v.lower() == s.lower():
            seen.add(v)
            res.append(v)
    return res


def written_strings(entry):
    al = entry.get("alias")
    al = [] if al is None else ([al] if isinstance(al, str) else list(al))
    return [entry["name"]] + al


def alias_tokens(alias):
    """`alias` argument -> (kind, tokens) of the driver protocol"""
    if alias is None:
        return "n", []
    if isinstance(alias, str):
        return "s", [xh(alias)]
    return "l", [xh(a) for a in alias]


class Reporter:
    def __init__(self, ck):
        self.ck = ck
        self.n = {}
        self.shown = {}

    def __call__(self, route, clause, query, detail):
        self.n[(route, clause)] = self.n.get((route, clause), 0) + 1
        k = (route.split(" (")[0], clause)
        self.shown[k] = self.shown.get(k, 0) + 1
        if self.shown[k] <= MAX_REPORTS:
            self.ck.fail_case({"clause": clause, "route": route, "query": query}, detail)

    def summary(self):
        return {f"{r}: {c}": n for (r, c), n in sorted(self.n.items())}


def _henry():
    from pygaps.modelling import get_isotherm_model
    return get_isotherm_model("Henry", parameters={"K": 2.0}, rmse=0.0, pressure_range=(0.0, 1.0), loading_range=(0.0, 2.0))


def _object_in_constructor(ck, pg, rep, route, o, query):
    """`Cls(adsorbate=<Adsorbate object>)` (always the metadata-only class; the shorthand and the two data classes sampled): the isotherm
    holds that very object, registered or not."""
    from pygaps.core.baseisotherm import BaseIsotherm
    ck.count(("route-object", route, o.name, query), bucket="routes:" + route + ":object-in-constructor")
    makers = [("BaseIsotherm", lambda: BaseIsotherm(material="pgv_m", adsorbate=o, temperature=300))]
    pick = ck.rng.random()
    if pick < 0.15:
        makers.append(("BaseIsotherm(a=)", lambda: BaseIsotherm(m="pgv_m", a=o, t=300)))
    elif pick < 0.3:
        makers.append(("PointIsotherm", lambda: pg.PointIsotherm(pressure=[1.0, 2.0], loading=[1.0, 2.0], material="pgv_m", adsorbate=o, temperature=300)))
    elif pick < 0.4:
        makers.append(("ModelIsotherm", lambda: pg.ModelIsotherm(model=_henry(), material="pgv_m", adsorbate=o, temperature=300)))
    for cname, make in makers:
        try:
            held = make().adsorbate
        except Exception as e:  # noqa
            rep(route, "isotherm created with the adsorbate object raises", query, {"class": cname, "adsorbate": o.name, "error": repr(e)[:200]})
            continue
        if held is not o:
            rep(route, "isotherm created with the adsorbate object holds that object", query, {"class": cname, "adsorbate": o.name, "held": _desc(held, o)})


def sweep(ck, pg, rep, route, objs, declared, n_link, swap=True, negatives=()):
    """declared: [(object, [written strings])].  Returns the number of failures."""
    from pygaps.core.baseisotherm import BaseIsotherm
    from pygaps.utilities.exceptions import ParameterError
    rng = ck.rng
    reg = pg.ADSORBATE_LIST
    saved = list(reg)
    before = sum(rep.n.values())
    if swap:
        reg[:] = objs
    try:
        owners = {}
        for i, (o, strings) in enumerate(declared):
            for s in strings:
                owners.setdefault(s.lower(), set()).add(i)
        cases = []
        for i, (o, strings) in enumerate(declared):
            for s in strings:
                if len(owners[s.lower()]) != 1:
                    rep(route, "name or alias designates one adsorbate (as written in the source)", s,
                        {"written": s, "entries": sorted(declared[j][0].name for j in owners[s.lower()])})
                    continue
                for v in case_variants(s, rng):
                    cases.append((o, s, v))
        # isotherm link: every string that is not written in lower case, and a sample of the rest
        special = [k for k, (o, s, v) in enumerate(cases) if s != s.lower()]
        rest = [k for k in range(len(cases)) if s_is_lower(cases[k][1])]
        link = set(special)
        if n_link is None or n_link >= len(rest):
            link.update(rest)
        else:
            link.update(rng.sample(rest, n_link))
        pool = list(reg)
        for k, (o, s, v) in enumerate(cases):
            ck.count(("route", route, o.name, v), bucket="routes:" + route)
            try:
                matches = [a for a in pool if a == v]
            except Exception as e:  # noqa
                rep(route, "comparison of an adsorbate with a string raises", v, {"written": s, "adsorbate": o.name, "error": repr(e)[:200]})
                continue
            if not (len(matches) == 1 and matches[0] is o):
                rep(route, "name or alias in any letter case designates exactly its adsorbate", v,
                    {"written": s, "adsorbate": o.name, "stored_alias": list(o.alias) if not isinstance(o.alias, str) else o.alias,
                     "designated": [m.name for m in matches]})
            try:
                got = pg.Adsorbate.find(v)
            except ParameterError:
                got = None
            except Exception as e:  # noqa
                got = "EXC:" + type(e).__name__
            if got is not o:
                rep(route, "find by name or alias in any letter case", v,
                    {"written": s, "expected": o.name, "stored_alias": list(o.alias) if not isinstance(o.alias, str) else o.alias,
                     "got": None if got is None else (got if isinstance(got, str) else got.name)})
            if k in link:
                ck.count(("route-link", route, o.name, v), bucket="routes:" + route + ":isotherm-link")
                try:
                    iso = BaseIsotherm(material="pgv_m", adsorbate=v, temperature=300)
                    linked = iso.adsorbate
                    iso2 = BaseIsotherm(material="pgv_m", adsorbate=s, temperature=300)
                    iso2.adsorbate = o
                    by_obj = iso2.adsorbate
                    iso2.adsorbate = v
                    assigned = iso2.adsorbate
                except Exception as e:  # noqa
                    rep(route, "isotherm created with a name or alias raises", v, {"written": s, "adsorbate": o.name, "error": repr(e)[:200]})
                    continue
                if linked is not o or by_obj is not o or assigned is not o:
                    rep(route, "isotherm created with a name or alias is linked to that adsorbate", v,
                        {"written": s, "expected": o.name, "constructor(adsorbate=string)": _desc(linked, o),
                         "assignment(adsorbate=object)": _desc(by_obj, o), "assignment(adsorbate=string)": _desc(assigned, o)})
                # the designated adsorbate itself as the constructor argument (the documented alternative to its name; S56-C20: refused with
                # AttributeError before the repair of Adsorbate.__eq__, because `None in [material, adsorbate, temperature]` compared it with None)
                _object_in_constructor(ck, pg, rep, route, o, v)
        for q in negatives:
            if q.lower() in owners:
                continue
            ck.count(("route-neg", route, q), nontrivial=False, bucket="routes:" + route + ":negative")
            try:
                got = pg.Adsorbate.find(q).name
            except ParameterError:
                got = None
            except Exception as e:  # noqa
                got = "EXC:" + type(e).__name__
            if got is not None:
                rep(route, "a string that is no name or alias is found", q, {"got": got})
    finally:
        reg[:] = saved
    return sum(rep.n.values()) - before


def s_is_lower(s):
    return s == s.lower()


def _desc(a, o):
    return "the adsorbate" if a is o else f"another object named {getattr(a, 'name', a)!r} (in registry: {a in _reg()})"


def _reg():
    import pygaps
    return [x for x in pygaps.ADSORBATE_LIST]


# --------------------------------------------------------------------------------------------------------------------------------
def model_ctor(ck, written, real):
    """written: [(name, alias argument)], real: the `.alias` the real constructor stored.  Driver `ctor` against it."""
    idx = [i for i, (n, al) in enumerate(written) if all(s.isascii() and s for s in [n] + ([] if al is None else [al] if isinstance(al, str) else list(al)))]
    lines = []
    for i in idx:
        n, al = written[i]
        kind, toks = alias_tokens(al)
        lines.append(" ".join(["ctor", xh(n), kind] + toks))
    try:
        out = ck.drive("Registry", lines)
    except Exception as e:  # noqa
        ck.broken.append({"step": "driver Registry (ctor)", "what": str(e)[:500]})
        return 0
    bad = 0
    for i, o in zip(idx, out):
        t = o.split()
        model = [unx(x) for x in t[1:]] if t and t[0] == "ok" else o
        impl = real[i]
        impl = list(impl) if isinstance(impl, (list, tuple)) else impl
        if model != impl:
            bad += 1
            if bad <= 3:
                ck.broken.append({"step": "correspondence Model/Registry.ctorAlias (what Adsorbate.__init__ stores in .alias)",
                                  "what": {"name": written[i][0], "alias_argument": written[i][1], "model": model, "implementation": impl}})
    return bad


def model_find(ck, pg, sessions):
    """sessions: [(written entries [(name, alias argument)], objects, queries)] — `Adsorbate.find` on the private registry against `bfind`."""
    from pygaps.utilities.exceptions import ParameterError
    reg = pg.ADSORBATE_LIST
    saved = list(reg)
    lines, impl = [], []
    try:
        for written, objs, queries in sessions:
            etoks = []
            for n, al in written:
                kind, toks = alias_tokens(al)
                etoks += [xh(n), kind, str(len(toks))] + toks
            reg[:] = objs
            for q in queries:
                if not (q and q.isascii()):
                    continue
                try:
                    got = pg.Adsorbate.find(q).name
                except ParameterError:
                    got = None
                except Exception as e:  # noqa
                    got = "EXC:" + type(e).__name__
                try:
                    nd = sum(1 for a in objs if a == q)
                except Exception:  # noqa
                    nd = -1
                lines.append(" ".join(["bfind", xh(q)] + etoks))
                impl.append((q, got, nd, [n for n, _ in written]))
    finally:
        reg[:] = saved
    try:
        out = ck.drive("Registry", lines)
    except Exception as e:  # noqa
        ck.broken.append({"step": "driver Registry (bfind)", "what": str(e)[:500]})
        return 0
    bad = 0
    for (q, got, nd, names), o in zip(impl, out):
        t = o.split()
        if t[0] == "ok":
            m = (unx(t[1]), int(t[2]))
        elif t[0] == "none":
            m = (None, int(t[1]))
        else:
            m = (o, -2)
        ck.count(("bfind", q, tuple(names)), bucket="routes:model find")
        if m != (got, nd):
            bad += 1
            if bad <= 3:
                ck.broken.append({"step": "correspondence Model/Registry.findS / designated (Adsorbate.find, __eq__ on a private registry)",
                                  "what": {"query": q, "registry": names, "model (found, designated)": m, "implementation": (got, nd)}})
    return bad


# --------------------------------------------------------------------------------------------------------------------------------
LABEL_CHARS = "abcdefghijklmnopqrstuvwxyz"


def rand_label(rng, taken):
    """A fresh ASCII label in one of the letter-case styles (letters, optionally digits at either end, an inner separator, a locant
    prefix like `2-` / `1,2-`); never (in lower case) a shipped string or an earlier label, never something SQLite would read as a number."""
    while True:
        n = rng.randint(2, 7)
        base = "".join(rng.choice(LABEL_CHARS) for _ in range(n))
        if rng.random() < 0.5:
            base += str(rng.randint(0, 99))
        if rng.random() < 0.25:
            base = base[:2] + rng.choice("- ,") + base[2:]
        r = rng.random()
        if r < 0.2:
            base = "pgv" + base
        elif r < 0.4:
            base = rng.choice(["2-", "1,2-", "3", "n-", "(r)-"]) + base
        try:
            float(base)
            continue
        except ValueError:
            pass
        if base.lower() in taken or base != base.strip():
            continue
        taken.add(base.lower())
        style = rng.choice(["lower", "UPPER", "UPPER", "Title", "mIxEd"])
        if style == "UPPER":
            return base.upper()
        if style == "Title":
            return base.title()
        if style == "mIxEd":
            return "".join(c.upper() if rng.random() < 0.5 else c for c in base)
        return base


def rand_user(rng, taken):
    """(name, alias argument) of a user-made adsorbate"""
    name = rand_label(rng, taken)
    kind = rng.choice(["none", "str", "list", "list", "tuple", "list+name"])
    if kind == "none":
        return name, None
    if kind == "str":
        return name, rand_label(rng, taken)
    al = [rand_label(rng, taken) for _ in range(rng.randint(1, 3))]
    if kind == "list+name":
        al.insert(rng.randint(0, len(al)), rng.choice([name, name.lower(), name.upper(), name.swapcase()]))
    return name, (tuple(al) if kind == "tuple" else al)


def run(ck, pg):
    import pygaps.data as pgdata
    import pygaps.parsing.sqlite as pgsql
    from pygaps.core.baseisotherm import BaseIsotherm
    from pygaps.utilities.exceptions import ParameterError
    from .core import REPO, Infra
    rng = ck.rng
    thorough = ck.tier == "thorough"
    rep = Reporter(ck)
    reg = pg.ADSORBATE_LIST
    mats = pg.MATERIAL_LIST
    original = list(reg)
    original_mats = list(mats)
    info = {}
    negatives = ["nitrogenn", "n 2", "notagas", "N2 ", " n2", "mek ", "(", ".*", "n.", "M.K", "d44"]
    data_dir = Path(pg.__file__).resolve().parent / "data"
    if not str(data_dir).startswith(str(REPO.resolve())):
        raise Infra(f"pygaps data directory {data_dir} is not under {REPO}")
    entries = json.loads((data_dir / "adsorbates.json").read_text(encoding="utf-8"))
    n_link = None if thorough else ck.n(150, 10 ** 6)
    files = None
    try:
        # ------------------------------------------------------------------ json: Adsorbate(**entry) as db_create does
        json_objs = []
        for e in entries:
            try:
                json_objs.append(pg.Adsorbate(**dict(e)))
            except Exception as ex:  # noqa
                rep("json", "constructing a shipped adsorbate from its JSON entry raises", e.get("name"), {"error": repr(ex)[:300]})
                json_objs.append(None)
        pairs = [(o, e) for o, e in zip(json_objs, entries) if o is not None]
        objs = [o for o, _ in pairs]
        declared = [(o, written_strings(e)) for o, e in pairs]
        sweep(ck, pg, rep, "json", objs, declared, n_link, negatives=negatives)
        info["json_entries"] = len(entries)
        info["json_strings_not_lower_case"] = sorted(s for e in entries for s in written_strings(e) if s != s.lower())
        info["ctor_model_disagreements"] = model_ctor(ck, [(e["name"], e.get("alias")) for _, e in pairs], [o.alias for o, _ in pairs])
        # model find on private sub-registries of the JSON entries (entries with strings that are not lower-case first)
        sessions = []
        odd = [k for k, (_, e) in enumerate(pairs) if any(s != s.lower() for s in written_strings(e))]
        for _ in range(ck.n(5, 25)):
            pick = sorted(set(rng.sample(odd, min(len(odd), 3)) + rng.sample(range(len(pairs)), min(len(pairs), 4))))
            w = [(pairs[k][1]["name"], pairs[k][1].get("alias")) for k in pick]
            qs = [v for k in pick for s in written_strings(pairs[k][1])[:5] for v in case_variants(s, rng)[:4]] + negatives[:4]
            sessions.append((w, [pairs[k][0] for k in pick], qs))

        # ------------------------------------------------------------------ packaged: loaded registry against the raw rows of default.db and the JSON list
        reg[:] = original
        by_name = {}
        for a in original:
            by_name.setdefault(a.name, []).append(a)
        con = sqlite3.connect(f"file:{data_dir / 'default.db'}?mode=ro", uri=True)
        rows = con.execute("SELECT a.name, p.value FROM adsorbates a LEFT JOIN adsorbate_properties p ON p.ads_id = a.id AND p.type = 'alias' ORDER BY a.id, p.id").fetchall()
        con.close()
        raw = {}
        for name, al in rows:
            raw.setdefault(name, [name])
            if al is not None:
                raw[name].append(str(al))
        declared = []
        for name, strings in raw.items():
            if len(by_name.get(name, [])) != 1:
                rep("packaged", "adsorbate of default.db is in the loaded registry exactly once", name, {"loaded": len(by_name.get(name, []))})
                continue
            declared.append((by_name[name][0], strings))
        sweep(ck, pg, rep, "packaged (strings from the rows of default.db)", original, declared, n_link if thorough else ck.n(60, 10 ** 6), swap=False)
        declared = [(by_name[e["name"]][0], written_strings(e)) for e in entries if len(by_name.get(e["name"], [])) == 1]
        missing = [e["name"] for e in entries if len(by_name.get(e["name"], [])) != 1]
        info["json_names_not_in_packaged_registry"] = missing
        sweep(ck, pg, rep, "packaged (strings from adsorbates.json)", original, declared, n_link if thorough else ck.n(60, 10 ** 6), swap=False)

        # ------------------------------------------------------------------ regenerated: db_create of the tree under check, read back
        files = sl.Files(pg)
        from pygaps.utilities.sqlite_db_creator import db_create
        path = str(files.dir / "regenerated.db")
        try:
            db_create(path)
        except Exception as ex:  # noqa
            rep("regenerated", "db_create raises", "db_create", {"error": repr(ex)[:300]})
            path = None
        finally:
            reg[:] = original          # adsorbate_to_db appends every uploaded adsorbate to the process-global list
        if path is not None:
            loaded = pgsql.adsorbates_from_db(db_path=path, verbose=False)
            reg[:] = original
            lb = {}
            for a in loaded:
                lb.setdefault(a.name, []).append(a)
            declared = []
            for e in entries:
                if len(lb.get(e["name"], [])) != 1:
                    rep("regenerated", "shipped adsorbate is in the regenerated database exactly once", e["name"], {"loaded": len(lb.get(e["name"], []))})
                    continue
                o = lb[e["name"]][0]
                declared.append((o, written_strings(e)))
                if e.get("backend_name") != o.properties.get("backend_name"):
                    rep("regenerated", "thermodynamic backend of a shipped adsorbate", e["name"],
                        {"json": e.get("backend_name"), "read back": o.properties.get("backend_name")})
            sweep(ck, pg, rep, "regenerated (db_create, adsorbates_from_db)", loaded, declared, n_link, negatives=negatives)
            info["regenerated_adsorbates"] = len(loaded)
            diffs = []
            for a, b in zip(original, loaded):
                if a.name != b.name or list(a.alias) != list(b.alias):
                    diffs.append({"packaged": [a.name, list(a.alias)], "regenerated": [b.name, list(b.alias)]})
            info["regenerated_vs_packaged_alias_differences"] = diffs[:10] + ([{"more": len(diffs) - 10}] if len(diffs) > 10 else [])
            if len(original) != len(loaded):
                info["regenerated_vs_packaged_length"] = [len(loaded), len(original)]
            # the library's own loader on the regenerated file
            old_db = pgsql.DATABASE
            try:
                pgsql.DATABASE = path
                reg[:] = []
                mats[:] = []
                pgdata.load_data()
                own = list(reg)
                ob = {}
                for a in own:
                    ob.setdefault(a.name, []).append(a)
                declared = [(ob[e["name"]][0], written_strings(e)) for e in entries if len(ob.get(e["name"], [])) == 1]
                for e in entries:
                    if len(ob.get(e["name"], [])) != 1:
                        rep("regenerated", "shipped adsorbate is loaded by load_data exactly once", e["name"], {"loaded": len(ob.get(e["name"], []))})
                sweep(ck, pg, rep, "regenerated (db_create, load_data)", own, declared, ck.n(40, 10 ** 6), swap=False)
            except Exception as ex:  # noqa
                rep("regenerated", "load_data on a database made by db_create raises", "load_data", {"error": repr(ex)[:300]})
            finally:
                pgsql.DATABASE = old_db
                reg[:] = original
                mats[:] = original_mats

        # ------------------------------------------------------------------ user-made adsorbates
        shipped_lower = {s.lower() for a in original for s in ([a.name] + list(a.alias))} | {s.lower() for e in entries for s in written_strings(e)}
        user_written, user_real = [], []
        for it in range(ck.n(12, 60)):
            taken = set(shipped_lower)
            k = rng.randint(1, 4)
            written = [rand_user(rng, taken) for _ in range(k)]
            how = rng.choice(["store=True", "store=True", "append", "adsorbate_to_db", "adsorbate_to_db then read back", "not stored"])
            route = "user (" + how + ")"
            reg[:] = original
            dbp = files.new() if "adsorbate_to_db" in how else None
            users = []
            try:
                for name, al in written:
                    kw = {} if al is None else {"alias": al}
                    a = pg.Adsorbate(name, store=(how == "store=True"), formula="X1", **kw)
                    if how == "append":
                        reg.append(a)
                    elif dbp is not None:
                        pgsql.adsorbate_to_db(a, db_path=dbp, autoinsert_properties=True, verbose=False)
                    users.append(a)
                    user_written.append((name, al))
                    user_real.append(a.alias)
            except Exception as ex:  # noqa
                rep(route, "making or storing a user adsorbate raises", written[len(users)][0], {"written": written, "error": repr(ex)[:300]})
                reg[:] = original
                continue
            strings = [[n] + ([] if al is None else [al] if isinstance(al, str) else list(al)) for n, al in written]
            if how == "not stored":
                # equality holds for the object alone; the registry does not know it; an isotherm made with the OBJECT holds the object
                for a, ss in zip(users, strings):
                    for s in ss:
                        for v in case_variants(s, rng):
                            ck.count(("route", route, a.name, v), bucket="routes:user")
                            try:
                                same = bool(a == v)
                            except Exception as ex:  # noqa
                                same = "EXC:" + type(ex).__name__
                            if same is not True:
                                rep(route, "a user adsorbate equals its name and aliases in any letter case", v,
                                    {"written": s, "name": a.name, "alias_argument": written[users.index(a)][1], "stored_alias": a.alias, "equal": same})
                            try:
                                got = pg.Adsorbate.find(v).name
                            except ParameterError:
                                got = None
                            except Exception as ex:  # noqa
                                got = "EXC:" + type(ex).__name__
                            if got is not None:
                                rep(route, "a string that is no name or alias is found", v, {"got": got})
                    iso = BaseIsotherm(material="pgv_m", adsorbate="nitrogen", temperature=300)
                    iso.adsorbate = a
                    if iso.adsorbate is not a or pg.Adsorbate.find(a) is not a:
                        rep(route, "isotherm given an adsorbate object holds that object", a.name, {})
                    _object_in_constructor(ck, pg, rep, route, a, a.name)
                if not (len(reg) == len(original) and all(x is y for x, y in zip(reg, original))):
                    rep(route, "registry changed by adsorbates that were not stored", written[0][0], {"length": len(reg), "original": len(original)})
            else:
                current = list(reg)
                if not (len(current) == len(original) + len(users) and all(x is y for x, y in zip(current, original))
                        and all(x is y for x, y in zip(current[len(original):], users))):
                    rep(route, "stored user adsorbates are appended to the registry", written[0][0],
                        {"length": len(current), "expected": len(original) + len(users)})
                shipped_sample = rng.sample(original, 6)
                declared = [(a, ss) for a, ss in zip(users, strings)] + [(a, [a.name] + list(a.alias)[:3]) for a in shipped_sample]
                sweep(ck, pg, rep, route, current, declared, None, negatives=negatives[:4])
                if how.endswith("read back"):
                    back = pgsql.adsorbates_from_db(db_path=dbp, verbose=False)
                    reg[:] = original
                    bb = {a.name: a for a in back}
                    if sorted(bb) != sorted(n for n, _ in written) or len(back) != len(written):
                        rep(route, "user adsorbates read back from the database", written[0][0], {"stored": [n for n, _ in written], "read": [a.name for a in back]})
                    else:
                        sweep(ck, pg, rep, route, back, [(bb[n], ss) for (n, _), ss in zip(written, strings)], None, negatives=negatives[:4])
            reg[:] = original
            qs = [v for ss in strings for s in ss for v in case_variants(s, rng)[:5]] + negatives[:3]
            sessions.append((written, users, qs))
        info["user_adsorbates"] = len(user_written)
        info["ctor_model_disagreements_user"] = model_ctor(ck, user_written, user_real)
        info["find_model_disagreements"] = model_find(ck, pg, sessions)
    finally:
        reg[:] = original
        mats[:] = original_mats
        if files is not None:
            files.close()
    info["failures"] = rep.summary()
    ck.cov["registry_routes"] = info
