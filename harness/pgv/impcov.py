"""Implementation coverage of a check run (Python 3.12 `sys.monitoring`, near-zero overhead: every line event is
disabled after its first hit).

Purpose: the hand-written Lean models are trusted only as far as the correspondence exercised the implementation.
This module measures *which lines of the property's anchored source files* were executed by the harness body, so
that the evidence file can state it, and so that a generator which silently stops reaching a function is noticed:
`functions_never_entered` is compared with the committed expectation `harness/impcov_expect.json`
(functions that the check is known not to reach); a function of an anchored file that is neither reached nor
listed there is reported as a note in the evidence (never as a violation: it says something about my harness,
nothing about the property).
"""
import ast
import json
import sys
from pathlib import Path

TOOL = 3  # sys.monitoring tool id (0-5 are free for use; 3 is not claimed by debuggers/coverage/profilers)


class ImpCov:
    def __init__(self, src_root, rel_files):
        self.root = Path(src_root).resolve()
        self.files = {}
        for rel in rel_files:
            p = (self.root.parent.parent / rel).resolve() if rel.startswith("src/") else (self.root / rel).resolve()
            if p.suffix == ".py" and p.exists():
                self.files[str(p)] = rel
        self.hit = {f: set() for f in self.files}
        self.active = False

    def start(self):
        mon = getattr(sys, "monitoring", None)
        if mon is None or not self.files:
            return
        try:
            mon.use_tool_id(TOOL, "pgv-impcov")
        except ValueError:
            return
        files, hit = self.files, self.hit

        def on_line(code, line):
            f = code.co_filename
            if f in files:
                hit[f].add(line)
            return mon.DISABLE

        mon.register_callback(TOOL, mon.events.LINE, on_line)
        mon.set_events(TOOL, mon.events.LINE)
        self.active = True

    def stop(self):
        if not self.active:
            return
        mon = sys.monitoring
        mon.set_events(TOOL, 0)
        mon.register_callback(TOOL, mon.events.LINE, None)
        mon.free_tool_id(TOOL)
        self.active = False

    @staticmethod
    def _functions(path):
        """[(qualified name, first body line, last line, set of statement lines)] for every def in the file."""
        tree = ast.parse(Path(path).read_text())
        out = []

        def walk(node, prefix):
            for ch in ast.iter_child_nodes(node):
                if isinstance(ch, (ast.FunctionDef, ast.AsyncFunctionDef)):
                    q = prefix + ch.name
                    body = ch.body
                    # skip the docstring
                    if body and isinstance(body[0], ast.Expr) and isinstance(getattr(body[0], "value", None), ast.Constant) \
                            and isinstance(body[0].value.value, str):
                        body = body[1:]
                    lines = set()
                    for b in body:
                        for n in ast.walk(b):
                            if isinstance(n, ast.stmt) and not isinstance(n, (ast.FunctionDef, ast.AsyncFunctionDef, ast.ClassDef)):
                                lines.add(n.lineno)
                    out.append((q, ch.lineno, ch.end_lineno, lines))
                    walk(ch, q + ".")
                elif isinstance(ch, ast.ClassDef):
                    walk(ch, prefix + ch.name + ".")
                else:
                    walk(ch, prefix)
        walk(tree, "")
        return out

    def report(self):
        rep = {}
        for f, rel in sorted(self.files.items(), key=lambda kv: kv[1]):
            funcs = self._functions(f)
            hit = self.hit[f]
            never, partial = [], {}
            tot = got = 0
            for q, lo, hi, lines in funcs:
                # lines of nested defs are attributed to the nested def only
                inner = set()
                for q2, lo2, hi2, l2 in funcs:
                    if q2 != q and q2.startswith(q + "."):
                        inner |= set(range(lo2, hi2 + 1))
                own = {l for l in lines if l not in inner}
                if not own:
                    continue
                h = own & hit
                tot += len(own)
                got += len(h)
                if not h:
                    never.append(q)
                elif len(h) < len(own):
                    partial[q] = sorted(own - h)
            rep[rel] = {"statement_lines": tot, "executed": got, "functions_never_entered": never,
                        "lines_not_executed": partial}
        return rep


def expectation(verif):
    p = Path(verif) / "harness" / "impcov_expect.json"
    return json.loads(p.read_text()) if p.exists() else {}
