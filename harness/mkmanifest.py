#!/usr/bin/env python3
"""Regenerate MANIFEST.json from the table below (keeps it valid and consistent with harness/run.py CONFIG)."""
import json
import sys
from pathlib import Path

VERIF = Path(__file__).resolve().parents[1]
TB = ("Trusted: Lean 4.33 kernel, Mathlib, axioms propext/Classical.choice/Quot.sound (audited every run), the translator "
      "harness/pgv/translate.py and the correspondence harness. ")

ENTRIES = {
 "C01": dict(
  text="Lean theorems (any field of characteristic 0, every value): each conversion multiplies by scale(from)/scale(to) with scale read from SI tables; identity, round trip, path independence (also across fraction/percent), refusals; generated unit/mode/constant tables proved equal to the SI tables by kernel evaluation. Model tied to the code by regeneration of the tables from the Python AST and by an exhaustive correspondence over every ordered pair of representations.",
  note=TB + "Measured not proved: IEEE rounding (rel 1e-11), CoolProp values and their consistency rho=rho_bar*M. Known findings S16a-d (refusals that are KeyError/TypeError instead of ParameterError).",
  technique="Lean 4 proof over a regenerated+hand-written model, exhaustive model/implementation correspondence, SI-oracle failing-input search"),
 "C02": dict(
  text="Lean theorems about the state machine of convert / convert_pressure / convert_loading / convert_material / convert_temperature (hand-written model, every statement order and early return mirrored): for ANY history of calls with ARBITRARY string arguments there is a valid final representation, the labels are accepted by the constructor, the stored columns equal the original columns converted directly (canonical SI content conserved row-wise), back-to-start restores the numbers, a refused single call changes nothing, a refused combined call leaves exactly the completed prefix, rows are only rescaled (count/order untouched), every rewriting branch resets the caches.",
  note=TB + "The model is tied to the code by correspondence only (sampled label states x every argument class, seeded histories; thorough tier larger), so a behaviour outside the sampled space is not excluded; pandas column assignment and CoolProp values are residue. S2/S2b/S3/S4 fixed in the repository.",
  technique="Lean 4 proof (invariant by induction over operation histories of a hand-written state-machine model), model/implementation correspondence on real objects, SI-invariant oracle as failing-input search"),
 "C03": dict(
  text="Lean theorems about the hand-written accessor model: linearity of the unit functions; accessor = read of the permanent conversion for ALL argument strings (pressure: any valid labels; loading: stored physical basis) with equal refusal classes; inverse interpretation of foreign-unit inputs; branch selection = filter in stored order; limits = inclusive filter with Python's truthiness rule; split rule = first maximum (label-free by type); linear interpolation: exact at knots, chord between, refused outside. Witnesses for the S5 family proved by kernel evaluation.",
  note=TB + "Partial: for isotherms stored as fraction/percent the accessor theorem holds only without a material change (S5a-g known findings, witnesses in Lean); scipy interp1d is validated only for kind='linear'; model tied by correspondence on sampled representation pairs. S6 fixed.",
  technique="Lean 4 proof about a hand-written accessor model, model/implementation correspondence incl. malformed arguments, SI-oracle failing-input search"),
 "C04": dict(
  text="Lean theorems about the cache logic of a point isotherm (hand-written model of the rebuild condition of loading_at / pressure_at / spreading_pressure_at): a query returns what an interpolator built for exactly the requested (branch, kind, fill) returns whatever was cached; hence, by induction over histories, the outcome of any modelled query after ANY sequence of queries equals its outcome on a fresh object; a cached interpolator is only used under an equal key. Purity and history independence of everything else (exports, 18 characterisation / fitting / IAST entry points, the shared thermodynamic state, module-level kernel and reference-curve caches) is established on real objects: every call is compared with the same call on a fresh object and every argument is snapshotted before and after.",
  note=TB + "Partial: only the interpolator-cache logic is modelled and proved; that the characterisation / fitting / IAST routines and the CoolProp state handling neither write to their arguments nor depend on history is OBSERVED on seeded sequences plus targeted pairs (cache keys differing in one component) and triples (thermodynamic accessors at two temperatures), not proved. S7, S8 fixed.",
  technique="Lean 4 proof (cache transparency by induction over query histories) + differential execution against fresh objects with deep snapshots"),
 "C05": dict(
  text="Lean theorems about the canonical form the identifier is computed from (hand-written model of to_dict + hashgen): it is a function of the content only (route, row labels, dtypes, process are not inputs); invariant under the order in which metadata was given (distinct keys), key-sorted; injective: different metadata value / label / datum / branch mark / model parameter give a different canonical form, hence a different identifier unless the uninterpreted hash collides. On real objects: 11 construction routes incl. a second process with another PYTHONHASHSEED give one identifier, reads never change it, every single-field edit changes it; equal ids <=> equal canonical forms (correspondence).",
  note=TB + "Partial: md5 and pandas.util.hash_pandas_object are an uninterpreted injective H; that the implementation's hash input is a function of the modelled content only is established by correspondence, not proof. S9 fixed; S10b-id known (re-guessed branch marks after a JSON parse).",
  technique="Lean 4 proof (canonical form: permutation invariance + injectivity) + differential execution over construction routes and single-field edits"),
 "C06": dict(
  text="Lean theorems about the JSON codec model (run against the very documents the library writes, both directions, 0 disagreements): decode(encode i) = i for metadata-only and model isotherms and for point isotherms with at least one desorption point; for all-adsorption data the round trip holds IF AND ONLY IF branch guessing on the pressures returns all-adsorption (the necessary hypothesis is finding S10b, witness proved); empty data boundary; re-export reproduces the document; document keys distinct. Full round trips on real objects (string and file) over the JSON-value grammar, all unit configurations, all 16 models.",
  note=TB + "Partial: python json, pandas from_dict/to_dict and the Lean JSON parser of the driver are residue. S10a, S10c fixed; S10b known.",
  technique="Lean 4 proof (decode∘encode = id on a decidable domain, iff-characterisation of the branch-mark clause) + correspondence on real documents + full round trips"),
 "C07": dict(
  text="Lean theorems about pyGAPS's own text codec (model agrees with cast_string on >500 grammar-directed strings): complete decision table of cast_string in Python's order (exactly one class per string), in-domain text / booleans / None / every non-negative integer round-trip, negative integers provably become floats (S18), CSV line codec accepted-iff characterisation and round trip, a value containing the separator is refused. The decidable domain predicate of the theorems is the one the harness uses to draw in-domain metadata for full round trips in CSV, Excel and AIF x three classes x unit configurations x data shapes.",
  note=TB + "Partial: gemmi.cif, xlrd/xlwt, pandas.read_csv/to_csv are exercised only by the round trips; digits of non-ASCII scripts are outside the model alphabet. 20 known findings S18-* (values outside a format's domain silently changed or refused with a non-pyGAPS error; Excel ints -> floats; AIF regroups interleaved branch marks); AIF/CSV/Excel defects fixed (b2dd618, 3fb886c, 355f79c, 2b7914b).",
  technique="Lean 4 proof (text codec decision table and round trips) + model/implementation correspondence on strings + full format round trips"),
 "C08": dict(
  text="Lean theorems about an executable model of the SQLite store (tables, foreign keys, uniqueness, the statement sequence of every upload/delete, run against the real functions on real database files with 0 disagreements): Db.wellFormed is preserved by every operation under every fault and along every history from the empty store; the outcome depends only on the file content (not on the in-memory lists); each refusal rule of the dictionary (duplicate, absent, referenced, unknown reference, NULL name) yields ParsingError and leaves the file unchanged; each accepted upload/delete/overwrite yields exactly the stated new content.",
  note=TB + "Partial: SQLite itself (constraint enforcement, PRAGMA foreign_keys) is an assumed component, observed through the correspondence on real files. Known findings S11b (branch marks not stored), S11c (integer metadata returns as float), S11d (list/dict metadata refused with raw sqlite3.ProgrammingError), S27 (list-valued material property returns its last element). S11/S12/S28, cursor leak and iso_type leak fixed.",
  technique="Lean 4 proof (invariant by induction over operation histories; decision logic) about a hand-written store model + model/implementation correspondence on real SQLite files"),
 "C09": dict(
  text="Lean theorems about the same store model with fault injection at every statement: a failed call changes nothing (atomic), a fault inside the body always fails the call, a fault that is not reached does not change the result, process death commits nothing or everything (and everything only at the commit), a retry after a failure succeeds exactly as a first call, prior rows stay intact. The harness enumerates every statement index x fault kind (OperationalError, IntegrityError, process exit before/after commit in a forked child) on real files and compares the file content and statement counts with the model.",
  note=TB + "Partial: SQLite's journal/rollback under real power loss and the OS file layer are assumed (fault = exception raised by, or process exit at, a sqlite3 API call).",
  technique="Lean 4 proof (atomicity for every operation and every fault point) + exhaustive fault enumeration on the real functions as correspondence"),
 "C10": dict(
  text="Lean theorems over the reals about the functions regenerated from modelling/*.py on every run (tie lemmas Gen = published equation, then per model: pressure(loading p) = p and converse, zero point incl. the 0/0 point of the quadratic inverses, sign, strict monotonicity on the validity range, saturation bound, Henry limit; injectivity of the pressure-explicit models as the specification of the numerical inverses). Float copies of the same generated text are run against the Python originals; the property oracle runs on the real classes.",
  note=TB + "Partial where the truth is numerical: scipy.optimize inverses (TSLangmuir, Temkin, Jensen-Seaton, Virial, VST) are specified by residual and checked only where the library reports success; IEEE rounding per the tolerance table. BET/GAB inverse needs N != C (C != 1). Known finding S24 (Virial.loading returns a non-root with success); S1 fixed.",
  technique="Lean 4 proof about translator-generated definitions (real analysis in Mathlib), translator validation by execution, property-oracle failing-input search"),
 "C11": dict(
  text="Lean theorems over the reals: for every closed-form spreading pressure regenerated from the code (Henry, Langmuir, DS/TS-Langmuir, BET, GAB, Quadratic, Freundlich, TemkinApprox) p*dPi/dp = n(p), Pi(0)=0 and Pi->0, Pi(b)-Pi(a) = integral of n/x, strict monotonicity; for point isotherms the exact fold of spreading_pressure_at (hand-written model, run against the real method in exact rationals) equals the integral of the Henry-continued piecewise-linear interpolant for any number of points, with additivity, monotonicity and p*Pi' = interpolant as corollaries.",
  note=TB + "Partial: the quad-based models (Toth, Jensen-Seaton, DR, DA) are compared with an independent quadrature of the class's own loading/x (scipy.integrate.quad is residue); IEEE rounding. Known finding S13 (TemkinApprox offset n_m*theta/2, proved as a witness); S7, S14 fixed.",
  technique="Lean 4 proof (HasDerivAt / interval integrals in Mathlib) about translator-generated definitions and a correspondence-checked fold model; quadrature oracle as failing-input search"),
 "C14": dict(
  text="Lean theorems about the per-point transforms and parameter formulas regenerated from characterisation/*.py on every run (BET, Langmuir, t-plot, alpha-s, DR/DA) and about a hand-written model of window selection and least squares that is run at exact rationals against the real raw functions: ols on exactly linear data returns slope and intercept for any abscissae with two distinct values; BET/Langmuir/DA transforms of the governing equation are exactly linear and the parameter formulas invert them (n_m, C, K, p_m, area with N_A*1e-18, V0, E; zero residual at the generating exponent); t-plot/alpha-s slopes, areas, volumes; alpha-s against itself returns the reference area; the selected window is exactly {lo <= p < hi} for any limits incl. None/0, refusal iff fewer than three points, Rouquerol maximum = first decrease of n(1-p), minimum = first p >= 0.1 p_max.",
  note=TB + "Partial: scipy.stats.linregress is assumed to be ordinary least squares (compared with the exact model to 1e-7); the DA exponent search (minimize_scalar) is numerical - known finding S29 (search ends at the upper bound 3.0 for low generating exponents); find_linear_sections (automatic t-plot regions) is outside the property. S19 (numeric reference_area) fixed in the repository.",
  technique="Lean 4 proof about translator-generated formulas (Mathlib real analysis) and a correspondence-checked window/regression model; synthetic-isotherm recovery oracle as failing-input search"),
 "C16": dict(
  text="Lean theorems about a statement-by-statement model of psd_pygapsdh / psd_bjh / psd_dollimore_heal and the cumulative curve (run at exact rationals against the real functions on the same arrays, and through psd_mesoporous on isotherms) and about the Kelvin / thickness formulas regenerated from the source: widths = 2(t + r_K) at the measured pressures and strictly increasing in pressure for Halsey, Harkins-Jura and zero thickness; zero thickness => pore volumes = successive changes of adsorbed volume for all three methods, summing to the total change; distribution x width increments = volumes; cumulative curve ends at the last adsorbed volume and is the running sum; a single step gives a single peak at the Kelvin width; Kelvin radius solves the Kelvin equation for each meniscus geometry; geometry tables; method dispatch and default limits.",
  note=TB + "Partial: tabulated thickness isotherms (SiO2, carbon black) and user-supplied callables are not modelled; CoolProp properties are inputs; IEEE rounding measured (<= 2e-11).",
  technique="Lean 4 proof (structural induction over the recurrences; real analysis for Kelvin/thickness) about a correspondence-checked model and translator-generated formulas; SI-unit Kelvin oracle as failing-input search"),
 "C19": dict(
  text="Lean theorems about the generated slope-to-enthalpy factor, inverse temperatures and Whittaker brackets (regenerated from the source) and the least-squares model: for any list of positive temperatures with two distinct values, in any order, Clausius-Clapeyron regression of a van 't Hoff family returns dH exactly; every affinity-scaled isotherm family (Langmuir, Toth, dual-site Langmuir as generated from modelling/*.py) is such a family; multiplying pressures by a unit factor does not change the result; the Whittaker chain equals lambda + dH_vap + RT with first bracket p_sat*K, independent of loading for Langmuir.",
  note=TB + "Partial: pressure_at of point isotherms is linear interpolation (2e-3), Toth inverse is numerical; CoolProp (p_sat, p_c, p_t, h_vap) values are inputs; the skip rule of the Whittaker loop and initial_enthalpy_point are decided by the oracle only (no theorem).",
  technique="Lean 4 proof (least squares + real analysis) about translator-generated formulas and a correspondence-checked regression model; van 't Hoff synthetic isotherms as failing-input search"),
 "C20": dict(
  text="Registry regenerated from adsorbates.json and default.db; kernel-decided: no alias occurs twice (n log n sorted check lifted by a proved lemma), JSON list = database, every adsorbate found by its own name; proved for every registry: unique aliases => find returns the owner, absent key => not found; fallback logic of the accessors never silent. Exhaustive correspondence of Adsorbate.find and the isotherm constructor over every alias x 4 case variants.",
  note=TB + "Partial: CoolProp consistency (rho = rho_bar*M, p_triple <= p_sat <= p_crit, monotone, h_vap > 0, units, call-order independence) is measured, not proved. String -> key encoding is the translator's, re-derived in Lean at run time. S17, S21 fixed.",
  technique="Lean 4 proof (kernel decision on the generated registry + general lookup lemma), exhaustive correspondence, measured thermodynamic consistency"),
}
DESIGN_REF = {p: f"DESIGN.md section 7, {p}" for p in ENTRIES}
PENDING_REASON = "check not built yet (work in progress; see DESIGN.md section 7)"


def main():
    props = [json.loads(l)["id"] for l in open(VERIF / "properties.jsonl")]
    m = {"version": 1, "setup_cmd": "./setup.sh",
         "hooks": {"guard": "PYGAPS_VERIF", "enable": "no source hooks: checks import /repo/src in-process (PGV_REPO selects another tree)",
                   "baseline_off_cmd": "cd /repo && /venv/bin/python -m pytest -ra -q -p no:cacheprovider --timeout=900 --continue-on-collection-errors",
                   "source_commits": [], "add_only": True},
         "engines": [{"name": "lean4-proof", "path": "lean/", "serves_properties": sorted(ENTRIES),
                      "kind_free_text": "Lean 4.33 + Mathlib theorems about generated (translator) and hand-written (correspondence-checked) models; Python harness in harness/"}],
         "checks": [], "not_applicable": [],
         "notes": "fix: commits in /repo repair genuine defects found by the checks (see known_findings.json, status fixed)."}
    for p in props:
        if p in ENTRIES:
            e = ENTRIES[p]
            m["checks"].append({"property_id": p, "quick_cmd": f"./check {p} --tier quick", "thorough_cmd": f"./check {p} --tier thorough",
                                "evidence_file": f"evidence/{p}.json", "replay_cmd_template": f"./check {p} --replay {{path}}", "engine": "lean4-proof",
                                "level_claimed": {"category": "proof", "text": e["text"], "design_ref": DESIGN_REF[p]},
                                "level_note": e["note"], "technique": e["technique"]})
        else:
            m["not_applicable"].append({"property_id": p, "reason": PENDING_REASON})
    (VERIF / "MANIFEST.json").write_text(json.dumps(m, indent=1) + "\n")
    print("checks:", [c["property_id"] for c in m["checks"]])


if __name__ == "__main__":
    sys.exit(main())
