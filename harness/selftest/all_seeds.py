#!/usr/bin/env python3
"""Re-run the detection of every kept seeded change against the current /repo HEAD and the current checks (PGV_JOBS at a time, default 6: every detection
uses a private copy of the Lean project).  Prints one line per seed and writes seeded/SUMMARY.json."""
import json
import subprocess
import sys
from pathlib import Path

VERIF = Path(__file__).resolve().parents[2]
import os
from concurrent.futures import ThreadPoolExecutor

out = {}
only = sys.argv[1:]


def one(d):
    pid = d.name.split("-")[0]
    rc = subprocess.run(["git", "-C", "/repo", "apply", "--check", str(d / "patch.diff")], capture_output=True, text=True)
    if rc.returncode:
        out[d.name] = {"applies": False, "error": rc.stderr[-300:]}
        print(d.name, "DOES NOT APPLY", flush=True)
        return
    p = subprocess.run([sys.executable, str(VERIF / "harness/selftest/seedcheck.py"), "detect", str(d), pid], capture_output=True, text=True)
    try:
        det = json.loads(p.stdout)
        sig = (det.get("first_replay") or {}).get("signature") or (det.get("first_replay") or {}).get("broken")
        out[d.name] = {"applies": True, "exit": det["exit"], "summary": det["summary"], "first_violation": (det["violations"] or [None])[0], "first_signature": sig}
        print(d.name, "exit", det["exit"], det["summary"], flush=True)
    except Exception as e:  # noqa
        out[d.name] = {"applies": True, "error": (p.stdout + p.stderr)[-400:]}
        print(d.name, "ERROR", repr(e), flush=True)
dirs = [d for d in sorted((VERIF / "seeded").iterdir()) if (d / "patch.diff").exists() and (not only or d.name in only)]
with ThreadPoolExecutor(int(os.environ.get("PGV_JOBS", "6"))) as ex:
    list(ex.map(one, dirs))
out = dict(sorted(out.items()))
summ = VERIF / "seeded" / "SUMMARY.json"
if only and summ.exists():          # a partial re-run replaces its own entries only
    out = dict(sorted({**json.loads(summ.read_text()), **out}.items()))
summ.write_text(json.dumps(out, indent=1, default=str))
