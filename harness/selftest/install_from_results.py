#!/usr/bin/env python3
"""install_from_results.py <srcroot> <resultdir> <offset>: copy every seed <srcroot>/<PID>/m<K> whose batch results
(<resultdir>/<PID>-m<K>.confirm.json ok and .detect.json exit 1 with a concrete replay) into seeded/<PID>-m<K+offset>/ with meta.json."""
import json
import re
import shutil
import sys
from pathlib import Path

VERIF = Path(__file__).resolve().parents[2]
src, res, off = Path(sys.argv[1]), Path(sys.argv[2]), int(sys.argv[3])
for d in sorted(src.glob("C??/m?")):
    pid, k = d.parent.name, int(d.name[1:])
    tag = f"{pid}-m{k}"
    try:
        conf = json.loads((res / f"{tag}.confirm.json").read_text())
        det = json.loads((res / f"{tag}.detect.json").read_text())
    except Exception as e:  # noqa
        print(tag, "no results", e)
        continue
    viol = det.get("violations") or []
    concrete = det.get("exit") == 1 and viol and "no-failing-input-found" not in viol[0]
    if not (conf.get("ok") and concrete):
        print(tag, "skipped: confirm", conf.get("ok"), "detect exit", det.get("exit"), "concrete", bool(concrete))
        continue
    sid = f"{pid}-m{k + off}"
    dst = VERIF / "seeded" / sid
    dst.mkdir(parents=True, exist_ok=True)
    for f in ("patch.diff", "demo.py", "notes.md"):
        shutil.copy(d / f, dst / f)
    notes = (d / "notes.md").read_text()
    m = re.search(r"(?is)(needs|needed|trigger|manifest)[^\n]*\n(.{0,700})", notes)
    fr = det.get("first_replay") or {}
    meta = {
        "seed_id": sid, "property": pid,
        "breaks": "see notes.md (written by the independent sub-agent that produced the change from the property text alone)",
        "needs_to_manifest": (m.group(0)[:800] if m else notes[:800]),
        "confirmed": {"what_i_ran": "harness/selftest/seedcheck.py confirm <dir> (via batch.py): scratch worktree of /repo HEAD, demo.py on the clean tree (exit 0), "
                                    "git apply patch.diff, demo.py again (exit != 0), full pytest suite with the patch: pass set contains all 514 stable_pass tests",
                      "result": {k_: conf.get(k_) for k_ in ("demo_clean_rc", "apply_rc", "demo_patched_rc", "suite_passed", "suite_missing_from_pass_set", "ok")}},
        "detection": {"cmd": f"harness/selftest/seedcheck.py detect seeded/{sid} {pid}", "exit": det["exit"], "summary": det["summary"], "violations": viol[:3],
                      "first_replay_signature": fr.get("signature") or fr.get("broken")},
    }
    (dst / "meta.json").write_text(json.dumps(meta, indent=1, default=str))
    print(sid, "installed")
