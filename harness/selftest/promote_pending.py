#!/usr/bin/env python3
"""promote_pending.py <ID> …: run the detection of seeded/pending/<ID>; when the check exits 1 with a concrete failing input the seed is moved to
seeded/<ID>/ with its meta.json (confirm result taken from pending/<ID>/confirm.json)."""
import json
import re
import shutil
import subprocess
import sys
from pathlib import Path

VERIF = Path(__file__).resolve().parents[2]
for sid in sys.argv[1:]:
    src = VERIF / "seeded" / "pending" / sid
    pid = sid.split("-")[0]
    p = subprocess.run([sys.executable, str(VERIF / "harness/selftest/seedcheck.py"), "detect", str(src), pid], capture_output=True, text=True)
    try:
        det = json.loads(p.stdout)
    except Exception:
        print(sid, "ERROR", (p.stdout + p.stderr)[-400:])
        continue
    viol = det.get("violations") or []
    concrete = det.get("exit") == 1 and viol and "no-failing-input-found" not in viol[0]
    print(sid, "exit", det.get("exit"), "concrete" if concrete else ("NOINPUT" if viol else "MISSED"), (det.get("summary") or [""])[-1][-80:])
    if not concrete:
        continue
    conf = json.loads((src / "confirm.json").read_text()) if (src / "confirm.json").exists() else {}
    dst = VERIF / "seeded" / sid
    dst.mkdir(parents=True, exist_ok=True)
    for f in ("patch.diff", "demo.py", "notes.md"):
        shutil.copy(src / f, dst / f)
    notes = (src / "notes.md").read_text()
    m = re.search(r"(?is)(needs|needed|trigger|manifest)[^\n]*\n(.{0,700})", notes)
    fr = det.get("first_replay") or {}
    meta = {
        "seed_id": sid, "property": pid,
        "breaks": "see notes.md (written by the independent sub-agent that produced the change from the property text alone)",
        "needs_to_manifest": (m.group(0)[:800] if m else notes[:800]),
        "confirmed": {"what_i_ran": "harness/selftest/seedcheck.py confirm <dir>: scratch worktree of /repo HEAD, demo.py on the clean tree (exit 0), git apply patch.diff, demo.py again (exit != 0), "
                                    "full pytest suite with the patch: pass set contains all 514 stable_pass tests",
                      "result": {k_: conf.get(k_) for k_ in ("demo_clean_rc", "apply_rc", "demo_patched_rc", "suite_passed", "suite_missing_from_pass_set", "ok")}},
        "history": "missed (or detected only as a broken tie without a failing input) by the checks as they were when the change was written; caught after the check was strengthened (DESIGN.md 11.8)",
        "detection": {"cmd": f"harness/selftest/seedcheck.py detect seeded/{sid} {pid}", "exit": det["exit"], "summary": det["summary"], "violations": viol[:3],
                      "first_replay_signature": fr.get("signature") or fr.get("broken")},
    }
    (dst / "meta.json").write_text(json.dumps(meta, indent=1, default=str))
    shutil.rmtree(src)
