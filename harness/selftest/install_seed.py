#!/usr/bin/env python3
"""install_seed.py <src_dir> <seed_id> <PID> [confirm_json]: copy a confirmed seeded change into /verif/seeded/<seed_id>/ with meta.json,
after running the property's quick check against it."""
import json
import re
import shutil
import subprocess
import sys
from pathlib import Path

VERIF = Path(__file__).resolve().parents[2]
src, sid, pid = Path(sys.argv[1]), sys.argv[2], sys.argv[3]
confirm = json.loads(Path(sys.argv[4]).read_text()) if len(sys.argv) > 4 else None
dst = VERIF / "seeded" / sid
dst.mkdir(parents=True, exist_ok=True)
for f in ("patch.diff", "demo.py", "notes.md"):
    if (src / f).exists():
        shutil.copy(src / f, dst / f)
out = subprocess.run([sys.executable, str(VERIF / "harness/selftest/seedcheck.py"), "detect", str(dst), pid], capture_output=True, text=True).stdout
det = json.loads(out)
notes = (src / "notes.md").read_text() if (src / "notes.md").exists() else ""
m = re.search(r"(?is)(needs|trigger|manifest)[^\n]*\n(.{0,600})", notes)
meta = {
    "seed_id": sid, "property": pid,
    "breaks": "see notes.md (written by the independent sub-agent that produced the change)",
    "needs_to_manifest": (m.group(0)[:700] if m else notes[:700]),
    "confirmed": {"what_i_ran": "harness/selftest/seedcheck.py confirm <dir>: scratch worktree of /repo HEAD, demo.py on the clean tree (exit 0), "
                                "git apply patch.diff, demo.py again (exit != 0), full pytest suite with the patch: pass set contains all 514 stable_pass tests",
                  "result": confirm},
    "detection": {"cmd": f"harness/selftest/seedcheck.py detect seeded/{sid} {pid}", "exit": det["exit"], "summary": det["summary"],
                  "violations": det["violations"][:3],
                  "first_replay_signature": (det.get("first_replay") or {}).get("signature") or (det.get("first_replay") or {}).get("broken")},
}
(dst / "meta.json").write_text(json.dumps(meta, indent=1, default=str))
print(sid, "exit", det["exit"], det["summary"])
