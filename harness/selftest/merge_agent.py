#!/usr/bin/env python3
"""merge_agent.py <agent_verif_dir> <base_commit> [--apply]: three-way merge of a private working copy of /verif back into /verif.
For every file that differs between the copy and <base_commit>: identical to the current file -> skip; current file == base -> copy;
otherwise `git merge-file` (conflicts are reported and left with markers in <file>.merge for inspection, the file itself is not touched).
Generated / volatile paths are ignored."""
import subprocess
import sys
import tempfile
from pathlib import Path

VERIF = Path(__file__).resolve().parents[2]
src, base = Path(sys.argv[1]).resolve(), sys.argv[2]
apply = "--apply" in sys.argv
IGN = ("harness/stamps.lock.json", "known_findings.json", ".lake", "lean/PgVerif/Gen/", "lean/PgVerif/Audit/", "evidence/", "replays/", "__pycache__", "seeded/", "probes/", "MANIFEST.json", ".git")


def ignored(rel):
    return any(rel.startswith(p) or ("/" + p) in ("/" + rel) for p in IGN)


def base_bytes(rel):
    p = subprocess.run(["git", "-C", str(VERIF), "show", f"{base}:{rel}"], capture_output=True)
    return p.stdout if p.returncode == 0 else None


for f in sorted(src.rglob("*")):
    if not f.is_file():
        continue
    rel = str(f.relative_to(src))
    if ignored(rel):
        continue
    new = f.read_bytes()
    b = base_bytes(rel)
    if b == new:
        continue
    cur_p = VERIF / rel
    cur = cur_p.read_bytes() if cur_p.exists() else None
    if cur == new:
        continue
    if cur is None or cur == b:
        print(("COPY   " if apply else "copy?  ") + rel + ("  (new file)" if cur is None else ""))
        if apply:
            cur_p.parent.mkdir(parents=True, exist_ok=True)
            cur_p.write_bytes(new)
        continue
    if b is None:
        print("BOTH-ADDED (differ) " + rel)
        continue
    with tempfile.TemporaryDirectory() as td:
        a, o, t = Path(td) / "cur", Path(td) / "base", Path(td) / "theirs"
        a.write_bytes(cur); o.write_bytes(b); t.write_bytes(new)
        r = subprocess.run(["git", "merge-file", "-p", str(a), str(o), str(t)], capture_output=True)
        if r.returncode == 0:
            print(("MERGE  " if apply else "merge? ") + rel)
            if apply:
                cur_p.write_bytes(r.stdout)
        else:
            print(f"CONFLICT({r.returncode}) " + rel + "  -> " + rel + ".merge")
            if apply:
                (VERIF / (rel + ".merge")).write_bytes(r.stdout)
# files deleted by the agent are not propagated (report only)
