#!/usr/bin/env python3
"""Confirm a seeded change and run the checks against it, in a scratch worktree (never in /repo).

  seedcheck.py confirm <seed_dir>            demo passes on clean tree, fails with patch; full suite pass-set ⊇ baseline stable_pass
  seedcheck.py detect  <seed_dir> <PID> [tier]   run ./check PID with PGV_REPO=<scratch tree with patch>; report exit code and VIOLATION lines
Scratch trees live under /tmp/pgv-seed-* and are removed afterwards.
"""
import json
import os
import shutil
import subprocess
import sys
import tempfile
import xml.etree.ElementTree as ET
from pathlib import Path

VERIF = Path(__file__).resolve().parents[2]
REPO = Path("/repo")
PY = "/venv/bin/python"


def sh(cmd, cwd=None, env=None, timeout=3600):
    e = dict(os.environ)
    e.update(env or {})
    p = subprocess.run(cmd, cwd=cwd, env=e, capture_output=True, text=True, timeout=timeout)
    return p.returncode, p.stdout + p.stderr


def make_tree():
    d = Path(tempfile.mkdtemp(prefix="pgv-seed-"))
    wt = d / "wt"
    rc, out = sh(["git", "-C", str(REPO), "worktree", "add", "--detach", str(wt), "HEAD", "-q"])
    if rc:
        raise SystemExit(out)
    shutil.copy(REPO / "src/pygaps/_version.py", wt / "src/pygaps/_version.py")
    return d, wt


def drop_tree(d, wt):
    sh(["git", "-C", str(REPO), "worktree", "remove", "--force", str(wt)])
    shutil.rmtree(d, ignore_errors=True)


def junit_passed(path):
    ids = set()
    for tc in ET.parse(path).getroot().iter("testcase"):
        if not any(ch.tag in ("failure", "error", "skipped") for ch in tc):
            ids.add(f"{tc.get('classname')}::{tc.get('name')}")
    return ids


def confirm(seed):
    seed = Path(seed)
    d, wt = make_tree()
    res = {"seed": str(seed)}
    try:
        env = {"PYTHONPATH": str(wt / "src")}
        rc0, out0 = sh([PY, str(seed / "demo.py")], cwd=d, env=env, timeout=1800)
        res["demo_clean_rc"] = rc0
        rc, out = sh(["git", "-C", str(wt), "apply", str(seed / "patch.diff")])
        res["apply_rc"] = rc
        rc1, out1 = sh([PY, str(seed / "demo.py")], cwd=d, env=env, timeout=1800)
        res["demo_patched_rc"] = rc1
        res["demo_patched_tail"] = out1[-600:]
        jx = d / "junit.xml"
        rc2, out2 = sh([PY, "-m", "pytest", "-q", "-p", "no:cacheprovider", "--timeout=900", "--continue-on-collection-errors",
                        f"--junitxml={jx}"], cwd=wt, env=env, timeout=3000)
        base = set(json.load(open("/root/.vp/BASELINE.json"))["stable_pass"])
        passed = junit_passed(jx) if jx.exists() else set()
        res["suite_missing_from_pass_set"] = sorted(base - passed)[:20]
        res["suite_passed"] = len(passed)
        res["ok"] = rc0 == 0 and rc == 0 and rc1 != 0 and not (base - passed)
    finally:
        drop_tree(d, wt)
    print(json.dumps(res, indent=1))
    return 0 if res.get("ok") else 1


def detect(seed, pid, tier="quick"):
    seed = Path(seed)
    d, wt = make_tree()
    try:
        rc, out = sh(["git", "-C", str(wt), "apply", str(seed / "patch.diff")])
        if rc:
            raise SystemExit(out)
        # private copy of the Lean project (with its build output) so that several detections can run at once
        sh(["rsync", "-a", str(VERIF / "lean") + "/", str(d / "lean") + "/"])
        rc, out = sh([str(VERIF / "check"), pid, "--tier", tier], cwd=VERIF,
                     env={"PGV_REPO": str(wt), "PGV_LEAN_DIR": str(d / "lean"), "PGV_EVIDENCE_DIR": str(d / "evidence"), "PGV_REPLAY_DIR": str(d / "replays")}, timeout=7200)
        viol = [l for l in out.splitlines() if l.startswith("VIOLATION")]
        summary = [l for l in out.splitlines() if l.startswith(f"[{pid}]")]
        replay = None
        if viol:
            rp = Path(viol[0].split("replay=")[1].split()[0])
            if rp.exists():
                replay = json.loads(rp.read_text())
        res = {"seed": str(seed), "property": pid, "tier": tier, "exit": rc, "violations": viol[:5], "summary": summary,
               "first_replay": replay}
    finally:
        drop_tree(d, wt)
    text = json.dumps(res, indent=1, default=str)
    if len(text) > 6000:
        res["first_replay"] = json.loads(json.dumps(res["first_replay"], default=str)[:0] or "null") if False else {
            k: (v if len(json.dumps(v, default=str)) < 1500 else json.dumps(v, default=str)[:1500] + "…") for k, v in (res["first_replay"] or {}).items()}
        text = json.dumps(res, indent=1, default=str)
    print(text)
    return 0


if __name__ == "__main__":
    if sys.argv[1] == "confirm":
        sys.exit(confirm(sys.argv[2]))
    sys.exit(detect(*sys.argv[2:]))
