#!/usr/bin/env python3
"""batch.py <srcroot> <outdir> [jobs] [which=confirm,detect] : confirm and detect every <srcroot>/<PID>/<mK> seed in parallel
(each job has its own scratch worktree and its own copy of the Lean project). Writes <outdir>/<PID>-<mK>.{confirm,detect}.json."""
import subprocess
import sys
from concurrent.futures import ThreadPoolExecutor
from pathlib import Path

HERE = Path(__file__).resolve().parent
src, out = Path(sys.argv[1]), Path(sys.argv[2])
jobs = int(sys.argv[3]) if len(sys.argv) > 3 else 5
which = (sys.argv[4] if len(sys.argv) > 4 else "confirm,detect").split(",")
out.mkdir(parents=True, exist_ok=True)


def one(d):
    pid, m = d.parent.name, d.name
    tag = f"{pid}-{m}"
    if "confirm" in which and not (out / f"{tag}.confirm.json").exists():
        p = subprocess.run([sys.executable, str(HERE / "seedcheck.py"), "confirm", str(d)], capture_output=True, text=True)
        (out / f"{tag}.confirm.json").write_text(p.stdout or p.stderr)
    if "detect" in which and not (out / f"{tag}.detect.json").exists():
        p = subprocess.run([sys.executable, str(HERE / "seedcheck.py"), "detect", str(d), pid], capture_output=True, text=True)
        (out / f"{tag}.detect.json").write_text(p.stdout or p.stderr)
    print(tag, "done", flush=True)


seeds = sorted(d for d in src.glob("C??/m?") if (d / "patch.diff").exists())
with ThreadPoolExecutor(jobs) as ex:
    list(ex.map(one, seeds))
