#!/usr/bin/env python3
"""Run the repository's pinned test-suite in a scratch worktree of /repo HEAD (+ working-tree changes are NOT included) and compare the
pass set with BASELINE stable_pass.  Never runs inside /repo (the suite rewrites files there)."""
import json
import sys
from pathlib import Path

sys.path.insert(0, str(Path(__file__).parent))
import seedcheck as sc  # noqa

d, wt = sc.make_tree()
try:
    jx = d / "junit.xml"
    rc, out = sc.sh([sc.PY, "-m", "pytest", "-q", "-p", "no:cacheprovider", "--timeout=900", "--continue-on-collection-errors", f"--junitxml={jx}"],
                    cwd=wt, env={"PYTHONPATH": str(wt / "src")}, timeout=3000)
    base = set(json.load(open("/root/.vp/BASELINE.json"))["stable_pass"])
    passed = sc.junit_passed(jx)
    print(json.dumps({"passed": len(passed), "baseline": len(base), "missing": sorted(base - passed)[:20], "newly_passing": len(passed - base), "tail": out[-300:]}, indent=1))
finally:
    sc.drop_tree(d, wt)
