"""C07 — CSV, Excel and AIF round trips preserve the isotherm.

Lean: Props/C07.lean (pyGAPS's own text codec: `cast_string` classes, the decidable domain predicate `inCsvDomain`, the
metadata line codec).  Tie: correspondence of Model/TextCodec.lean with the real `cast_string` on grammar-directed strings, and the
domain predicate of the theorems is the one the harness uses to draw in-domain text.
Failing-input search: full round trips in the three formats x three classes x unit configurations x data shapes with metadata drawn
from each format's value domain, and one out-of-domain value per isotherm which must be refused with a pyGAPS error or survive unchanged.
gemmi, xlrd/xlwt and pandas I/O are exercised only by these round trips (residue).
"""
import json
import math
import os
import tempfile

from pgv import isogen
from pgv.core import err_class, import_pygaps

ALPHA = "abcxyzABCXYZ0123456789 _-+.,;:[]()eE'\"=µé"
SEEDS = ["", "None", "none", "NONE", "nOnE", " none", "True", "true", "FALSE", "tRuE", "0", "007", "12", "-3", "+4", "1.5", "-2.25e-3", "1e5", "1E5", "1e", "e5", ".5", "5.",
         ".", "+.5e-3", " 12 ", "12 ", "inf", "-Infinity", "nan", "NaN", "iNf", "infinit", "1_0", "1__0", "_1", "1_", "1_000.5_5", "0x10", "1,5", "[1 2]", "[", "]", "[]",
         "[a b]", "text", "two words", "µm", "é", "1e+", "1e-", "--1", "+-1", "1.2.3", "1e5e5", "e", "E", "+", "-", "1 2", "TrueFalse", "[1] ", " [1]", "a,b", "x=1", "'q'"]


def hx(s):
    return s.encode("utf-8").hex() if s else "-"


def cast_class(cast_string, s):
    try:
        v = cast_string(s)
    except Exception as e:  # noqa
        return "list" if s.startswith("[") and s.endswith("]") else "EXC:" + type(e).__name__
    if v is None:
        return "none"
    if isinstance(v, bool):
        return "bool T" if v else "bool F"
    if isinstance(v, int):
        return "int"
    if isinstance(v, float):
        return "float"
    if isinstance(v, (list, tuple, dict, set)):
        return "list"
    return "str" if isinstance(v, str) else "other:" + type(v).__name__


def run(ck):
    pg = import_pygaps()
    import numpy as np
    from pygaps.parsing.aif import isotherm_from_aif, isotherm_to_aif
    from pygaps.parsing.csv import isotherm_from_csv, isotherm_to_csv
    from pygaps.parsing.excel import isotherm_from_xl, isotherm_to_xl
    from pygaps.utilities.exceptions import pgError
    from pygaps.utilities.string_utilities import cast_string
    rng = ck.rng
    thorough = ck.tier == "thorough"

    # ------------------------------------------------------------------ A. cast_string vs the Lean model
    strings = list(SEEDS)
    for _ in range(ck.n(500, 3000)):
        n = rng.choice([1, 1, 2, 3, 4, 6, 9])
        base = rng.choice(SEEDS) if rng.random() < 0.4 else ""
        s = base + "".join(rng.choice(ALPHA) for _ in range(n))
        if rng.random() < 0.3:
            s = s[::-1]
        strings.append(s)
    strings = [s for s in dict.fromkeys(strings)]
    n_dis = 0
    try:
        rep = ck.drive("TextCodec", [f"cast {hx(s)}" for s in strings] + [f"dom 2c {hx(s)}" for s in strings])
    except Exception as e:
        rep = None
        ck.broken.append({"step": "driver TextCodec", "what": str(e)[:500]})
    in_domain = []
    if rep:
        for s, r, d in zip(strings, rep[:len(strings)], rep[len(strings):]):
            real = cast_class(cast_string, s)
            ck.count(("cast", s), bucket="cast_string:" + real.split(":")[0], sample={"string": s, "class": real, "model": r} if len(s) == 3 and s[0] == "1" else None)
            if real != r:
                n_dis += 1
                if n_dis <= 3:
                    ck.broken.append({"step": "correspondence Model/TextCodec.castString", "what": {"string": s, "model": r, "implementation": real}})
            if d == "T":
                in_domain.append(s)
                # theorem-derived prediction: an in-domain text comes back as itself
                if real != "str" or cast_string(s) != s:
                    ck.fail_case({"format": "csv", "clause": "in-domain text is not read back as itself"}, {"text": s, "read_as": real})
    texts = [s for s in in_domain if s.isprintable() and "'" not in s and '"' not in s and ";" not in s and "#" not in s and "_" != s[:1] and "$" not in s] or ["plain"]

    # ------------------------------------------------------------------ B. full round trips
    tmpdir = tempfile.mkdtemp(prefix="pgv-c07-")
    n = ck.n(70, 400)
    try:
        for i in range(n):
            c = isogen.content(rng, domain="text")
            # metadata from the format domain: in-domain text (from the Lean predicate), non-negative ints, floats, bools
            meta = {}
            # (AIF declares `user`, `date`, `instrument`, `material_batch` as text and `material_mass`, `activation_temperature` as numbers: not used as free keys)
            for k in rng.sample(["project", "operator2", "machine", "lab", "t_act", "comment", "DOI", "is_real", "n_runs"], rng.randint(0, 5)):
                r = rng.random()
                meta[k] = (rng.choice(texts) if r < 0.4 else rng.randint(0, 10 ** rng.randint(0, 9)) if r < 0.55 else
                           round(rng.uniform(-50, 500), rng.randint(1, 6)) if r < 0.8 else (rng.random() < 0.5))
            c["meta"] = meta
            odd = None
            if rng.random() < 0.5:
                odd = rng.choice([("negative int", -rng.randint(1, 99)), ("none", None), ("list of numbers", [1, 2.5, 3]), ("list of text", ["a", "b"]),
                                  ("text with separator", "a,b"), ("padded text", " padded "), ("number-like text", "1e5"), ("bool-like text", "True"),
                                  ("none-like text", "None"), ("empty text", ""), ("text with quote", "it's"), ("text with blank", "two words")])
                c["meta"]["odd_one"] = odd[1]
            try:
                iso = isogen.build(pg, c)
            except Exception:
                ck.count(("build-refused", i), nontrivial=False, bucket="construction refused")
                continue
            before = isogen.observe(pg, iso)
            for fmt in ("csv", "xl", "aif"):
                sig = {"format": fmt, "class": c["kind"], "odd_value": odd[0] if odd else None}
                if c["kind"] == "point":
                    br = c["branch"]
                    sig["interleaved_marks"] = any(b < a for a, b in zip(br, br[1:]))
                target = rng.choice(["string", "file"]) if fmt != "xl" else "file"
                try:
                    if fmt == "csv":
                        if target == "file":
                            p = os.path.join(tmpdir, f"i{i}.csv")
                            isotherm_to_csv(iso, p)
                            back = isotherm_from_csv(p)
                        else:
                            back = isotherm_from_csv(isotherm_to_csv(iso))
                    elif fmt == "xl":
                        p = os.path.join(tmpdir, f"i{i}.xls")
                        isotherm_to_xl(iso, p)
                        back = isotherm_from_xl(p)
                    else:
                        if target == "file":
                            p = os.path.join(tmpdir, f"i{i}.aif")
                            isotherm_to_aif(iso, p)
                            back = isotherm_from_aif(p)
                        else:
                            back = isotherm_from_aif(isotherm_to_aif(iso))
                except pgError as e:
                    ck.count((fmt, c["kind"], i), bucket=f"{fmt}:{c['kind']}:refused")
                    if odd is None:
                        ck.fail_case({**sig, "clause": "in-domain isotherm refused", "error": type(e).__name__}, {"error": repr(e)[:300], "meta": _js(c["meta"])})
                    continue
                except Exception as e:  # noqa
                    ck.count((fmt, c["kind"], i), bucket=f"{fmt}:{c['kind']}:raised")
                    ck.fail_case({**sig, "clause": "refusal is not a pyGAPS error" if odd else "in-domain isotherm raises", "error": type(e).__name__},
                                 {"error": repr(e)[:300], "meta": _js(c["meta"])})
                    continue
                after = isogen.observe(pg, back)
                ck.count((fmt, c["kind"], i), bucket=f"{fmt}:{c['kind']}:ok", sample={"format": fmt, "class": c["kind"], "metadata": _js(c["meta"])} if i % 41 == 0 else None)
                diffs = _diff(before, after, fmt)
                for where, a, b, vclass in diffs[:6]:
                    ck.fail_case({**sig, "clause": "silently changed" if where.startswith("metadata") and odd and "odd_one" in where else "round trip differs",
                                  "where": where.split(" ")[0], "value_class": vclass}, {"where": where, "exported": a, "imported": b, "meta": _js(c["meta"])})
                if not diffs and back.iso_id != iso.iso_id:
                    ck.fail_case({**sig, "clause": "identifier differs although content is equal"}, {"ids": [iso.iso_id, back.iso_id]})
    finally:
        for f in os.listdir(tmpdir):
            os.remove(os.path.join(tmpdir, f))
        os.rmdir(tmpdir)
    ck.cov["correspondence_disagreements"] = n_dis
    ck.cov["in_domain_texts"] = len(in_domain)
    ck.cov["rule"] = ("A: grammar-directed and random strings over the model alphabet (number / near-number / none / bool / list spellings, blanks, separators, non-ASCII letters) through cast_string vs the Lean classes; "
                      "B: three formats x three classes x seeded unit configurations x data shapes (1-13 points, ads-only / two-branch / des-only / user marks, numeric extra columns, every model) with metadata from the format domain "
                      "(in-domain text as decided by the Lean predicate, non-negative ints, floats, bools) plus one out-of-domain value in half of the isotherms; string and file targets; distinct = (format, class, content)")
    ck.assumptions += ["gemmi.cif, xlrd/xlwt, pandas.read_csv/to_csv are exercised by the round trips only", "digits of non-ASCII scripts are outside the model alphabet"]


def _js(x):
    return json.loads(json.dumps(x, default=str))


def _vclass(v):
    if v is None:
        return "none"
    if isinstance(v, bool):
        return "bool"
    if isinstance(v, int):
        return "negative int" if v < 0 else "int"
    if isinstance(v, float):
        return "float"
    if isinstance(v, (list, tuple)):
        return "list"
    if isinstance(v, dict):
        return "dict"
    return "text"


def _diff(a, b, fmt):
    out = []
    if a["class"] != b["class"]:
        out.append(("class", a["class"], b["class"], "class"))
    da, db = a["dict"], b["dict"]
    for k in sorted(set(da) | set(db), key=str):
        va, vb = da.get(k, "<absent>"), db.get(k, "<absent>")
        if k not in da or k not in db:
            out.append((f"metadata key {k!r}", repr(va)[:60], repr(vb)[:60], _vclass(da.get(k)) if k in da else "added"))
        elif not isogen.same_value(va, vb, tol=1e-12):
            out.append((f"metadata {k!r}", repr(va)[:60], repr(vb)[:60], _vclass(va)))
    if "columns" in a or "columns" in b:
        ca, cb = a.get("columns", {}), b.get("columns", {})
        for k in sorted(set(ca) | set(cb)):
            if k not in ca or k not in cb:
                out.append((f"data column {k!r} missing", k in ca, k in cb, "column"))
            elif k == "branch":
                if [int(x) for x in ca[k]] != [int(x) for x in cb[k]]:
                    out.append(("branch marks / order", ca[k][:12], cb[k][:12], "branch"))
            else:
                xa, xb = ca[k], cb[k]
                if len(xa) != len(xb) or any((abs(float(x) - float(y)) > 0.5e-8 + 1e-12 * abs(float(x))) if not isinstance(x, str) else x != y for x, y in zip(xa, xb)):
                    out.append((f"data column {k!r}", xa[:4], xb[:4], "data"))
    ma, mb = a.get("model"), b.get("model")
    if (ma is None) != (mb is None):
        out.append(("model missing", str(ma)[:80], str(mb)[:80], "model"))
    elif ma is not None:
        if ma["name"] != mb["name"]:
            out.append(("model name", ma["name"], mb["name"], "model"))
        for k in set(ma["parameters"]) | set(mb["parameters"]):
            x, y = ma["parameters"].get(k), mb["parameters"].get(k)
            if x is None or y is None or not math.isclose(float(x), float(y), rel_tol=1e-12, abs_tol=0):
                out.append((f"model parameter {k}", x, y, "model"))
        for k in ("pressure_range", "loading_range"):
            if [float(v) for v in ma[k]] != [float(v) for v in mb[k]]:
                out.append((f"model {k}", list(ma[k]), list(mb[k]), "model"))
        try:
            if not math.isclose(float(ma["rmse"]), float(mb["rmse"]), rel_tol=1e-12) or isinstance(mb["rmse"], str):
                out.append(("model rmse", ma["rmse"], mb["rmse"], "model"))
        except Exception:
            out.append(("model rmse", ma["rmse"], mb["rmse"], "model"))
    return out
