"""C07 — CSV, Excel and AIF round trips preserve the isotherm.

Lean: Props/C07.lean (pyGAPS's own text codec: `cast_string` classes, the decidable domain predicate `inCsvDomain`, the
metadata line codec) and Props/C07/Formats.lean (the GENERATED format tables Gen/Formats.lean — AIF tag maps, Excel cell positions,
the order of the CSV model block, prefixes / slices / version gates of writers and readers — and the list codec `_to_string` /
`_from_list`, the material-property prefix, AIF key mangling and quoting, Excel's end-of-table test).
Tie: correspondence of Model/TextCodec.lean with the real `cast_string`, `_from_list`, `_to_string`, `str.replace`, `str.strip` and — for
logic that is inline in the readers — with `isotherm_from_csv/_aif/_xl` on minimal crafted documents (among them the metadata line codec `decodeLine`: lines of
1-4 fields with blanks, empty and trailing fields under five separators), all on grammar-directed inputs;
the generated tables are compared with the imported Python objects and with the documents the real writers produce; the
domain predicate of the theorems is the one the harness uses to draw in-domain text.
Failing-input search: full round trips in the three formats x three classes x unit configurations x data shapes with metadata drawn
from each format's value domain, one out-of-domain value per isotherm which must be refused with a pyGAPS error or survive unchanged, metadata keys that
begin with a text the format uses itself (section / dispatch prefixes, material-property prefixes) and material properties whose names contain such a prefix;
stream C: every format-significant character (the separator in use — also a non-default one —, newline, quotes, blanks, brackets, `=` …) at every position class of a text
(start, middle, end, repeated, alone, wrapped) for metadata values and keys, material names, material-property names and values, in the three formats and classes,
with the oracle of the property's last sentence: refused with a pyGAPS error or equal — never a different value.
gemmi, xlrd/xlwt and pandas I/O are exercised only by these round trips (residue).
"""
import ast
import json
import math
import os
import tempfile

from pgv import isogen
from pgv.core import import_pygaps

ALPHA = "abcxyzABCXYZ0123456789 _-+.,;:[]()eE'\"=µé"
SEEDS = ["", "None", "none", "NONE", "nOnE", " none", "True", "true", "FALSE", "tRuE", "0", "007", "12", "-3", "+4", "1.5", "-2.25e-3", "1e5", "1E5", "1e", "e5", ".5", "5.",
         ".", "+.5e-3", " 12 ", "12 ", "inf", "-Infinity", "nan", "NaN", "iNf", "infinit", "1_0", "1__0", "_1", "1_", "1_000.5_5", "0x10", "1,5", "[1 2]", "[", "]", "[]",
         "[a b]", "text", "two words", "µm", "é", "1e+", "1e-", "--1", "+-1", "1.2.3", "1e5e5", "e", "E", "+", "-", "1 2", "TrueFalse", "[1] ", " [1]", "a,b", "x=1", "'q'"]


def hx(s):
    return s.encode("utf-8").hex() if s else "-"


def unhx(h):
    return "" if h == "-" else bytes.fromhex(h).decode("utf-8")


SEQ_ALPHA = "0123456789+-.eE_ ,a"
SEQ_SEEDS = ["[]", "()", "[1 2]", "(1 2)", "(1.5)", "(1,)", "[1,]", "[-3 4]", "[1e5 2]", "[007]", "[0_0]", "[1 2)", "(1 2]", "[inf]", "[nan 1.0]", "[ 1]", "[1 ]", "[1  2]", "[,]",
             "[+1]", "[--1]", "[1-2]", "[1_000 2.5e-3]", "[.5 5.]", "[1e+ 2]", "[00]", "[01]", "[1.e5]", "[a]", "[1]", "[", "]", "[1", "1]", "(", "[[]", "[1 -0.0 5e-324]"]
LINE_SEPS = [",", ";", "|", "\t", " "]
MAT_PIECES = ["_material_", "_mat", "erial_", "sample_", "sam", "ple_", "a", "b_", "x1", "_", "Q"]
KEY_ALPHA = "abXY019_-. "


def cast_class(cast_string, s):
    try:
        v = cast_string(s)
    except Exception as e:  # noqa
        return "list" if s.startswith("[") and s.endswith("]") else "EXC:" + type(e).__name__
    if v is None:
        return "none"
    if isinstance(v, bool):
        return "bool T" if v else "bool F"
    if isinstance(v, int):
        return "int"
    if isinstance(v, float):
        return "float"
    if isinstance(v, (list, tuple, dict, set)):
        return "list"
    return "str" if isinstance(v, str) else "other:" + type(v).__name__


class _Warnings:
    """records whether pyGAPS logged a warning (the version gates only warn)"""

    def __init__(self, logger):
        import logging
        self.logger, self.seen = logger, []

        class H(logging.Handler):
            def emit(h, record):  # noqa: N805
                self.seen.append(record.getMessage())
        self.h = H(level=logging.WARNING)

    def __enter__(self):
        import logging
        self.old = (self.logger.level, self.logger.propagate, list(self.logger.handlers))
        self.logger.handlers = [self.h]
        self.logger.propagate = False
        self.logger.setLevel(logging.WARNING)
        return self

    def __exit__(self, *a):
        self.logger.setLevel(self.old[0])
        self.logger.propagate = self.old[1]
        self.logger.handlers = self.old[2]


def _rows(ans, types):
    """decode a `tbl` reply: rows `;`, fields `,`; types: 's' text (hex), 'n' number, '?' optional number"""
    out = []
    for row in ans.split(";") if ans else []:
        f = row.split(",")
        tt = types if len(types) >= len(f) else types + types[-1] * (len(f) - len(types))
        out.append(tuple(unhx(x) if t == "s" else (None if x == "~" else int(x)) for x, t in zip(f, tt)))
    return out


BASE_KW = dict(material="m1", adsorbate="N2", temperature=77.0, pressure_mode="absolute", pressure_unit="bar", loading_basis="molar", loading_unit="mmol",
               material_basis="mass", material_unit="g", temperature_unit="K")


def _craft_xls(path, meta_dict, cells, value_off):
    """a minimal pyGAPS workbook written with xlwt directly: header fields at the positions of `_META_DICT`, a two-column point table whose
    first column holds `cells` ('n' a positive number, 'z' zero, 'e' nothing written)"""
    import xlwt
    wb = xlwt.Workbook()
    sht = wb.add_sheet("data")
    vals = dict(BASE_KW, isotherm_data="data")
    for f in meta_dict.values():
        sht.write(f["row"], f["column"], f["text"][0])
        if f["name"] in vals:
            sht.write(f["row"], f["column"] + value_off, vals[f["name"]])
    r0 = meta_dict["isotherm_data"]["row"]
    sht.write(r0 + 1, 0, "pressure")
    sht.write(r0 + 1, 1, "loading")
    for i, c in enumerate(cells):
        if c != "e":
            sht.write(r0 + 2 + i, 0, 0.0 if c == "z" else 0.5 + i)
        sht.write(r0 + 2 + i, 1, 1.0 + i)
    sht2 = wb.add_sheet("otherdata")
    sht2.write(0, 0, "temperature_unit")
    sht2.write(0, 1, "K")
    wb.save(path)


def run(ck):
    pg = import_pygaps()
    import numpy as np
    import pygaps.parsing as parsing_pkg
    import pygaps.parsing.aif as aif_mod
    import pygaps.parsing.csv as csv_mod
    import pygaps.parsing.excel as xl_mod
    from pygaps.core.baseisotherm import BaseIsotherm
    from pygaps.parsing.aif import isotherm_from_aif, isotherm_to_aif
    from pygaps.parsing.csv import isotherm_from_csv, isotherm_to_csv
    from pygaps.parsing.excel import isotherm_from_xl, isotherm_to_xl
    from pygaps.utilities.exceptions import pgError
    from pygaps.utilities.string_utilities import _from_list, _to_string, cast_string
    rng = ck.rng
    tmpdir = tempfile.mkdtemp(prefix="pgv-c07-")
    n_dis = 0
    dis_by = {}

    def disagree(step, what):
        """model and implementation differ on a concrete input"""
        nonlocal n_dis
        n_dis += 1
        dis_by[step] = dis_by.get(step, 0) + 1
        if dis_by[step] <= 2:
            ck.broken.append({"step": "correspondence " + step, "what": what})

    # ------------------------------------------------------------------ requests to the Lean driver (one process)
    lines, index = [], {}

    def ask(line):
        if line not in index:
            index[line] = len(lines)
            lines.append(line)
        return line

    # A. cast_string
    strings = list(SEEDS)
    for _ in range(ck.n(500, 3000)):
        n = rng.choice([1, 1, 2, 3, 4, 6, 9])
        base = rng.choice(SEEDS) if rng.random() < 0.4 else ""
        s = base + "".join(rng.choice(ALPHA) for _ in range(n))
        if rng.random() < 0.3:
            s = s[::-1]
        strings.append(s)
    # decimal spellings of whole numbers of every magnitude (theorem cast_nat_roundtrip: for EVERY natural number the model hands all its digits to Python's int)
    naturals = [str(_whole_number(rng, big=True)) for _ in range(ck.n(60, 400))] + [str(2 ** 53 + 1), str(2 ** 63 - 1), str(10 ** 18 + 1), "9" * 25]
    strings += naturals
    strings = [s for s in dict.fromkeys(strings)]
    for s in strings:
        ask(f"cast {hx(s)}")
        ask(f"dom 2c {hx(s)}")
    # A2. _from_list on bracketed texts over the numeric alphabet; _to_string on lists / tuples of numbers
    seqs = list(SEQ_SEEDS)
    good = ["1", "-2", "2.5", "1e5", "1_0", "0", "-0.0", "+3", ".5", "5.", "1e-05", "00", "0_0", "1E+3", "-7e-3", "12_345.6_7", "0.0", "9" * 20]
    for _ in range(ck.n(300, 2500)):
        o, c = rng.choice(["[]", "[]", "()", "()", "[)", "(]"]) if rng.random() < 0.3 else rng.choice(["[]", "()"])
        k = rng.choice([1, 1, 2, 2, 3, 4])
        if rng.random() < 0.55:         # well-formed: numeric literals, single blanks (what `_to_string` writes) or commas, sometimes a trailing comma
            inner = rng.choice([" ", " ", " ", ","]).join(rng.choice(good) for _ in range(k)) + rng.choice(["", "", "", ","])
        else:
            items = [rng.choice(good + ["007", "0_1", "nan", "inf", "1__0", "--1", "1e", "e5"]) if rng.random() < 0.5 else
                     "".join(rng.choice(SEQ_ALPHA[:17]) for _ in range(rng.randint(1, 5))) for _ in range(k)]
            inner = rng.choice([" ", " ", ",", "  ", ", "]).join(items) + rng.choice(["", "", ",", " "])
        seqs.append(o + inner + c)
    seqs = [s for s in dict.fromkeys(seqs)]
    for s in seqs:
        ask(f"seq {hx(s)}")
    values = []
    pool = [0, 1, -3, 17, 10 ** 12, -(10 ** 9), 0.0, -0.0, 2.5, -2.25e-3, 1e-5, 1e16, 1e22, 5e-324, 1.7976931348623157e308, 0.1 + 0.2, 1 / 3, np.float64(0.1), np.float64(3.0), np.int64(4)]
    for _ in range(ck.n(80, 600)):
        k = rng.choice([0, 1, 1, 2, 2, 3, 5])
        xs = [rng.choice(pool) if rng.random() < 0.6 else (rng.randint(-10 ** 6, 10 ** 6) if rng.random() < 0.5 else rng.uniform(-1e3, 1e3) * 10.0 ** rng.randint(-12, 12)) for _ in range(k)]
        values.append(tuple(xs) if rng.random() < 0.4 else xs)
    for xs in values:
        ask("tostr " + ("T" if isinstance(xs, tuple) else "L") + "".join(" " + hx(str(x)) for x in xs))
    # A3. str.replace(p, '') and str.strip("'")
    repl = []
    for _ in range(ck.n(150, 1500)):
        pfx = rng.choice(["ab", "a", "aa", "aba", "_a_", "_material_", "sample_"])
        body = "".join(rng.choice([pfx, pfx[:-1], "a", "b", "_", pfx[1:]]) for _ in range(rng.randint(0, 5)))
        repl.append((pfx, body))
        ask(f"removeall {hx(pfx)} {hx(body)}")
    quoted = ["", "'", "''", "'q'", "it's", "'a", "a'", "''a''", " 'a' ", "a"] + ["".join(rng.choice("'ab \"") for _ in range(rng.randint(0, 6))) for _ in range(ck.n(100, 800))]
    for s in quoted:
        ask(f"stripq {hx(s)}")
    # A4. material-property keys (inline logic of the readers: driven through the readers on minimal documents)
    mat_keys = {"csv": [], "aif": []}
    for fmt in mat_keys:
        for _ in range(ck.n(40, 300)):
            pfx = "_material_" if fmt == "csv" else "sample_"
            key = "".join(rng.choice(MAT_PIECES) for _ in range(rng.randint(1, 4)))
            if rng.random() < 0.5:
                key = pfx + rng.choice(["a", "x1", "Q", "b_"]) + (rng.choice([pfx, pfx[:-1], pfx[1:]]) + rng.choice(["a", "z9", ""]) if rng.random() < 0.6 else "")
            if key in ("_material_", "sample_") or key in mat_keys[fmt] or key.endswith("name") or key in isogen.RESERVED:
                continue
            mat_keys[fmt].append(key)
            ask(f"mat {fmt} {hx(key)}")
    aif_keys = ["two words", "a b c", "plain", "with-dash.dot", "UPPER", "x_y", " lead", "trail ", "a  b"]
    for _ in range(ck.n(40, 300)):
        k = "".join(rng.choice(KEY_ALPHA) for _ in range(rng.randint(1, 8)))
        aif_keys.append(k)
    aif_keys = [k for k in dict.fromkeys(aif_keys + mat_keys["aif"]) if k.strip(" _") and k.replace(" ", "_") not in isogen.RESERVED]
    for k in aif_keys:
        ask(f"aifkey {hx(k)}")
        ask(f"mat aif {hx(k.replace(' ', '_'))}")
    # A5. Excel end-of-table test, version gates
    patterns = ["n", "z", "nz", "zn", "nzn", "nnz", "nen", "zen", "nze", "nnenn", "nzzn", "znne"] + ["".join(rng.choice("nnnze") for _ in range(rng.randint(1, 8))) for _ in range(ck.n(25, 200))]
    patterns = [p_ for p_ in dict.fromkeys(patterns) if not p_.startswith("e")]
    for p_ in patterns:
        ask(f"xlcount row {p_}")
    versions = {"csv": ["3.0", "2.9", "3", "10.0", "3.10", "2.99", "", "0", "0.0", "abc", "none", "None", "3.", ".5", "03.0", "4", "2", "v3"],
                "aif": [aif_mod._parser_version, "'" + aif_mod._parser_version + "'", aif_mod._parser_version[:-1], aif_mod._parser_version + "0", "''", "x", "'x'"]}
    for fmt, ws in versions.items():
        for w in ws:
            ask(f"gate {fmt} {hx(w)}")
    # A8. the CSV metadata line codec (`decodeLine`): lines of 1-4 fields, empty fields, blanks around, TRAILING separators; five separators
    line_cases = []
    FIELDS = ["kx", "note", "q7", "ab", "see notes", "1.5", "12", "True", "", "", " ", "x y", "[1 2]", "µ", "none"]
    for _ in range(ck.n(300, 3000)):
        sep = rng.choice(LINE_SEPS[:3]) if rng.random() < 0.7 else rng.choice(LINE_SEPS)
        nf = rng.choice([1, 2, 2, 2, 2, 3, 3, 4])
        fields = [rng.choice(["kx", "note", "q7", " kx", "kx ", "k x", "kx", "q7", ""])]
        fields += [rng.choice(FIELDS) if rng.random() < 0.8 else "".join(rng.choice("ab ,;|\t1.") for _ in range(rng.randint(0, 4))) for _ in range(nf - 1)]
        line = rng.choice(["", "", "", " ", "\t"]) + sep.join(fields) + rng.choice(["", "", "", "", sep, sep, sep + sep, " ", "\t", " " + sep, sep + " ", "\r"])
        if line.strip() and "\n" not in line and (sep, line) not in line_cases:
            line_cases.append((sep, line))
            ask(f"line {hx(sep)} {hx(line)}")
    # A9. the metadata loop (`readMeta`): 1-5 lines after a minimal document — good lines, lines the codec refuses, blank lines, lines with blanks around
    block_cases = []
    GOOD = ["kx{s}ab", "q7{s}1.5", "note{s}see notes", "kx{s}", "q7{s}x y  ", "  note{s}ab", "n2{s}True"]
    BAD = ["kx{s}a{s}b", "kx{s}ab{s}", "kx{s}{s}", "ab", "cd ef", "{s}{s}{s}"]
    BLANK = ["", "  ", "\t"]
    for _ in range(ck.n(120, 1200)):
        sep = rng.choice(LINE_SEPS[:3])
        ls = [rng.choice(GOOD if r < 0.6 else BAD if r < 0.85 else BLANK).format(s=sep) for r in (rng.random() for _ in range(rng.choice([1, 2, 2, 3, 4, 5])))]
        if (sep, tuple(ls)) not in block_cases:
            block_cases.append((sep, tuple(ls)))
            ask("meta " + hx(sep) + "".join(" " + hx(x) for x in ls))
    # A6. the generated tables
    TBL = {"aifMeta": "sss", "aifMetaOld": "sss", "aifData": "ss", "aifUnits": "s", "xlMeta": "sssnn", "versions": "sss", "csvModelWriter": "sss", "csvModelReader": "ss",
           "csvHeaders": "ss", "xlPoint": "nnnnnn", "xlModelWriter": "nsnssn", "xlParams": "nnnn", "xlMarkers": "sss", "aifModelWriter": "ss?s", "aifPrefixes": "sssss", "aifLoops": "ss", "csvBranch": "ns", "xlBranch": "ns", "csvStops": "s", "aifDispatch": "ss", "matStrip": "sss"}
    for t in list(TBL) + ["precision"]:
        ask(f"tbl {t}")

    try:
        rep = ck.drive("TextCodec", lines)
    except Exception as e:
        rep = None
        ck.broken.append({"step": "driver TextCodec", "what": str(e)[:500]})
    if rep is not None and "bad-op" in rep:
        ck.broken.append({"step": "driver TextCodec", "what": "bad-op for " + lines[rep.index("bad-op")][:120]})
        rep = None

    def ans(line):
        return rep[index[line]]

    in_domain = []
    G = None
    MATP = {"aif": "sample_", "csv": "_material_", "xl": "_material_"}
    SECTION = {"csv": ["data", "model"], "aif": ["data", "model"], "xl": []}
    if rep:
        # ---------------------------------------------------------------- A. cast_string vs the Lean model
        for s in strings:
            r, d = ans(f"cast {hx(s)}"), ans(f"dom 2c {hx(s)}")
            real = cast_class(cast_string, s)
            ck.count(("cast", s), bucket="cast_string:" + real.split(":")[0], sample={"string": s, "class": real, "model": r} if len(s) == 3 and s[0] == "1" else None)
            if real != r:
                disagree("Model/TextCodec.castString", {"string": s, "model": r, "implementation": real})
            if r == "int" and real == "int" and s.isascii():
                # the model's `.int digits` carries the TEXT: the value is int(digits), every digit of it (never through a double or a machine integer)
                v = cast_string(s)
                ck.count(("cast-value", s), nontrivial=False, bucket="cast_string: whole number value" + (" beyond 2**53" if int(s) > 2 ** 53 else ""))
                if type(v) is not int or v != int(s):
                    ck.fail_case({"format": "csv", "clause": "whole number is not read back with its value", "beyond_2**53": int(s) > 2 ** 53},
                                 {"text": s, "read_as": repr(v), "expected": int(s), "call": f"pygaps.utilities.string_utilities.cast_string({s!r})"})
            if d == "T":
                in_domain.append(s)
                # theorem-derived prediction: an in-domain text comes back as itself
                if real != "str" or cast_string(s) != s:
                    ck.fail_case({"format": "csv", "clause": "in-domain text is not read back as itself"}, {"text": s, "read_as": real})

        # ---------------------------------------------------------------- A2. _from_list / _to_string
        def seq_real(s):
            try:
                v = _from_list(s)
            except Exception:  # noqa
                return "err", None
            if isinstance(v, list):
                return "list", v
            if isinstance(v, tuple):
                return "tuple", v
            return "scalar", [v]

        def seq_agrees(reply, kind, v):
            f = reply.split(" ")
            if f[0] != kind:
                return False
            if kind == "err":
                return True
            items = f[1:]
            if len(items) != len(v):
                return False
            for it, x in zip(items, v):
                cls, text = it[0], unhx(it[2:])
                if isinstance(x, bool) or not isinstance(x, (int, float)) or cls != ("i" if isinstance(x, int) else "f"):
                    return False
                try:
                    want = int(text) if cls == "i" else float(text)     # the item's value is Python's own reading of the item's text
                except ValueError:
                    return False
                if not (x == want or (x != x and want != want)) or (cls == "f" and math.copysign(1, x) != math.copysign(1, want)):
                    return False
            return True
        for s in seqs:
            kind, v = seq_real(s)
            r = ans(f"seq {hx(s)}")
            ck.count(("seq", s), bucket="_from_list:" + kind, sample={"text": s, "model": r, "implementation": kind} if s in ("(1.5)", "[-3 4]", "[007]") else None)
            if not seq_agrees(r, kind, v):
                disagree("Model/TextCodec.fromList", {"text": s, "model": r, "implementation": [kind, repr(v)[:80]]})
        for xs in values:
            real = _to_string(xs)
            r = unhx(ans("tostr " + ("T" if isinstance(xs, tuple) else "L") + "".join(" " + hx(str(x)) for x in xs)))
            ck.count(("tostr", repr(xs)), bucket="_to_string:" + type(xs).__name__)
            if real != r:
                disagree("Model/TextCodec.toStringSeq", {"value": repr(xs)[:120], "model": r, "implementation": real})
            # theorem-derived prediction (fromList_toString_list / _tuple / _tuple_single) on the real code: finite numbers come back, same types
            try:
                back = _from_list(real)
            except Exception as e:  # noqa
                ck.fail_case({"format": "csv", "clause": "list of numbers is not read back"}, {"value": repr(xs)[:200], "text": real, "error": repr(e)[:200]})
                continue
            want = xs[0] if isinstance(xs, tuple) and len(xs) == 1 else xs
            ok = (type(back) is type(want) or (not isinstance(want, (list, tuple)) and isinstance(back, (int, float)))) and isogen.same_value(
                [float(x) if isinstance(x, (float, np.floating)) else int(x) for x in (want if isinstance(want, (list, tuple)) else [want])],
                list(back) if isinstance(back, (list, tuple)) else [back])
            if not ok:
                ck.fail_case({"format": "csv", "clause": "list of numbers comes back changed"}, {"value": repr(xs)[:200], "text": real, "read_as": repr(back)[:200]})

        # ---------------------------------------------------------------- A3. replace / strip
        for pfx, body in repl:
            ck.count(("removeall", pfx, body), bucket="str.replace")
            if unhx(ans(f"removeall {hx(pfx)} {hx(body)}")) != body.replace(pfx, ""):
                disagree("Model/TextCodec.removeAll", {"prefix": pfx, "text": body, "model": unhx(ans(f"removeall {hx(pfx)} {hx(body)}")), "implementation": body.replace(pfx, "")})
        for s in quoted:
            ck.count(("stripq", s), bucket="str.strip")
            if unhx(ans(f"stripq {hx(s)}")) != s.strip("'"):
                disagree("Model/TextCodec.stripChar", {"text": s, "model": unhx(ans(f"stripq {hx(s)}")), "implementation": s.strip("'")})

        # ---------------------------------------------------------------- A6. generated tables vs the imported objects
        G = {t: _rows(ans(f"tbl {t}"), ty) for t, ty in TBL.items()}
        G["precision"] = int(ans("tbl precision"))
        live = {
            "aifMeta": [(k, v["text"], v["type"].__name__) for k, v in aif_mod._META_DICT.items()],
            "aifMetaOld": [(k, v["text"], v["type"].__name__) for k, v in aif_mod._META_DICT_OLD.items()],
            "aifData": list(aif_mod._DATA_DICT.items()),
            "aifUnits": [(u,) for u in aif_mod._UNITS_DICT],
            "xlMeta": [(k, v["name"], v["text"][0], v["row"], v["column"]) for k, v in xl_mod._META_DICT.items()],
            "versions": [(csv_mod._parser_version, xl_mod._parser_version, aif_mod._parser_version)],
            "precision": parsing_pkg._PARSER_PRECISION,
        }
        for t, want in live.items():
            ck.count(("table", t), bucket="generated table")
            if G[t] != want:
                disagree("Gen/Formats." + t, {"generated": repr(G[t])[:300], "imported": repr(want)[:300]})
        if not (csv_mod._PARSER_PRECISION == aif_mod._PARSER_PRECISION == parsing_pkg._PARSER_PRECISION):
            disagree("Gen/Formats.precision", {"csv": csv_mod._PARSER_PRECISION, "aif": aif_mod._PARSER_PRECISION, "package": parsing_pkg._PARSER_PRECISION})

        # ---------------------------------------------------------------- A4. material keys / AIF keys through the real readers
        base_iso = BaseIsotherm(**BASE_KW)
        base_csv = isotherm_to_csv(base_iso)
        for key in mat_keys["csv"]:
            want = ans(f"mat csv {hx(key)}")
            try:
                d = isotherm_from_csv(base_csv + f"{key},1.5\n").to_dict()
                got = ("prop " + hx([k for k in d["material"] if k != "name"][0])) if isinstance(d["material"], dict) else ("not" if d.get(key) == 1.5 else "lost")
            except KeyError:
                got = "keyerror"
            except Exception as e:  # noqa
                got = "EXC:" + type(e).__name__
            ck.count(("mat", "csv", key), bucket="material key csv:" + got.split(" ")[0])
            if got != want:
                disagree("Model/TextCodec.matRead (csv reader)", {"key": key, "model": want, "implementation": got})
        for key in aif_keys:
            tag_back = ans(f"aifkey {hx(key)}").split(" ")
            k2 = key.replace(" ", "_")
            if tag_back[1] == "~" or unhx(tag_back[1]) != k2:
                disagree("Model/TextCodec.aifKeyDec", {"key": key, "model": tag_back, "expected": k2})
                continue
            want = ans(f"mat aif {hx(k2)}")
            try:
                text = isotherm_to_aif(BaseIsotherm(**BASE_KW, **{key: 1.5}))
                tag_ok = any(ln.split(" ")[0] == unhx(tag_back[0]) for ln in text.splitlines())
                d = isotherm_from_aif(text).to_dict()
                got = ("prop " + hx([k for k in d["material"] if k != "name"][0])) if isinstance(d["material"], dict) else ("not" if d.get(k2) == 1.5 else "lost")
                if not tag_ok:
                    got += " (tag not written)"
            except KeyError:
                got = "keyerror"
            except Exception as e:  # noqa
                got = "EXC:" + type(e).__name__
            ck.count(("aifkey", key), bucket="aif custom key:" + got.split(" ")[0] + (" blank" if " " in key else ""),
                     sample={"key": key, "comes back as": k2, "as": got} if key in ("two words", "sample_x1") else None)
            if got != want:
                disagree("Model/TextCodec.aifKeyEnc/aifKeyDec/matRead (aif writer + reader)", {"key": key, "model": want, "implementation": got})

        # ---------------------------------------------------------------- A5. Excel end-of-table test on crafted workbooks; version gates
        off = G["xlPoint"][0][5] if G["xlPoint"] else 1
        for j, p_ in enumerate(patterns):
            want = ans(f"xlcount row {p_}")
            path = os.path.join(tmpdir, f"craft{j}.xls")
            try:
                _craft_xls(path, xl_mod._META_DICT, p_, off)
                got = str(len(isotherm_from_xl(path).data_raw))
            except Exception as e:  # noqa
                got = "EXC:" + type(e).__name__
            ck.count(("xlcount", p_), bucket="excel rows read", sample={"pressure cells": p_, "rows read": got} if p_ in ("nzn", "nen") else None)
            if got != want:
                disagree("Model/TextCodec.xlCount (excel reader, crafted workbook)", {"pressure column": p_ + " (n number, z zero, e empty)", "model rows": want, "implementation": got})
        aif_text = isotherm_to_aif(base_iso)
        for fmt, ws in versions.items():
            for w in ws:
                want = ans(f"gate {fmt} {hx(w)}")
                with _Warnings(pg.logger) as rec:
                    try:
                        if fmt == "csv":
                            isotherm_from_csv(base_csv.replace(f"file_version,{csv_mod._parser_version}\n", f"file_version,{w}\n"))
                        else:
                            isotherm_from_aif(aif_text.replace(f"_audit_aif_version {aif_mod._parser_version}\n", f"_audit_aif_version {w}\n"))
                        got = "warn" if any("version" in m for m in rec.seen) else "ok"
                    except Exception as e:  # noqa
                        got = "raise" if isinstance(e, (ValueError, TypeError)) else "EXC:" + type(e).__name__
                ck.count(("gate", fmt, w), bucket=f"version gate {fmt}:{got}")
                if got != want:
                    disagree(f"Model/TextCodec.gateWarns ({fmt} reader)", {"written version": w, "model": want, "implementation": got})
        # ---------------------------------------------------------------- A7. old AIF tags (`_META_DICT_OLD`): a foreign document of another version
        for tag, key, ty in G["aifMetaOld"]:
            val = "1.25" if ty == "float" else "oldval"
            cur = [t for t, k, _ in G["aifMeta"] if k == key]
            doc = "".join(ln + "\n" for ln in aif_text.splitlines() if ln.split(" ")[0] not in cur)
            doc = doc.replace(f"_audit_aif_version {aif_mod._parser_version}\n", "_audit_aif_version x\n") + f"{tag} '{val}'\n"
            try:
                got = isotherm_from_aif(doc).to_dict().get(key, "<absent>")
            except Exception as e:  # noqa
                got = "EXC:" + type(e).__name__
            ck.count(("aif old tag", tag), bucket="aif old tag")
            if got != (1.25 if ty == "float" else "oldval"):
                disagree("Gen/Formats.aifMetaOld (aif reader on a document of another version)", {"tag": tag, "table says key": key, "type": ty, "read as": repr(got)[:80]})
        # ---------------------------------------------------------------- A8. the metadata line codec against the CSV reader (one crafted line after a minimal document)
        stops = tuple(G["csvStops"][0]) if G.get("csvStops") else ("data", "model")
        base_docs = {}
        for sep in LINE_SEPS:
            try:
                doc = isotherm_to_csv(base_iso, separator=sep)
                if isotherm_from_csv(doc, separator=sep).to_dict() == base_iso.to_dict():
                    base_docs[sep] = doc
            except Exception:  # noqa
                pass
        if "," not in base_docs:
            disagree("Model/TextCodec.decodeLine (csv reader)", {"what": "the minimal document does not come back with the default separator"})
        taken = set(base_iso.to_dict()) | {"file_version"}
        for sep, line in line_cases:
            want = ans(f"line {hx(sep)} {hx(line)}")
            key = unhx(want.split(" ")[1]) if want.startswith("ok ") else None
            # outside the line codec: the loop's own stop test, keys the document already has, the material-property prefix
            if sep not in base_docs or line.rstrip().startswith(stops) or line.strip().startswith(stops) or (key is not None and (key in taken or key.startswith(MATP["csv"] if G.get("aifPrefixes") is None else G["aifPrefixes"][0][3]))):
                continue
            if key is not None:
                try:
                    val = cast_string(unhx(want.split(" ")[2]))
                    want = "ok " + repr(key) + " " + repr(val)
                except Exception:  # noqa
                    want = "refused"        # the value is a list-like text that `_from_list` rejects: wrapped into a ParsingError
            try:
                d = isotherm_from_csv(base_docs[sep] + line + "\n", separator=sep).to_dict()
                got = ("ok " + repr(key) + " " + repr(d[key])) if key is not None and key in d else "accepted: " + repr({k: v for k, v in d.items() if k not in taken})[:120]
            except pgError:
                got = "refused"
            except Exception as e:  # noqa
                got = "EXC:" + type(e).__name__
            ck.count(("line", sep, line), bucket="csv metadata line:" + got.split(" ")[0].rstrip(":") + (":trailing separator" if line.strip().endswith(sep) else ""),
                     sample={"separator": sep, "line": line, "reader": got} if line.strip().endswith(sep) and len(line) < 12 else None)
            if got != want:
                disagree("Model/TextCodec.decodeLine (csv reader, crafted document)", {"separator": sep, "line": line, "model": want, "implementation": got})
        # ---------------------------------------------------------------- A9. the metadata loop against the CSV reader (several crafted lines after a minimal document)
        for sep, ls in block_cases:
            if sep not in base_docs:
                continue
            want = ans("meta " + hx(sep) + "".join(" " + hx(x) for x in ls))
            if want.startswith("read"):
                f = want.split(" ")
                exp = {}
                try:
                    for item in f[2:]:
                        k_, v_ = item.split("=")
                        exp[unhx(k_)] = cast_string(unhx(v_))
                    want = "read " + repr(exp)
                except Exception:  # noqa
                    want = "refused"
            try:
                d = isotherm_from_csv(base_docs[sep] + "".join(x + "\n" for x in ls), separator=sep).to_dict()
                got = "read " + repr({k: v for k, v in d.items() if k not in taken})
            except pgError:
                got = "refused"
            except Exception as e:  # noqa
                got = "EXC:" + type(e).__name__
            ck.count(("block", sep, ls), bucket="csv metadata block:" + got.split(" ")[0])
            if got != want:
                disagree("Model/TextCodec.readMeta (csv reader, crafted document)", {"separator": sep, "lines": list(ls), "model": want, "implementation": got})
    texts = [s for s in in_domain if s.isprintable() and "'" not in s and '"' not in s and ";" not in s and "#" not in s and "_" != s[:1] and "$" not in s] or ["plain"]
    tol = 0.5e-8        # the DOCUMENTED precision of the property statement (8 decimals); that the code's precision is 8 is theorem precision_is_eight_decimals

    # ------------------------------------------------------------------ B. full round trips
    # texts the formats themselves use at the start of a key, from the GENERATED tables (Gen/Formats); the literals only when the driver is down
    if G is not None and G.get("aifPrefixes") and G.get("csvStops") and G.get("aifDispatch"):
        MATP = {"aif": G["aifPrefixes"][0][2], "csv": G["aifPrefixes"][0][3], "xl": G["aifPrefixes"][0][4]}
        SECTION = {"csv": list(G["csvStops"][0]), "aif": list(G["aifDispatch"][0]), "xl": []}
    n = ck.n(90, 400)
    try:
        for i in range(n):
            c = isogen.content(rng, domain="text")
            _strengthen(rng, c)
            # metadata from the format domain: in-domain text (from the Lean predicate), non-negative ints, floats, bools
            meta = {}
            # (AIF declares `user`, `date`, `instrument`, `material_batch` as text and `material_mass`, `activation_temperature` as numbers: not used as free keys)
            for k in rng.sample(["project", "operator2", "machine", "lab", "t_act", "comment", "DOI", "is_real", "n_runs"], rng.randint(0, 5)):
                r = rng.random()
                meta[k] = (rng.choice(texts) if r < 0.4 else _whole_number(rng) if r < 0.55 else
                           round(rng.uniform(-50, 500), rng.randint(1, 6)) if r < 0.72 else rng.choice(isogen.TEXT_FLOATS) if r < 0.8 else (rng.random() < 0.5))
            c["meta"] = meta
            # at most ONE of: a value outside the format's value domain / a metadata key of a special class / material properties with special names
            odd = special_key = None
            r = rng.random()
            if r < 0.4:
                odd = rng.choice([("negative int", -rng.randint(1, 99)), ("none", None), ("list of numbers", [1, 2.5, 3]), ("list of text", ["a", "b"]),
                                  ("text with separator", "a,b"), ("padded text", " padded "), ("number-like text", "1e5"), ("bool-like text", "True"),
                                  ("none-like text", "None"), ("empty text", ""), ("text with quote", "it's"), ("text with blank", "two words")])
                c["meta"]["odd_one"] = odd[1]
            elif r < 0.62:
                # keys inside the stated key domain (no separator, no blank) that begin with a text the format itself uses: the section
                # prefixes of the CSV reader / the dispatch prefixes of the AIF reader (`dataset`, `model_x`), a material-property prefix
                # (`sample_weight`, `_material_q`).  Written LAST, so that it is the last metadata line of a document.
                pfx = rng.choice(sorted(set(SECTION["csv"] + SECTION["aif"])) + sorted(set(MATP.values())))
                special_key = pfx + rng.choice(MAT_TAILS if pfx in MATP.values() else ["set", "_source", "_x", "ling", "_type", "X1", "um"])
                if special_key in isogen.RESERVED or special_key in c["meta"] or special_key in c["material_props"]:
                    special_key = None
                else:
                    c["meta"][special_key] = rng.choice(texts) if rng.random() < 0.4 else round(rng.uniform(-50, 500), rng.randint(1, 6))
            elif r < 0.82:
                # material properties under names of the whole name domain (no separator, no blank): plain ones and names that contain a
                # material-property prefix of one of the formats at the start, inside or at the end
                props = {}
                for _ in range(rng.choice([1, 1, 2, 3])):
                    P = rng.choice(sorted(set(MATP.values())))
                    name = rng.choice(["pore_size", "form", "BET-area", "lot.7", "a" + P + "b", "x" + P, P + "q", P + P + "z", P[1:] + "k", "a" + P[:-1], "Q" + P + "r" + P])
                    props[name] = rng.choice(texts) if rng.random() < 0.3 else round(rng.uniform(0.1, 900), rng.randint(1, 5)) if rng.random() < 0.7 else rng.choice(isogen.TEXT_FLOATS) if rng.random() < 0.4 else (rng.random() < 0.5)
                c["material_props"] = props
            # a float negative zero, in every run, as a metadata value and as a material-property value (no draw from rng: the rest of the stream is the same
            # with and without it).  CSV / AIF spell it "-0.0" and read it back with its sign; Excel returns 0.0 (S55-C07-xlnegzero)
            if i % 15 == 3:
                c["meta"]["baseline"] = -0.0
            elif i % 15 == 8:
                c["material_props"] = {**c["material_props"], "offset": -0.0}
            # a whole number ABOVE the float maximum (float(v) overflows), in every run, as a metadata value and as a material-property value (no draw from rng).
            # CSV / AIF write the digits and read them back exactly; Excel cells are doubles: xlwt's OverflowError escapes from isotherm_to_xl (S64-C07)
            if i % 15 == 5:
                c["meta"]["serial"] = HUGE_INTS[(i // 15) % len(HUGE_INTS)]
            elif i % 15 == 11:
                c["material_props"] = {**c["material_props"], "lot": HUGE_INTS[(i // 15) % len(HUGE_INTS)]}
            try:
                iso = _build(pg, c)
            except Exception:
                ck.count(("build-refused", i), nontrivial=False, bucket="construction refused")
                continue
            before = isogen.observe(pg, iso)
            for fmt in ("csv", "xl", "aif"):
                sig = {"format": fmt, "class": c["kind"], "odd_value": odd[0] if odd else None}
                kcls = _key_class(fmt, special_key, SECTION, MATP) if special_key else None
                if special_key:
                    sig["key_class"] = kcls or "plain in this format"
                if c["material_props"]:
                    sig["material_prop_class"] = "contains the format's prefix" if any(MATP[fmt] in k for k in c["material_props"]) else "plain"
                section_key = bool(kcls) and kcls.startswith("section prefix")
                # an isotherm whose last metadata key begins with a section / dispatch prefix of this format: whatever goes wrong is ONE case
                sec_sig = {"format": fmt, "class": c["kind"], "key_class": kcls, "clause": "isotherm with a metadata key of this class does not come back"}
                if c["kind"] == "point":
                    br = c["branch"]
                    sig["interleaved_marks"] = any(b < a for a, b in zip(br, br[1:]))
                target = rng.choice(["string", "file"]) if fmt != "xl" else "file"
                doc = None
                try:
                    if fmt == "csv":
                        if target == "file":
                            p = os.path.join(tmpdir, f"i{i}.csv")
                            isotherm_to_csv(iso, p)
                            back = isotherm_from_csv(p)
                            doc = open(p, encoding="utf-8").read()
                        else:
                            doc = isotherm_to_csv(iso)
                            back = isotherm_from_csv(doc)
                    elif fmt == "xl":
                        p = os.path.join(tmpdir, f"i{i}.xls")
                        isotherm_to_xl(iso, p)
                        doc = p
                        back = isotherm_from_xl(p)
                    else:
                        if target == "file":
                            p = os.path.join(tmpdir, f"i{i}.aif")
                            isotherm_to_aif(iso, p)
                            back = isotherm_from_aif(p)
                            doc = open(p, encoding="utf-8").read()
                        else:
                            doc = isotherm_to_aif(iso)
                            back = isotherm_from_aif(doc)
                except pgError as e:
                    ck.count((fmt, c["kind"], i), bucket=f"{fmt}:{c['kind']}:refused" + (":" + kcls if kcls else ""))
                    if section_key:
                        ck.fail_case(sec_sig, {"outcome": "refused", "key": special_key, "error": repr(e)[:300], "meta": _js(c["meta"]), "content": _content(c)})
                    elif odd is None:
                        ck.fail_case({**sig, "clause": "in-domain isotherm refused", "error": type(e).__name__}, {"error": repr(e)[:300], "meta": _js(c["meta"]), "content": _content(c)})
                    continue
                except Exception as e:  # noqa
                    ck.count((fmt, c["kind"], i), bucket=f"{fmt}:{c['kind']}:raised" + (":" + kcls if kcls else ""))
                    if section_key:
                        ck.fail_case(sec_sig, {"outcome": "raises " + type(e).__name__, "key": special_key, "error": repr(e)[:300], "meta": _js(c["meta"]), "content": _content(c)})
                    elif _has_huge(c) and isinstance(e, OverflowError) and _raised_in(e) == f"isotherm_to_{fmt}":
                        # the value cannot be a cell / a double: a refusal, but the library's own OverflowError.  Only this error, raised under the WRITER,
                        # for a content that holds such a number: any other error, or this error for numbers a double can hold, keeps the usual signature
                        ck.count((fmt, c["kind"], i, "huge"), nontrivial=False, bucket=f"whole number above the float maximum {fmt}: OverflowError at export")
                        ck.fail_case({"format": fmt, "class": c["kind"], "clause": "refusal is not a pyGAPS error", "value_class": "int above the float maximum",
                                      "error": "OverflowError", "raised_in": _raised_in(e)},
                                     {"error": repr(e)[:300], "meta": _js(c["meta"]), "material_props": _js(c["material_props"]), "content": _content(c)})
                    else:
                        ck.fail_case({**sig, "clause": "refusal is not a pyGAPS error" if odd else "in-domain isotherm raises", "error": type(e).__name__},
                                     {"error": repr(e)[:300], "meta": _js(c["meta"]), "content": _content(c)})
                    continue
                after = isogen.observe(pg, back)
                ck.count((fmt, c["kind"], i), bucket=f"{fmt}:{c['kind']}:ok" + (":fitted" if c.get("fitted") else "") + (":zeros" if c.get("zeros") else "") +
                         (":" + kcls if kcls else "") + (":props " + sig["material_prop_class"] if c["material_props"] and "prefix" in sig["material_prop_class"] else ""),
                         sample={"format": fmt, "class": c["kind"], "metadata": _js(c["meta"])} if i % 41 == 0 else None)
                diffs = _diff(before, after, fmt, tol)
                captured = False
                if section_key and any(w in (f"metadata key {special_key!r}", f"metadata {special_key!r}") for w, *_ in diffs):
                    ck.fail_case(sec_sig, {"outcome": "comes back changed", "key": special_key, "differences": [[w, a, b] for w, a, b, _ in diffs[:6]], "class read": after["class"],
                                           "meta": _js(c["meta"]), "content": _content(c)})
                    continue
                if diffs and kcls == "material prefix":
                    # exactly this and nothing else: the key is gone and its value is the material property <rest of the key>
                    want = dict(before, dict=dict(before["dict"]))
                    val = want["dict"].pop(special_key)
                    mat = want["dict"]["material"]
                    want["dict"]["material"] = {**(mat if isinstance(mat, dict) else {"name": mat}), special_key[len(MATP[fmt]):]: val}
                    rest = _diff(want, after, fmt, tol)
                    if not any(w in (f"metadata key {special_key!r}", f"metadata {special_key!r}", "metadata key 'material'", "metadata 'material'") for w, *_ in rest):
                        ck.fail_case({"format": fmt, "key_class": kcls, "clause": "metadata key silently becomes a material property"},
                                     {"key": special_key, "value": _js(val), "material exported": _js(mat), "material imported": _js(after["dict"]["material"]), "content": _content(c)})
                        diffs, captured = rest, True        # whatever else differs is reported on its own
                for where, a, b, vclass in diffs[:6]:
                    xsig = {}
                    if fmt == "xl" and vclass == "int" and where.startswith("metadata '"):
                        # S18-xl-int: an Excel cell is a double.  Recorded is exactly this: the imported value is float(exported) - for |v| <= 2**53 the same
                        # number as a float (27 -> 27.0), beyond it the nearest double (2**53 + 1 -> 9007199254740992.0, digits lost).  Anything else is reported.
                        try:
                            k_ = ast.literal_eval(where[len("metadata "):])
                            va_, vb_ = before["dict"][k_], after["dict"][k_]
                            xsig["imported"] = "float(exported)" if type(vb_) is float and vb_ == float(va_) else "another value"
                            ck.count((fmt, c["kind"], i, k_, "xlint"), nontrivial=False,
                                     bucket="xl integer metadata: " + ("beyond 2**53, nearest double" if abs(va_) > 2 ** 53 else "same number as a float") if xsig["imported"] == "float(exported)" else "xl integer metadata: another value")
                        except Exception:  # noqa
                            xsig["imported"] = "not comparable"
                    ck.fail_case({**sig, **xsig, "clause": "silently changed" if where.startswith("metadata") and odd and "odd_one" in where else "round trip differs",
                                  "where": where.split(" ")[0], "value_class": vclass}, {"where": where, "exported": a, "imported": b, "meta": _js(c["meta"]), "content": _content(c)})
                if not diffs and not captured and back.iso_id != iso.iso_id:
                    idsig = dict(sig)
                    if _has_negzero(c):
                        ck.count((fmt, c["kind"], i, "negzero-id"), nontrivial=False, bucket=f"negative zero value {fmt}: identifier differs")
                        try:
                            # the zero lost its sign and NOTHING else: the same content with +0.0 has the identifier of the imported isotherm
                            if _build(pg, _without_negzero(c)).iso_id == back.iso_id:
                                idsig["negative_zero_value"] = True
                        except Exception:  # noqa
                            pass
                    ck.fail_case({**idsig, "clause": "identifier differs although content is equal"},
                                 {"ids": [iso.iso_id, back.iso_id], "meta": _js(c["meta"]), "material_props": _js(c["material_props"]), "content": _content(c)})
                elif not diffs and not captured and _has_negzero(c):
                    ck.count((fmt, c["kind"], i, "negzero"), nontrivial=False, bucket=f"negative zero value {fmt}: comes back with its sign (identifier equal)")
                # the document the real writer produced has the structure the generated tables describe (ties Gen/Formats to the writers)
                if G is not None and doc is not None:
                    try:
                        bad = _structure(fmt, doc, iso, c, G, _to_string)
                    except Exception as e:  # noqa
                        bad = f"could not inspect the document: {e!r}"[:300]
                    ck.count((fmt, c["kind"], i, "structure"), nontrivial=False, bucket=f"document structure {fmt}")
                    if bad:
                        disagree(f"Gen/Formats vs the document written by isotherm_to_{fmt}", {"class": c["kind"], "what": bad})
        # -------------------------------------------------------------- B2. whole numbers of every magnitude as metadata AND material-property values (CSV, AIF)
        # (Excel returns every whole number as a float - recorded S18-xl-int, generated for metadata in stream B -, so a material property that is an integer stays out there)
        for i in range(ck.n(45, 300)):
            c = isogen.content(rng, domain="text")
            c["meta"] = {k: _whole_number(rng, big=True) for k in rng.sample(["stamp_ns", "serial", "n_runs", "barcode"], rng.randint(1, 2))}
            if rng.random() < 0.6:
                c["material_props"] = {**c["material_props"], rng.choice(["lot", "sample_nr"]): _whole_number(rng, big=True)}
            try:
                iso = _build(pg, c)
            except Exception:
                ck.count(("b2-build-refused", i), nontrivial=False, bucket="construction refused")
                continue
            before = isogen.observe(pg, iso)
            for fmt in ("csv", "aif"):
                target, sep = rng.choice(["string", "file"]), (rng.choice([",", ",", ";", "\t", "|"]) if fmt == "csv" else None)
                sig = {"format": fmt, "class": c["kind"], "odd_value": None}
                if c["kind"] == "point":
                    sig["interleaved_marks"] = any(y < x for x, y in zip(c["branch"], c["branch"][1:]))
                try:
                    p = os.path.join(tmpdir, f"w{i}.{fmt}") if target == "file" else None
                    if fmt == "csv":
                        doc = isotherm_to_csv(iso, p, separator=sep)
                        back = isotherm_from_csv(p if p else doc, separator=sep)
                    else:
                        doc = isotherm_to_aif(iso, p)
                        back = isotherm_from_aif(p if p else doc)
                except Exception as e:  # noqa
                    ck.count((fmt, c["kind"], i, "b2"), bucket=f"whole numbers {fmt}:{c['kind']}:refused")
                    ck.fail_case({**sig, "clause": "in-domain isotherm refused" if isinstance(e, pgError) else "in-domain isotherm raises", "error": type(e).__name__},
                                 {"error": repr(e)[:300], "meta": _js(c["meta"]), "content": _content(c)})
                    continue
                after = isogen.observe(pg, back)
                ck.count((fmt, c["kind"], i, "b2"), bucket=f"whole numbers {fmt}:{c['kind']}:ok" + (":material property" if any(isinstance(v, int) and not isinstance(v, bool) for v in c["material_props"].values()) else ""))
                diffs = _diff(before, after, fmt, tol)
                for where, a, b, vclass in diffs[:6]:
                    ck.fail_case({**sig, "clause": "round trip differs", "where": where.split(" ")[0], "value_class": vclass},
                                 {"where": where, "exported": a, "imported": b, "target": target, "separator": sep, "meta": _js(c["meta"]), "content": _content(c)})
                if not diffs and back.iso_id != iso.iso_id:
                    ck.fail_case({**sig, "clause": "identifier differs although content is equal"},
                                 {"ids": [iso.iso_id, back.iso_id], "meta": _js(c["meta"]), "material_props": _js(c["material_props"]), "content": _content(c)})
        # -------------------------------------------------------------- C. texts the formats may not be able to carry: refused or equal, never different
        _ood_stream(ck, pg, tmpdir, texts, SECTION, MATP, tol,
                    dict(to_csv=isotherm_to_csv, from_csv=isotherm_from_csv, to_xl=isotherm_to_xl, from_xl=isotherm_from_xl, to_aif=isotherm_to_aif, from_aif=isotherm_from_aif, pgError=pgError))
    finally:
        for f in os.listdir(tmpdir):
            os.remove(os.path.join(tmpdir, f))
        os.rmdir(tmpdir)
    ck.cov["correspondence_disagreements"] = n_dis
    ck.cov["in_domain_texts"] = len(in_domain)
    ck.cov["rule"] = ("A: grammar-directed and random strings over the model alphabet (number / near-number / none / bool / list spellings, blanks, separators, non-ASCII letters) through cast_string vs the Lean classes; "
                      "decimal spellings of whole numbers of every magnitude (2**53±1, 2**63, 2**64, 2**100, 10**15…10**24 ± small, time_ns stamps, random 50-90 bit numbers) whose VALUE must be int(digits) exactly; "
                      "bracketed texts over the numeric alphabet through _from_list, lists / tuples of ints and floats through _to_string and back; str.replace / str.strip; material-property and custom keys through the "
                      "CSV reader and the AIF writer + reader on minimal documents; pressure columns with zeros and gaps in workbooks written with xlwt through the Excel reader; version texts through the gates; "
                      "generated tables against the imported objects and against the documents the writers produce; "
                      "B: three formats x three classes x seeded unit configurations x data shapes (1-13 points, ads-only / two-branch / des-only / user marks, numeric extra columns, zeros at any position of any column, "
                      "zero and negative temperatures, every model with given ranges and models fitted on data) with metadata from the format domain "
                      "(in-domain text as decided by the Lean predicate, non-negative ints, floats - a negative zero as metadata value and as material-property value in every run -, bools) plus AT MOST ONE of: an out-of-domain value (40 %), a last metadata key that begins with a section / dispatch prefix "
                      "or a material-property prefix of a format, taken from the generated tables (22 %), material properties whose names contain such a prefix at the start / inside / at the end (20 %); "
                      "string and file targets; distinct = (format, class, content); whole-number metadata of every magnitude up to the float maximum (35 % of the integer draws beyond 10**9, up to 2**1023 + d, see _whole_number; compared exactly; "
                      "Excel: recorded S18-xl-int only when the imported value is exactly float(exported), signature key `imported`), and in every run a whole number ABOVE the float maximum (HUGE_INTS: 10**400, 2**1024, 2**1024-1, …) "
                      "as a metadata value and as a material-property value through all three formats (CSV / AIF carry it; Excel: xlwt's OverflowError under isotherm_to_xl, recorded S64-C07); "
                      "point isotherms built from a DataFrame whose ROW LABELS are not 0..n-1 in half of the point cases (shifted, one-based, iloc[::2] slice, boolean filter, text, reversed, permuted, float, far numbers: "
                      "same points / marks / order, the constructor keeps the labels in data_raw); "
                      "B2: CSV (five separators, string and file) and AIF x three classes with whole numbers of every magnitude as metadata values and as material-property values; "
                      "C: one format-significant character (, ; tab | newline CR quotes blank brackets = # _ $ : \\ and other punctuation; the separator in use and the format's own characters in every run, "
                      "the rest sampled) at one position class (start, middle, end, repeated at the end / start / inside, alone, alone repeated, both ends, several, wrapped in a pair) of a plain text used as "
                      "metadata value / metadata key / material name / material-property value / material-property name, x CSV under separators , ; tab | (string and file), AIF (string), Excel x three classes "
                      "with seeded units and data; oracle: refused with a pyGAPS error or equal; the regions of the recorded findings S55-C07a…e are generated (signature key `region`, counted in `C region …`), "
                      "keys / property names with a blank character where the unchanged tree loses it are outside the stated key domain (`_ood_region`, counted in `C outside: …`)")
    ck.assumptions += ["gemmi.cif, xlrd/xlwt, pandas.read_csv/to_csv are exercised by the round trips only", "digits of non-ASCII scripts are outside the model alphabet",
                       "_from_list is modelled on flat sequences of numeric literals over digits, sign, '.', 'e', '_' (nested sequences, quoted text, complex / hex literals outside)",
                       "special metadata keys: prefix + a tail of letters / digits / underscore, never a name the format writes itself (`model_name`, `data0`); their values and the values of the special material "
                       "properties are in-domain text, floats or booleans (integers come back as floats from Excel: S18-xl-int)",
                       "stream C leaves out (outside the stated key domain 'keys without separator or blank', see `_ood_region`): CSV keys beginning with a blank character, CSV keys with a line break "
                       "after which no line is refused, AIF keys / property names with a blank or ending in a blank character; the value regions of the former candidates C1, C2, C5, C6 are generated "
                       "(recorded S55-C07a…e), AIF file targets are generated (C4, repaired: S55-C07f)",
                       "an integer material property a double can hold is not sent through Excel (comes back as a float, S18-xl-int family; integer METADATA goes through Excel and is matched by S18-xl-int "
                       "when it comes back as float(exported), beyond 2**53 with lost digits; whole numbers above the float maximum go through Excel as metadata and as material property: S64-C07); "
                       "duplicated row labels are not generated",
                       "material-property names and metadata keys with a blank are outside the stated key domain (AIF writes them with underscores: theorem aifKey_blank_changed; tied in step A4)"]


MAT_TAILS = ["weight", "q", "lot7", "x_y"]

# ---------------------------------------------------------------------------------------------------------------------------------------------------
# stream C: the last sentence of the property.  "A value the format cannot carry is refused with a pyGAPS error at export or import, never silently
# changed": a text is built by putting ONE character that some format gives a meaning to at one POSITION CLASS of an otherwise plain text, and is used
# as a metadata value, a metadata key, the material name, a material-property value or a material-property name of an isotherm of each class, which is
# sent through each format (CSV under four separators).  Oracle: a pyGAPS error, or an isotherm equal to the exported one.
SIG_CHARS = ",;\t|\n\r\"' []()=#_$:\\{}&<>?*!%@~^/`"
CHAR_NAMES = {",": "comma", ";": "semicolon", "\t": "tab", "|": "bar", "\n": "newline", "\r": "carriage return", '"': "double quote", "'": "single quote", " ": "blank",
              "[": "square bracket", "]": "square bracket", "(": "round bracket", ")": "round bracket", "{": "brace", "}": "brace", "=": "equals", "#": "hash", "_": "underscore",
              "$": "dollar", ":": "colon", "\\": "backslash"}
POSITIONS = ["start", "middle", "end", "end repeated", "alone", "start repeated", "both ends", "alone repeated", "middle repeated", "several", "wrapped", "injected line",
             "injected section line"]
WRAPS = ["[]", "()", "{}", '""', "''", "<>"]
OOD_TARGETS = ["metadata value", "metadata key", "material name", "material property value", "material property name"]
OOD_FORMATS = [("csv", ","), ("csv", ";"), ("csv", "\t"), ("csv", "|"), ("aif", None), ("xl", None)]
OOD_BODIES = ["ab", "see notes", "batch 7", "Zr-MOF", "µm x", "q", "lot.7b", "x1", "é"]
OOD_KEY_BODIES = ["kx", "note", "q7", "lot.7b", "Zr-MOF", "ab", "x1"]


def _ood_place(rng, c, pos, bodies, sep=",", stops=(), key_bodies=OOD_KEY_BODIES):
    a, b = rng.choice(bodies), rng.choice(bodies)
    if pos == "wrapped":
        own = [w for w in WRAPS if c in w]       # the pair the character belongs to (so that the format's own pairs are wrapped around a text in every run), else any
        w = rng.choice(own or WRAPS)
        return w[0] + a + w[1]
    if pos == "injected line":              # the character, then a text that reads as a `key<sep>value` line of the format
        return a + c + rng.choice(key_bodies) + (sep or ",") + b
    if pos == "injected section line":      # the character, then a text that begins like a section header of the CSV format (generated table)
        return a + c + rng.choice(list(stops) or ["data"]) + rng.choice(["set", "_x", "ling", ""])
    return {"start": c + a, "middle": a + c + b, "end": a + c, "end repeated": a + c * rng.choice([2, 2, 3]), "alone": c, "start repeated": c + c + a, "both ends": c + a + c,
            "alone repeated": c + c, "middle repeated": a + c + c + b, "several": a + c + b + c + a}[pos]


def _csv_lines_silent(first, rest, sep, stops):
    """what the CSV reader's metadata loop does with a text that spans several lines: None when some line is refused; else how the text is read as something else:
    'cut' (an empty line ends the metadata: the rest of the document is dropped), 'section' (a line beginning with a section prefix sends the rest of the document
    to the table / model reader), 'lines' (every further line reads as `key<sep>value`)"""
    if first.strip().count(sep) != 1:
        return None
    for seg in rest:
        seg = seg.strip()
        if seg == "":
            return "cut"
        if seg.startswith(stops):
            return "section"
        if seg.count(sep) != 1:
            return None
    return "lines"


# Regions of stream C where the UNCHANGED tree does not answer "refused with a pyGAPS error, or equal" (measured; triaged by T2-C07, probes/agent_notes/T2-C07.md).
#   RECORDED: a finding of known_findings.json.  The region is generated; the failing case carries `region` in its signature, and only when the outcome is the one the
#             defect predicts (`_ood_predicted`): anything else in the same region is reported without the region key, i.e. as a violation.
#   OUTSIDE:  not a violation of C07 as written — the quantifier restricts CSV / AIF keys to "keys without separator or blank" and the last sentence of the statement
#             speaks of VALUES; a metadata key or material-property name (written as part of a key, T-C07 D4) with a blank character at a place where the unchanged tree
#             loses it stays out of the stream (counted in `C outside: …`).
R_CSV_TRAIL = "csv: value ends in a blank character"                                   # S55-C07a (generalises S18-csv-padded: blank, tab, CR)
R_CSV_BREAK = "csv: line break in a value, no line refused"                            # S55-C07b
R_CSV_SECTION = "csv: line break in a value, next line begins with a section prefix"   # S55-C07c
R_AIF_QUOTE = "aif: value begins or ends with the quote character"                     # S55-C07d
R_AIF_BRACKET = "aif: bracketed text"                                                  # S55-C07e
OUT_CSV_KEY_LEAD = "csv: key begins with a blank character (outside the key domain: keys without blank)"
OUT_CSV_KEY_BREAK = "csv: line break in a key, no line refused (outside the key domain: keys without blank)"
OUT_AIF_KEY = "aif: key with a blank / ending in a blank character (outside the key domain: keys without blank)"


def _line_breaks(fmt, target_file):
    """characters that end a line when the document is read back: a file is opened with universal newlines, a string is split at newline only"""
    return "\n\r" if (fmt == "csv" and target_file) else "\n"


def _ood_region(fmt, sep, target, t, target_file, stops, matp):
    """('recorded' | 'outside', label) or (None, None)"""
    import re
    vlike = target in ("metadata value", "material name", "material property value")
    if fmt == "csv":
        segs = re.split("[" + _line_breaks(fmt, target_file) + "]", t)
        if vlike:
            # C2: a line break inside a value followed by an empty line, a `data…` / `model…` line or `key<sep>value` lines: no line is refused, the rest of the DOCUMENT is
            # dropped ('ab\n': a PointIsotherm comes back as a BaseIsotherm), handed to the table / model reader, or read as further metadata ('ab\ncd,ef': new key cd)
            how = _csv_lines_silent("k" + sep + segs[0], segs[1:], sep, stops) if len(segs) > 1 else None
            if how is not None:
                return "recorded", (R_CSV_SECTION if how == "section" else R_CSV_BREAK)
            # C1 (and S18-csv-padded): `line.rstrip()` / `line.strip()` remove every trailing blank character: 'ab\t' -> 'ab', '\t' -> None — never refused
            if len(segs) == 1 and t != t.rstrip():
                return "recorded", R_CSV_TRAIL
        else:
            # C3: a metadata key that begins with a blank character comes back without it (' ab' -> 'ab', '\tab' -> 'ab'; '\nab': key lost, document cut)
            if target == "metadata key" and t != t.lstrip():
                return "outside", OUT_CSV_KEY_LEAD
            pre = matp["csv"] if target == "material property name" else ""
            if len(segs) > 1 and _csv_lines_silent(pre + segs[0], segs[1:-1] + [segs[-1] + sep + "v"], sep, stops) is not None:
                return "outside", OUT_CSV_KEY_BREAK
    if fmt == "aif":
        # C5: the writer quotes with ' and the reader strips EVERY ' at both ends: "'ab" -> 'ab', "ab''" -> 'ab', "'" -> None (Lean: stripChar_quote_roundtrip_iff)
        if vlike and (t[:1] == "'" or t[-1:] == "'"):
            return "recorded", R_AIF_QUOTE
        # C6 (same call as S18-aif-list-text): a text in square brackets that is not a list of numbers: ast.literal_eval's ValueError / SyntaxError escapes from _from_list
        if vlike and t[:1] == "[" and t[-1:] == "]":
            return "recorded", R_AIF_BRACKET
        # blanks in keys / property names become underscores (T-C07 D4); C7: a key or property name that ENDS in a tab, carriage return or newline comes back without it
        if not vlike and (" " in t or t != t.rstrip()):
            return "outside", OUT_AIF_KEY
    return None, None


def _ood_set(obs, target, value):
    """copy of an observation with the text of the target replaced"""
    d = dict(obs["dict"])
    mat = d["material"]
    if target == "metadata value":
        d["comment"] = value
    elif target == "material name":
        d["material"] = {**mat, "name": value} if isinstance(mat, dict) else value
    elif target == "material property value":
        d["material"] = {**mat, "form": value}
    return dict(obs, dict=d)


def _ood_get(obs, target):
    d = obs["dict"]
    mat = d.get("material")
    if target == "metadata value":
        return d.get("comment", "<absent>")
    if target == "material name":
        return mat.get("name", "<absent>") if isinstance(mat, dict) else mat
    return mat.get("form", "<absent>") if isinstance(mat, dict) else "<absent>"


def _ood_predicted(region, fmt, sep, target, t, target_file, before, after, tol):
    """True when the imported isotherm is what the recorded defect of this region makes of the exported one — and nothing else differs"""
    import re
    none_if_empty = (lambda e: e if e != "" else None) if not (fmt == "aif" and target == "material name") else (lambda e: e)
    if region == R_CSV_TRAIL:
        return not _diff(_ood_set(before, target, none_if_empty(t.rstrip())), after, fmt, tol)
    if region == R_AIF_QUOTE:
        return not _diff(_ood_set(before, target, none_if_empty(t.strip("'"))), after, fmt, tol)
    if region == R_CSV_BREAK:
        # the first line keeps its text; what follows the broken line in the document may be lost (the material properties are written last, the data / model block after
        # them) or come back as the default; keys that a `key<sep>value` segment spells are added.  Nothing written BEFORE the line may differ.
        segs = re.split("[" + _line_breaks(fmt, target_file) + "]", t)
        if _ood_get(after, target) != (segs[0].rstrip() or None):
            return False
        order = list(before["dict"])
        at = {"metadata value": order.index("comment") if "comment" in order else -1, "material name": order.index("material"), "material property value": len(order)}[target]
        spelled = {seg.strip().split(sep)[0] for seg in segs[1:] if seg.strip().count(sep) == 1}
        cut = any(seg.strip() == "" for seg in segs[1:])
        for where, x, y, _ in _diff(_ood_set(before, target, _ood_get(after, target)), after, fmt, tol):
            m = re.match(r"metadata(?: key)? '(.*)'$", where)
            key = m.group(1) if m else None
            if key == "material":       # the properties are written after every metadata line
                ma, mb = before["dict"]["material"], after["dict"]["material"]
                pa, pb = (ma if isinstance(ma, dict) else {"name": ma}), (mb if isinstance(mb, dict) else {"name": mb})
                if target == "material name":
                    pa = {**pa, "name": pb.get("name")}
                if target == "material property value":
                    pa = {**pa, "form": pb.get("form")}
                if cut and all(k in pa and isogen.same_value(pa[k], v, tol=1e-12) for k, v in pb.items()):
                    continue
                return False
            if key is not None and key in order:
                if cut and order.index(key) > at:
                    continue
                return False
            if key is not None:
                if key in spelled and x == "'<absent>'":
                    continue
                return False
            if cut and (where == "class" and y == "BaseIsotherm" or where.startswith("data column") and where.endswith("missing") or where == "model missing"):
                continue
            return False
        return True
    return False


def _raised_in(e):
    """innermost function of pyGAPS on the traceback of an exception"""
    tb, name = e.__traceback__, None
    while tb is not None:
        if os.sep + "pygaps" + os.sep in tb.tb_frame.f_code.co_filename:
            name = tb.tb_frame.f_code.co_name
        tb = tb.tb_next
    return name


def _ood_stream(ck, pg, tmpdir, pool, section, matp, tol, io):
    rng = ck.rng
    stops = tuple(section["csv"])
    plain = [s for s in pool if 1 <= len(s) <= 12 and not any(ch in SIG_CHARS or ch in "+-." for ch in s) and not s[0].isdigit()][:200]
    bodies = OOD_BODIES + plain[:len(OOD_BODIES)]
    key_bodies = OOD_KEY_BODIES + [s for s in plain if " " not in s][:4]
    cases = []
    # the core, in every run: the characters each format gives a meaning to, at every position class of every target
    own = {"csv": lambda sep: list(dict.fromkeys([sep, "\n", "\t", "\r"])), "aif": lambda sep: ["'", '"', "\n", " ", "["], "xl": lambda sep: [" ", "\n"]}
    for fmt, sep in OOD_FORMATS:
        for c in own[fmt](sep):
            for target in OOD_TARGETS:
                for pos in POSITIONS:
                    for kind in (["base", "point", "model"] if ck.tier == "thorough" else [rng.choice(["base", "point", "model"])]):
                        cases.append((fmt, sep, c, target, pos, kind))
    # every other character / position / target / format, sampled
    for _ in range(ck.n(700, 9000)):
        fmt, sep = rng.choice(OOD_FORMATS)
        cases.append((fmt, sep, rng.choice(SIG_CHARS), rng.choice(OOD_TARGETS), rng.choice(POSITIONS), rng.choice(["base", "point", "model"])))
    from pgv import isogen as _isogen
    prefixes = tuple(set(section["csv"] + section["aif"]) | set(matp.values()))
    reported = set()        # one replay per (format, separator, target, character, clause): the position classes of one defect are not 10 findings

    def report(sig, detail):
        key = (sig["format"], sig.get("separator"), sig["target"], sig["character"], sig["clause"], sig.get("region"))
        if key not in reported:
            reported.add(key)
            ck.fail_case(sig, detail)
    for j, (fmt, sep, c, target, pos, kind) in enumerate(cases):
        keyish = target in ("metadata key", "material property name")
        t = _ood_place(rng, c, pos, key_bodies if keyish else bodies, sep, stops)
        target_file = (rng.random() < 0.5) if fmt in ("csv", "aif") else (fmt == "xl")
        status, region = _ood_region(fmt, sep, target, t, target_file, stops, matp)
        if status is None and keyish and (t in _isogen.RESERVED or t.strip().startswith(prefixes) or t.strip() in ("name", "")):
            status, region = "outside", "key: reserved name / a prefix a format uses itself (stream B)"
        if status == "outside":
            ck.count(("ood-outside", fmt, target, region), nontrivial=False, bucket="C outside: " + region)
            continue
        cc = _isogen.content(rng, kind=kind, domain="text")
        if kind == "point" and any(b < a for a, b in zip(cc["branch"], cc["branch"][1:])):
            cc["branch"] = [0] * len(cc["branch"])          # interleaved user marks: S18-aif-order, stream B
        cc["meta"] = {"project": rng.choice(bodies)} if rng.random() < 0.5 else {}
        val = rng.choice(["abc", 1.5])
        after = rng.random() < 0.5              # the text is not always on the last metadata line

        def with_text(text):
            c2 = dict(cc, meta=dict(cc["meta"]), material_props=dict(cc["material_props"]))
            if target == "metadata value":
                c2["meta"]["comment"] = text
            elif target == "metadata key":
                c2["meta"][text] = val
            elif target == "material name":
                c2["material"] = text
            elif target == "material property value":
                c2["material_props"]["form"] = text
            else:
                c2["material_props"][text] = val
            if after:
                c2["meta"]["zz_after"] = 2.5
            return c2

        def trip(c2, name):
            """('refused' | 'raised' | 'built-not' | 'differs' | 'equal', information, observation exported, observation imported)"""
            try:
                iso = _isogen.build(pg, c2)
            except Exception as e:  # noqa
                return "built-not", repr(e)[:200], None, None
            before = _isogen.observe(pg, iso)
            try:
                if fmt == "csv":
                    if target_file:
                        p = os.path.join(tmpdir, name + ".csv")
                        io["to_csv"](iso, p, separator=sep)
                        back = io["from_csv"](p, separator=sep)
                    else:
                        back = io["from_csv"](io["to_csv"](iso, separator=sep), separator=sep)
                elif fmt == "xl":
                    p = os.path.join(tmpdir, name + ".xls")
                    io["to_xl"](iso, p)
                    back = io["from_xl"](p)
                elif target_file:
                    p = os.path.join(tmpdir, name + ".aif")
                    io["to_aif"](iso, p)
                    back = io["from_aif"](p)
                else:
                    back = io["from_aif"](io["to_aif"](iso))
            except io["pgError"] as e:
                return "refused", repr(e)[:200], before, None
            except Exception as e:  # noqa
                return "raised", e, before, None
            seen = _isogen.observe(pg, back)
            diffs = _diff(before, seen, fmt, tol)
            return ("differs", {"differences": [[w, x, y] for w, x, y, _ in diffs[:4]], "class read": type(back).__name__}, before, seen) if diffs else ("equal", None, before, seen)

        c2 = with_text(t)
        sig = {"format": fmt, "class": kind, "target": target, "character": CHAR_NAMES.get(c, "punctuation") if pos != "wrapped" else "pair", "position": pos}
        if fmt == "csv":
            sig["separator"] = CHAR_NAMES.get(sep, sep)
        detail = {"text": t, "separator": sep, "target": "file" if target_file else "string", "content": _content(c2), "meta": _js(c2["meta"])}
        out, info, before, seen = trip(c2, f"o{j}")
        if out == "built-not":
            ck.count(("ood-build", fmt, target, t), nontrivial=False, bucket="C construction refused")
            continue
        ck.count(("ood", fmt, sep, kind, target, t), bucket=f"C {fmt}:{out}:{target}", sample={"format": fmt, "separator": sep, target: t, "outcome": out} if j % 397 == 0 else None)
        if region is not None:
            ck.count(("ood-region", fmt, sep, kind, target, t), nontrivial=False, bucket=f"C region {region}: {out}")
        if out in ("refused", "equal"):
            continue
        # control: the same isotherm with a plain word in place of the text.  When that does not come back either, the text is not the
        # reason: ONE case per (format, separator, class), whatever the text was
        ctl, cinfo, _, _ = trip(with_text("kx9" if keyish else "plainword"), f"o{j}c")
        if ctl not in ("equal", "refused") or (ctl == "refused" and out == "raised"):
            key = ("control", fmt, sep, kind)
            if key not in reported:
                reported.add(key)
                ck.fail_case({"format": fmt, "class": kind, **({"separator": sig["separator"]} if fmt == "csv" else {}),
                              "clause": "isotherm with plain text metadata does not come back (stream C)"},
                             {**detail, "text": "plainword / kx9 in place of the text", "outcome": ctl, "information": cinfo if ctl != "raised" else repr(cinfo)[:300]})
            continue
        if region == R_CSV_SECTION:
            # the rest of the document goes to the table / model reader: what comes of it depends on what follows (as for a KEY with such a prefix, S46-C07): any outcome is ONE case
            report({**sig, "region": region, "clause": "text the format cannot carry: neither refused with a pyGAPS error nor equal (document re-read from the broken line)"},
                   {**detail, "outcome": out, "information": repr(info)[:300]})
        elif out == "raised":
            where = _raised_in(info)
            report({**sig, **({"region": region} if region == R_AIF_BRACKET and where == "_from_list" else {}), "raised_in": where,
                    "clause": "text the format cannot carry: refusal is not a pyGAPS error", "error": type(info).__name__}, {**detail, "error": repr(info)[:300]})
        else:
            as_recorded = region is not None and _ood_predicted(region, fmt, sep, target, t, target_file, before, seen, tol)
            report({**sig, **({"region": region} if as_recorded else {}), "clause": "text the format cannot carry: neither refused nor equal (silently changed)"},
                   {**detail, **info, **({"region entered, outcome is not the recorded one": region} if region is not None and not as_recorded else {})})


def _whole_number(rng, big=False):
    """a non-negative whole number of ANY magnitude (Python int): counts, but also serial / bar-code numbers and time_ns stamps - beyond 2**53 an integer is
    in general not a double, beyond 2**63 / 2**64 not a machine integer; the formats write digits, so every one of them is inside the value domain.
    All of them are below the float maximum (float(v) does not overflow); the numbers above it are HUGE_INTS (stream B, in every run)"""
    r = rng.random()
    if not big and r < 0.65:
        return rng.randint(0, 10 ** rng.randint(0, 9))
    if r < 0.75:
        k = rng.choice([53, 53, 54, 62, 63, 64, 80, 100, 400, 1000, 1023])          # 2**1023 + d is below the float maximum (float(v) does not overflow)
        return 2 ** k + rng.choice([-1, 0, 1, 1, 3, rng.randint(2, 10 ** 6)])
    if r < 0.85:
        return 10 ** rng.randint(15, 24) + rng.choice([-1, 1, 1, 7, rng.randint(2, 999)])
    if r < 0.93:
        return rng.randint(1_500_000_000, 1_900_000_000) * 10 ** 9 + rng.randint(0, 10 ** 9 - 1)       # a time.time_ns() stamp
    return rng.getrandbits(rng.randint(50, 90)) | 1


# whole numbers ABOVE the float maximum: float(v) raises OverflowError (2**1024 - 1 rounds up to 2**1024: already outside)
HUGE_INTS = [10 ** 400, 2 ** 1024, 2 ** 1024 - 1, 10 ** 309 + 7, 2 ** 2000 + 1, int("9" * 320)]


def _beyond_float(v):
    if isinstance(v, bool) or not isinstance(v, int):
        return False
    try:
        float(v)
        return False
    except OverflowError:
        return True


def _has_huge(c):
    return any(_beyond_float(v) for v in list(c["meta"].values()) + list(c["material_props"].values()))


def _exact_ints(a, b):
    """whole numbers are compared EXACTLY (a relative tolerance would accept 2**53 for 2**53 + 1), at any depth"""
    if isinstance(a, dict) and isinstance(b, dict):
        return all(_exact_ints(a[k], b[k]) for k in a if k in b)
    if isinstance(a, (list, tuple)) and isinstance(b, (list, tuple)):
        return all(_exact_ints(x, y) for x, y in zip(a, b))
    if isinstance(a, int) and isinstance(b, int) and not isinstance(a, bool) and not isinstance(b, bool):
        return a == b
    return True


def _is_negzero(v):
    return isinstance(v, float) and v == 0.0 and math.copysign(1.0, v) < 0


def _has_negzero(c):
    return any(_is_negzero(v) for v in list(c["meta"].values()) + list(c["material_props"].values()))


def _without_negzero(c):
    return dict(c, meta={k: (0.0 if _is_negzero(v) else v) for k, v in c["meta"].items()},
                material_props={k: (0.0 if _is_negzero(v) else v) for k, v in c["material_props"].items()})


def _key_class(fmt, key, section, matp):
    """class of a metadata key in one format: it begins with that format's material-property prefix, with one of its section / dispatch prefixes, or is plain"""
    if key.startswith(matp[fmt]):
        return "material prefix"
    for p_ in section.get(fmt, []):
        if key.startswith(p_):
            return "section prefix " + p_
    return None


def _strengthen(rng, c):
    """values the repository's tests never export: exact zeros at any position of any column, zero / negative temperatures, models fitted on data"""
    if rng.random() < 0.2:
        c["temperature"] = rng.choice([0, 0.0, -5.5, -40, -195.795, 1e-3])
    if c["kind"] == "point":
        n = len(c["pressure"])
        if rng.random() < 0.4:
            c["zeros"] = True
            for col in [c["pressure"], c["loading"]] + [v for k, v in c["extra"].items() if k != "counter"]:
                if rng.random() < 0.6:
                    for j in rng.sample(range(n), rng.choice([1, 1, 2]) if n > 1 else 1):
                        col[j] = 0.0
        # row labels of the table the isotherm is built from (the constructor keeps them in `data_raw`): every parser and every fixture of the repository
        # has 0..n-1; a filtered / sliced / sorted / concatenated / text-labelled frame of a user has not.  Points, marks and order are the same content.
        if rng.random() < 0.5:
            c["row_labels"] = rng.choice(ROW_LABELS)
    elif c["kind"] == "model" and rng.random() < 0.35:
        k = rng.choice([4, 6, 9])
        ps = sorted(rng.uniform(0.01, 5.0) for _ in range(k))
        a, b = rng.uniform(1, 8), rng.uniform(0.2, 3)
        c["fitted"] = {"model": rng.choice(["Henry", "Henry", "Langmuir", "Freundlich"]), "pressure": ps,
                       "loading": [a * b * p_ / (1 + b * p_) * (1 + rng.uniform(-0.02, 0.02)) for p_ in ps]}


ROW_LABELS = ["shifted", "one-based", "every second row (sliced)", "filtered", "text", "reversed numbers", "permuted numbers", "float labels", "far numbers"]


def _labelled_frame(c):
    """the point table of `c` as a DataFrame whose ROW LABELS are not 0..n-1 (same points, same order)"""
    import pandas as pd
    n = len(c["pressure"])
    cols = {"pressure": list(c["pressure"]), "loading": list(c["loading"]), **{k: list(v) for k, v in c["extra"].items()}}
    kind = c["row_labels"]
    if kind in ("every second row (sliced)", "filtered"):
        # a longer table of which the isotherm's points are a selection: made by pandas itself (iloc slice / boolean filter), labels as pandas leaves them
        step = 2 if kind.startswith("every") else 3
        big = {k: [None] * (step * n) for k in cols}
        keep = [False] * (step * n)
        for i in range(n):
            j = step * i + (step - 1 if kind == "filtered" else 0)
            keep[j] = True
            for k in cols:
                big[k][j] = cols[k][i]
        for k in cols:
            fill = cols[k][0]
            big[k] = [fill if v is None else v for v in big[k]]
        df = pd.DataFrame(big)
        df = df.iloc[::2] if kind.startswith("every") else df[pd.Series(keep)]
        for k, v in c["extra"].items():          # dtype of whole-number columns as in the plain frame
            if all(isinstance(x, int) for x in v):
                df[k] = df[k].astype("int64")
        return df
    df = pd.DataFrame(cols)
    df.index = {"shifted": list(range(3, 3 + n)), "one-based": list(range(1, n + 1)), "text": [f"pt{i}" for i in range(n)],
                "reversed numbers": list(range(n - 1, -1, -1)), "permuted numbers": [(i * 7 + 3) % n if n % 7 else (i + 1) % n for i in range(n)],
                "float labels": [0.5 + i for i in range(n)], "far numbers": [10 ** 6 + 10 * i for i in range(n)]}[kind]
    return df


def _build(pg, c):
    if c["kind"] == "point" and c.get("row_labels"):
        mat = c["material"] if not c["material_props"] else {"name": c["material"], **c["material_props"]}
        return pg.PointIsotherm(isotherm_data=_labelled_frame(c), pressure_key="pressure", loading_key="loading", branch=list(c["branch"]),
                                material=mat, adsorbate=c["adsorbate"], temperature=c["temperature"], **c["units"], **c["meta"])
    if c.get("fitted"):
        f = c["fitted"]
        mat = c["material"] if not c["material_props"] else {"name": c["material"], **c["material_props"]}
        return pg.ModelIsotherm(pressure=f["pressure"], loading=f["loading"], model=f["model"], material=mat, adsorbate=c["adsorbate"],
                                temperature=c["temperature"], **c["units"], **c["meta"])
    return isogen.build(pg, c)


def _content(c):
    out = {k: c[k] for k in ("kind", "units", "temperature", "material", "material_props", "adsorbate", "row_labels") if k in c}
    for k in ("pressure", "loading", "branch", "extra", "model", "fitted"):
        if k in c:
            out[k] = _js(c[k])
    return out


def _structure(fmt, doc, iso, c, G, to_string):
    """None when the written document is laid out as Gen/Formats says, else a description of the first difference"""
    kind = c["kind"]
    model = iso.model if kind == "model" else None
    if fmt == "csv":
        ls = doc.split("\n")
        dh, mh = G["csvHeaders"][0]
        if kind == "point":
            if dh.rstrip("\n") not in ls:
                return f"data header {dh!r} not in the document"
            at = ls.index(dh.rstrip("\n")) + 1
            cols = ls[at].split(",")
            if cols[:2] != [iso.pressure_key, iso.loading_key] or "branch" not in cols:
                return f"column line {ls[at]!r}: pressure, loading first and a branch column expected"
            texts = {n: t for n, t in G["csvBranch"]}
            got = [x.split(",")[cols.index("branch")] for x in ls[at + 1:] if x]
            want = [texts.get(int(b)) for b in iso.data_raw["branch"]]
            return None if got == want else f"branch cells {got[:6]} differ from {want[:6]} (generated codec {G['csvBranch']})"
        if kind != "model":
            return None
        if mh.rstrip("\n") not in ls:
            return f"model header {mh!r} not in the document"
        at = ls.index(mh.rstrip("\n")) + 1
        for j, (label, attr, conv) in enumerate(G["csvModelWriter"]):
            v = getattr(model, attr)
            want = label + "," + (v if conv == "raw" else to_string(v) if conv == "_to_string" else str(v))
            if ls[at + j] != want:
                return f"line {j + 1} of the model block is {ls[at + j]!r}, the generated table says {want!r}"
        rest = [x for x in ls[at + len(G["csvModelWriter"]):] if x]
        want = [f"{k},{v}" for k, v in model.params.items()]
        return None if rest == want else f"parameter lines {rest[:3]} differ from {want[:3]}"
    if fmt == "xl":
        import xlrd
        sht = xlrd.open_workbook(doc).sheet_by_name("data")

        def cell(r, col):
            return sht.cell(r, col).value if r < sht.nrows and col < sht.ncols else "<outside>"
        hr, dr, fc, tr, tc, off = G["xlPoint"][0]
        d = iso.to_dict()
        for key, name, text, r, col in G["xlMeta"]:
            if cell(r, col) != text:
                return f"label of {name} at ({r},{col}) is {cell(r, col)!r}, table says {text!r}"
            if name in d and not isinstance(d[name], dict) and d[name] is not None and cell(r, col + off) != d[name]:
                return f"value of {name} at ({r},{col + off}) is {cell(r, col + off)!r}, isotherm has {d[name]!r}"
        t0 = [r for k, _, _, r, _ in G["xlMeta"] if k == "isotherm_data"][0]
        tcol = [col for k, _, _, _, col in G["xlMeta"] if k == "isotherm_data"][0]
        marker = G["xlMarkers"][0][{"point": 0, "model": 1, "base": 2}[kind]]
        if cell(t0, tcol + off) != marker:
            return f"type marker at ({t0},{tcol + off}) is {cell(t0, tcol + off)!r}, table says {marker!r}"
        if kind == "point":
            raw = iso.data_raw
            cols = [iso.pressure_key, iso.loading_key, "branch"] + iso.other_keys
            for j, h in enumerate(cols):
                if cell(t0 + hr, fc + j) != h:
                    return f"heading {j} at ({t0 + hr},{fc + j}) is {cell(t0 + hr, fc + j)!r}, expected {h!r}"
            for j, h in enumerate(cols[:2] + iso.other_keys):
                col = fc + j if j < 2 else fc + j + 1
                if len(raw) and abs(float(cell(t0 + dr, col)) - float(raw[h].iloc[0])) > 1e-12 * max(1.0, abs(float(raw[h].iloc[0]))):
                    return f"first value of {h} at ({t0 + dr},{col}) is {cell(t0 + dr, col)!r}, data has {raw[h].iloc[0]!r}"
            for j, h in enumerate(iso.other_keys):
                if cell(t0 + tr, tc + j) != raw[h].dtype.name:
                    return f"dtype of {h} at ({t0 + tr},{tc + j}) is {cell(t0 + tr, tc + j)!r}"
        elif kind == "model":
            for r, label, lc, attr, conv, vc in G["xlModelWriter"]:
                v = getattr(model, attr)
                want = v if conv == "raw" else str(v)
                if cell(t0 + r, lc) != label or cell(t0 + r, vc) != want:
                    return f"model row {r}: ({cell(t0 + r, lc)!r}, {cell(t0 + r, vc)!r}), table says ({label!r}, {want!r})"
            fr, nc, vcol, _ = G["xlParams"][0]
            for j, (k, v) in enumerate(model.params.items()):
                if cell(t0 + fr + j, nc) != k or cell(t0 + fr + j, vcol) != v:
                    return f"parameter row {j}: ({cell(t0 + fr + j, nc)!r}, {cell(t0 + fr + j, vcol)!r}), expected ({k!r}, {v!r})"
        return None
    # aif
    from gemmi import cif
    block = cif.read_string(doc).sole_block()
    custom, param, *_ = G["aifPrefixes"][0]
    d = iso.to_dict()
    for tag, key, _ty in G["aifMeta"]:
        if key in d and not isinstance(d[key], dict) and block.find_value(tag) is None:
            return f"field {key} present but tag {tag} not written"
    if kind == "model":
        for tag, attr, idx, conv in G["aifModelWriter"]:
            v = getattr(model, attr)
            v = v if idx is None else v[idx]
            got = block.find_value(tag)
            if got is None or got.strip("'") != (v if conv == "raw" else str(v)):
                return f"tag {tag} is {got!r}, table says {attr}{'' if idx is None else [idx]} = {v!r}"
        for k, v in model.params.items():
            if block.find_value(param + k) != str(v):
                return f"parameter tag {param + k} is {block.find_value(param + k)!r}, expected {v!r}"
    if kind == "point":
        for br, pfx, *tags in G["aifLoops"]:
            has = iso.has_branch(br)
            col = block.find_values(pfx + tags[0])
            if has != (len(col) > 0):
                return f"branch {br}: loop {pfx}{tags[0]} {'missing' if has else 'present without data'}"
    return None


def _js(x):
    return json.loads(json.dumps(x, default=str))


def _vclass(v):
    if v is None:
        return "none"
    if isinstance(v, bool):
        return "bool"
    if isinstance(v, int):
        return "negative int" if v < 0 else "int"
    if isinstance(v, float):
        return "float"
    if isinstance(v, (list, tuple)):
        return "list"
    if isinstance(v, dict):
        return "dict"
    return "text"


def _diff(a, b, fmt, tol=0.5e-8):
    out = []
    if a["class"] != b["class"]:
        out.append(("class", a["class"], b["class"], "class"))
    da, db = a["dict"], b["dict"]
    for k in sorted(set(da) | set(db), key=str):
        va, vb = da.get(k, "<absent>"), db.get(k, "<absent>")
        if k not in da or k not in db:
            out.append((f"metadata key {k!r}", repr(va)[:60], repr(vb)[:60], _vclass(da.get(k)) if k in da else "added"))
        elif not isogen.same_value(va, vb, tol=1e-12) or not _exact_ints(va, vb):
            out.append((f"metadata {k!r}", repr(va)[:60], repr(vb)[:60], _vclass(va)))
    if "columns" in a or "columns" in b:
        ca, cb = a.get("columns", {}), b.get("columns", {})
        for k in sorted(set(ca) | set(cb)):
            if k not in ca or k not in cb:
                out.append((f"data column {k!r} missing", k in ca, k in cb, "column"))
            elif k == "branch":
                if [int(x) for x in ca[k]] != [int(x) for x in cb[k]]:
                    out.append(("branch marks / order", ca[k][:12], cb[k][:12], "branch"))
            else:
                xa, xb = ca[k], cb[k]
                if len(xa) != len(xb) or any((abs(float(x) - float(y)) > tol + 1e-12 * abs(float(x))) if not isinstance(x, str) else x != y for x, y in zip(xa, xb)):
                    out.append((f"data column {k!r}", xa[:4], xb[:4], "data"))
    ma, mb = a.get("model"), b.get("model")
    if (ma is None) != (mb is None):
        out.append(("model missing", str(ma)[:80], str(mb)[:80], "model"))
    elif ma is not None:
        if ma["name"] != mb["name"]:
            out.append(("model name", ma["name"], mb["name"], "model"))
        for k in set(ma["parameters"]) | set(mb["parameters"]):
            x, y = ma["parameters"].get(k), mb["parameters"].get(k)
            if x is None or y is None or not math.isclose(float(x), float(y), rel_tol=1e-12, abs_tol=0):
                out.append((f"model parameter {k}", x, y, "model"))
        for k in ("pressure_range", "loading_range"):
            if [float(v) for v in ma[k]] != [float(v) for v in mb[k]]:
                out.append((f"model {k}", list(ma[k]), list(mb[k]), "model"))
        try:
            if not math.isclose(float(ma["rmse"]), float(mb["rmse"]), rel_tol=1e-12) or isinstance(mb["rmse"], str):
                out.append(("model rmse", ma["rmse"], mb["rmse"], "model"))
        except Exception:
            out.append(("model rmse", ma["rmse"], mb["rmse"], "model"))
    return out
