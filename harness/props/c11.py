"""C11 — spreading pressure = ∫ n/p dp.

Lean: Props/C11/Analytic.lean (p·Π' = n, Π(0)=0, Π(b)-Π(a) = ∫ n/x on the regenerated closed forms; S13 for
TemkinApprox), Props/C11/Point.lean (the fold of PointIsotherm.spreading_pressure_at equals the integral of
the Henry-continued piecewise-linear interpolant).  Tie: translator (closed forms, Float copies executed
against Python), correspondence of Model/SpreadPoint.lean (ℚ, logarithms as inputs) with the real method.
Failing-input search: spreading pressures of the real classes against an independent quadrature of the
class's own loading()/x, history variations, unit arguments.
"""
import math
from fractions import Fraction as Fr

from pgv.core import close, err_class, frac, import_pygaps, qstr
from pgv.models import REL_ONLY, bits, make, p_grid, relerr, sample_params, unbits

# Gauss-Legendre nodes/weights (order 20) on [-1, 1]
_GL = None


def gl():
    global _GL
    if _GL is None:
        import numpy as np
        _GL = np.polynomial.legendre.leggauss(24)
    return _GL


def ref_integral(f, a, b, panels=8):
    """∫_a^b f(x)/x dx by the substitution x = e^u (no singular weight), composite Gauss-Legendre."""
    import numpy as np
    xs, ws = gl()
    la, lb = math.log(a), math.log(b)
    tot = 0.0
    for k in range(panels):
        u0 = la + (lb - la) * k / panels
        u1 = la + (lb - la) * (k + 1) / panels
        u = 0.5 * (u1 - u0) * xs + 0.5 * (u1 + u0)
        tot += 0.5 * (u1 - u0) * float(np.sum(ws * np.array([f(float(math.exp(t))) for t in u])))
    return tot


SPREAD = ["Henry", "Langmuir", "DSLangmuir", "TSLangmuir", "Quadratic", "BET", "GAB", "TemkinApprox", "Freundlich",
          "Toth", "JensenSeaton", "DR", "DA"]
QUADBASED = {"Toth", "JensenSeaton", "DR", "DA"}


def run(ck):
    pg = import_pygaps()
    import numpy as np
    import pandas as pd
    from pygaps.utilities.exceptions import CalculationError, ParameterError
    rng = ck.rng
    thorough = ck.tier == "thorough"
    nvec = ck.n(14, 120)
    info = ck.gen_info.get("Models", {}).get("models", {})

    # ------------------------------------------------------------------ 1. translator validation of the closed-form spreading pressures
    lines, meta = [], []
    for name in SPREAD:
        if not info.get(name, {}).get("functions", {}).get("spreading_pressure", "").startswith("closed"):
            continue
        order = info[name]["params"]
        for _ in range(nvec):
            par = sample_params(name, rng)
            m = make(pg, name, par)
            for x in p_grid(name, par, rng, 2)[:4]:
                lines.append(f"ev {name} spreading_pressure [{';'.join(bits(par[k]) for k in order)}] {bits(x)}")
                meta.append((name, par, x, m))
    tv_bad = 0
    try:
        replies = ck.drive("ModelsF", lines)
    except Exception as e:
        replies = None
        ck.broken.append({"step": "driver ModelsF", "what": str(e)[:500]})
    if replies:
        for (name, par, x, m), rep, line in zip(meta, replies, lines):
            with np.errstate(all="ignore"):
                py = float(m.spreading_pressure(np.float64(x)))
            t = rep.split()
            ck.count(("tv", name, x, tuple(par.values())), bucket="translator:" + name)
            if t[0] != "ok" or relerr(unbits(t[1]), py) > 1e-11:
                tv_bad += 1
                if tv_bad <= 3:
                    ck.broken.append({"step": "translator validation Gen.F vs Python", "what": {"request": line, "lean": rep, "python": py}})
    ck.cov["translator_cases"] = len(lines)

    # ------------------------------------------------------------------ 2. models: Π against the quadrature of the class's own loading/x
    worst = {}
    for name in SPREAD:
        for iv in range(nvec):
            par = sample_params(name, rng)
            m = make(pg, name, par)
            ps = p_grid(name, par, rng, 4)
            sig = {"model": name}
            lo = ps[0] * 1e-9
            f = lambda x: float(m.loading(np.float64(x)))  # noqa
            tol = 1e-4 if name in QUADBASED else 1e-8
            prev = None
            for p in ps[1::2][:4]:
                with np.errstate(all="ignore"):
                    try:
                        sp = float(m.spreading_pressure(np.float64(p)))
                    except Exception as e:  # noqa
                        ck.fail_case({**sig, "clause": "evaluates"}, {"params": par, "p": p, "error": repr(e)})
                        continue
                ck.count(("model", name, p, tuple(par.values())), bucket="integral:" + name,
                         sample={"model": name, "params": par, "p": p, "spreading_pressure": sp} if iv == 0 and prev is None else None)
                if name in REL_ONLY:
                    # lower limit 0 is singular for DR/DA (log p): compare differences only
                    if prev is not None:
                        ref = ref_integral(f, prev[0], p)
                        err = abs((sp - prev[1]) - ref) / max(abs(ref), 1e-300)
                        worst[name] = max(worst.get(name, 0), err)
                        if err > 10 * tol:
                            ck.fail_case({**sig, "clause": "additive/integral"}, {"params": par, "a": prev[0], "b": p, "got": sp - prev[1], "reference": ref})
                else:
                    # ∫_0^lo n/x ≈ n(lo) for the Henry-like start (Freundlich: m·n(lo))
                    head = f(lo) * (par["m"] if name == "Freundlich" else 1.0)
                    ref = head + ref_integral(f, lo, p, panels=16)
                    got = sp - (par["n_m"] * par["tht"] / 2 if name == "TemkinApprox" else 0.0)
                    err = abs(got - ref) / max(abs(ref), 1e-300)
                    worst[name] = max(worst.get(name, 0), err)
                    cap = sum(abs(v) for kk, v in par.items() if kk.startswith("n_m")) or 1.0
                    if abs(got - ref) > tol * abs(ref) + 4e-15 * cap:
                        if name == "TemkinApprox":
                            ck.fail_case({**sig, "clause": "integral (corrected by n_m*theta/2)"}, {"params": par, "p": p, "got": got, "reference": ref})
                        else:
                            ck.fail_case({**sig, "clause": "integral"}, {"params": par, "p": p, "got": sp, "reference": ref})
                    if prev is not None:
                        refd = ref_integral(f, prev[0], p)
                        if abs((sp - prev[1]) - refd) > tol * max(abs(refd), abs(sp)):
                            ck.fail_case({**sig, "clause": "additive"}, {"params": par, "a": prev[0], "b": p, "got": sp - prev[1], "reference": refd})
                    if prev is not None and not sp >= prev[1]:
                        ck.fail_case({**sig, "clause": "increasing"}, {"params": par, "a": prev[0], "b": p})
                prev = (p, sp)
            # zero limit
            if name not in REL_ONLY:
                with np.errstate(all="ignore"):
                    z = float(m.spreading_pressure(np.float64(0.0)))
                if z != 0.0:
                    ck.fail_case({**sig, "clause": "zero"}, {"params": par, "value_at_zero": z,
                                                             "note": "n_m*theta/2 = %r" % (par.get("n_m", 0) * par.get("tht", 0) / 2)})
    ck.cov["worst_rel_err_vs_quadrature"] = {k: float(f"{v:.3g}") for k, v in worst.items()}

    # ------------------------------------------------------------------ 3. point isotherms: fold model (ℚ) vs the real method
    nset = ck.n(30, 150)
    reqs, ctx = [], []
    for i in range(nset):
        n = rng.randint(2, 14)
        ps = sorted({round(math.exp(rng.uniform(-4, 2)), rng.randint(2, 6)) for _ in range(n)})
        ps = [p for p in ps if p > 0]
        if len(ps) < 2:
            continue
        if rng.random() < 0.5:
            ls = list(np.cumsum([rng.uniform(0.05, 2) for _ in ps]))          # increasing
        else:
            ls = [rng.uniform(0.0, 5) for _ in ps]                            # arbitrary non-negative
        if rng.random() < 0.2:
            ls[0] = 0.0                                                       # nothing adsorbed yet at the first (positive) pressure
        des = [(ps[-1] * rng.uniform(0.2, 0.9), ls[-1] * 1.2), (ps[0] * 0.5, ls[0] * 1.5)] if rng.random() < 0.5 else []
        origin = rng.random() < 0.25          # a measured origin (0, 0) in front of the adsorption data
        data = pd.DataFrame({"pressure": ([0.0] if origin else []) + ps + [d[0] for d in des], "loading": ([0.0] if origin else []) + ls + [d[1] for d in des]})
        iso = pg.PointIsotherm(isotherm_data=data, pressure_key="pressure", loading_key="loading", material="pgv_m", adsorbate="N2",
                               temperature=77.355, pressure_mode="absolute", pressure_unit="bar", loading_basis="molar",
                               loading_unit="mmol", material_basis="mass", material_unit="g",
                               branch=[0] * (len(ps) + (1 if origin else 0)) + [1] * len(des))
        qs = [ps[0] * 0.3, ps[0], ps[-1]] + [rng.uniform(ps[0], ps[-1]) for _ in range(3)] + [rng.choice(ps)]
        for q in qs:
            k = sum(1 for p in ps if p < q)
            # linear interpolant at q (exact rational), logs as the doubles Python computes
            fp, fl, fq = [frac(p) for p in ps], [frac(l) for l in ls], frac(q)
            if k == 0:
                lq = fl[0]
            else:
                j = max(jj for jj in range(len(fp)) if fp[jj] < fq)
                j = min(j, len(fp) - 2)
                lq = fl[j] + (fl[j + 1] - fl[j]) / (fp[j + 1] - fp[j]) * (fq - fp[j])
            logs = [frac(math.log(ps[t + 1] / ps[t])) for t in range(len(ps) - 1)]
            lg = frac(math.log(q / ps[k - 1])) if k > 0 else Fr(0)
            if origin:
                fp, fl = [Fr(0)] + fp, [Fr(0)] + fl
            reqs.append("%s [%s] [%s] [%s] %s %s %s" % ("spd" if origin or rng.random() < 0.3 else "sp", ";".join(map(qstr, fp)), ";".join(map(qstr, fl)), ";".join(map(qstr, logs)) if logs else "",
                                                         qstr(fq), qstr(lq), qstr(lg)))
            ctx.append((iso, ps, ls, q, k, des))
    try:
        reps = ck.drive("SpreadPoint", reqs)
    except Exception as e:
        reps = None
        ck.broken.append({"step": "driver SpreadPoint", "what": str(e)[:500]})
    n_dis = 0
    for idx, (iso, ps, ls, q, k, des) in enumerate(ctx):
        sig = {"class": "PointIsotherm", "k": min(k, 2)}
        fresh = pg.PointIsotherm.from_isotherm(iso, isotherm_data=iso.data_raw.copy(), pressure_key="pressure", loading_key="loading",
                                                branch=list(iso.data_raw["branch"])) if False else iso
        try:
            got = float(iso.spreading_pressure_at(q))
        except Exception as e:  # noqa
            got = ("err", err_class(e))
        # independent reference: Henry part + per-segment quadrature of the chord
        def qfun(x):  # noqa
            if x <= ps[0]:
                return ls[0] / ps[0] * x
            j = max(t for t in range(len(ps)) if ps[t] < x)
            j = min(j, len(ps) - 2)
            return ls[j] + (ls[j + 1] - ls[j]) / (ps[j + 1] - ps[j]) * (x - ps[j])
        ref = ls[0] / ps[0] * min(q, ps[0])
        knots = [p for p in ps if p < q] + [q]
        for a, b in zip(knots, knots[1:]):
            if b > a:
                ref += ref_integral(qfun, a, b, panels=2)
        ck.count(("point", tuple(ps), tuple(ls), q), bucket=f"point:k={min(k, 3)}",
                 sample={"pressures": ps, "loadings": ls, "query": q, "implementation": got, "model": reps[idx] if reps else None} if idx % 61 == 0 else None)
        if isinstance(got, tuple) or abs(got - ref) > 1e-9 * max(abs(ref), 1e-12):
            ck.fail_case({**sig, "clause": "integral of the interpolant"}, {"pressures": ps, "loadings": ls, "query": q, "got": got, "reference": ref})
            continue
        if reps is not None:
            r = reps[idx].split()
            if not (r[0] == "ok" and close(got, Fr(r[1]), rel=1e-10)):
                n_dis += 1
                if n_dis <= 3:
                    ck.broken.append({"step": "correspondence Model/SpreadPoint.lean", "what": {"request": reqs[idx][:300], "model": reps[idx][:80], "implementation": got}})
        # unit arguments: pressure given in kPa is converted first; loading unit scales the result
        if idx % 2 == 0 and ps[0] < q < ps[-1] * 0.999:
            try:
                alt = float(iso.spreading_pressure_at(q * 100, pressure_unit="kPa"))
                alt2 = float(iso.spreading_pressure_at(q, loading_unit="mol"))
            except Exception as e:  # noqa
                alt, alt2 = ("err", err_class(e)), None
            if isinstance(alt, tuple) or abs(alt - got) > 1e-10 * abs(got) or abs(alt2 * 1000 - got) > 1e-10 * abs(got):
                ck.fail_case({**sig, "clause": "unit arguments converted first"}, {"pressures": ps, "loadings": ls, "query": q, "native": got, "kPa": alt, "mol": alt2})
        # history independence of the value: after cubic / desorption-branch queries the adsorption Π is the same
        if idx % 3 == 0:
            try:
                iso.loading_at(ps[0] * 1.0001 if len(ps) < 4 else (ps[1] + ps[2]) / 2, interpolation_type="cubic" if len(ps) >= 4 else "linear")
                if des:
                    iso.loading_at(des[0][0], branch="des")
            except Exception:
                pass
            try:
                again = float(iso.spreading_pressure_at(q))
            except Exception as e:  # noqa
                again = ("err", err_class(e))
            if again != got:
                ck.fail_case({**sig, "clause": "same value after other queries"}, {"pressures": ps, "loadings": ls, "query": q, "first": got, "after": again})

    # ------------------------------------------------------------------ 4. model isotherm: foreign units / modes converted first
    for name in ("Langmuir", "Toth"):
        par = sample_params(name, rng)
        par["K"] = rng.uniform(0.5, 5)
        for mode, unit in (("absolute", "bar"), ("relative", None)):
            miso = pg.ModelIsotherm(material="pgv_m", adsorbate="N2", temperature=77.355, model=make(pg, name, par), pressure_mode=mode,
                                    pressure_unit=unit, loading_basis="molar", loading_unit="mmol", material_basis="mass", material_unit="g")
            p = 0.31
            base = float(miso.spreading_pressure_at(p))
            bare = float(miso.model.spreading_pressure(np.float64(p)))
            ck.count(("miso", name, mode), bucket="model-isotherm")
            if relerr(base, bare) > 1e-12:
                ck.fail_case({"class": "ModelIsotherm", "clause": "native = bare model", "mode": mode}, {"params": par, "through": base, "bare": bare})
            if mode == "absolute":
                try:
                    alt = float(miso.spreading_pressure_at(p * 100, pressure_unit="kPa"))
                except Exception as e:  # noqa
                    alt = ("err", err_class(e))
                if isinstance(alt, tuple) or relerr(alt, base) > 1e-10:
                    ck.fail_case({"class": "ModelIsotherm", "clause": "unit arguments converted first", "mode": mode}, {"params": par, "native": base, "kPa": alt})
            else:
                try:
                    alt = float(miso.spreading_pressure_at(p * 100, pressure_mode="relative%"))
                except Exception as e:  # noqa
                    alt = ("err", err_class(e))
                if isinstance(alt, tuple) or relerr(alt, base) > 1e-10:
                    ck.fail_case({"class": "ModelIsotherm", "clause": "mode arguments converted first", "mode": mode,
                                  "outcome": alt[1] if isinstance(alt, tuple) else "number"}, {"params": par, "native": base, "relative%": alt})
    # the same across pressure MODES for isotherms stored in °C (the saturation pressure must be taken at the kelvin temperature)
    for name in ("Langmuir", "Toth"):
        par = sample_params(name, rng)
        par["K"] = rng.uniform(0.5, 5)
        for ads_name, t_c in (("N2", -195.795), ("CO2", -20.0), ("C3H8", 25.0)):
            try:
                psat = pg.Adsorbate.find(ads_name).saturation_pressure(t_c + 273.15, unit="bar")
                miso = pg.ModelIsotherm(material="pgv_m", adsorbate=ads_name, temperature=t_c, temperature_unit="°C", model=make(pg, name, par), pressure_mode="absolute",
                                        pressure_unit="bar", loading_basis="molar", loading_unit="mmol", material_basis="mass", material_unit="g")
                rel = 0.37
                base = float(miso.model.spreading_pressure(np.float64(rel * psat)))
                alt = float(miso.spreading_pressure_at(rel, pressure_mode="relative"))
                alt2 = float(miso.spreading_pressure_at(rel * 100, pressure_mode="relative%"))
            except Exception as e:  # noqa
                alt, alt2, base = ("err", err_class(e)), None, None
            ck.count(("miso-celsius", name, ads_name), bucket="model-isotherm:°C mode arguments")
            if isinstance(alt, tuple) or relerr(alt, base) > 1e-9 or relerr(alt2, base) > 1e-9:
                ck.fail_case({"class": "ModelIsotherm", "clause": "mode arguments converted first", "mode": "absolute", "temperature_unit": "°C",
                              "outcome": alt[1] if isinstance(alt, tuple) else "number"}, {"params": par, "adsorbate": ads_name, "t_celsius": t_c, "bare_at_converted_pressure": base, "relative": alt, "relative%": alt2})
    ck.cov["correspondence_disagreements"] = n_dis
    ck.cov["rule"] = ("closed-form Float copies vs Python; 13 models x seeded parameter vectors x pressures: Π vs composite Gauss-Legendre (log substitution) "
                      "of the class's own loading/x, differences, zero; point isotherms: seeded increasing pressure grids (2-14 points, optional desorption branch) x "
                      "queries below/at/inside/at the edge: real method vs exact-rational fold model and vs per-segment quadrature, after cubic/desorption "
                      "queries, with unit arguments; distinct = distinct (model, parameters, pressure) or (data set, query)")
    ck.assumptions += ["scipy.integrate.quad for Toth/Jensen-Seaton/DR/DA: compared with an independent quadrature (rel 1e-4)",
                       "numpy.log vs the logarithm inputs of the fold model: 1 ulp"]
