"""C11 — spreading pressure = ∫ n/p dp.

Lean: Props/C11/Analytic.lean (p·Π' = n, Π(0)=0, Π(b)-Π(a) = ∫ n/x on the regenerated closed forms; S13 for
TemkinApprox), Props/C11/Point.lean (the fold of PointIsotherm.spreading_pressure_at equals the integral of
the Henry-continued piecewise-linear interpolant).  Tie: translator (closed forms, Float copies executed
against Python), correspondence of Model/SpreadPoint.lean (ℚ, logarithms as inputs) with the real method.
Failing-input search: spreading pressures of the real classes against an independent quadrature of the
class's own loading()/x, history variations, unit arguments.

Section 2b anchors the quad-based models (Toth, Jensen-Seaton, DR, DA) AT THE ORIGIN: Π(p) against ∫_{-∞}^{ln p} n(e^u) du of the
class's own loading (Props/C11/Origin0.lean: change of variables, uniqueness of the origin-anchored primitive, sign of a primitive
anchored elsewhere, DA at m = 1 in closed form; Props/C11/LogScale.lean: DR / DA as the improper integral over s = RT/e ln p that the
repaired methods hand to quad — finding S49-C11a), over the parameter box including its corners (DR / DA: RT/e from 3 down to 1e-3),
down to p = 1e-300 (non-negative, non-decreasing, -> 0).  Section 3b runs point isotherms with closely spaced / very small pressures in every pressure unit and mode,
queries a hair above/below/at each knot, in every unit/mode of the query (Props/C11/Scale.lean: the fold is invariant under a change
of pressure unit, continuous across the knots) against the exact-rational fold and an exact-rational reference.
Sections 3 and 3b run on BOTH branches of hysteretic point isotherms (desorption rows stored after the adsorption rows, in order of decreasing
pressure): the fold model takes increasing data and is fed the REVERSED stored desorption rows — Props/C11/Branch.lean (`orient` of
Model/IastPoint.lean reverses strictly decreasing rows = the rows of the branch sorted by increasing pressure; the fold on them is the integral
of the interpolant through the desorption points).  Every point-isotherm oracle (fold, reference integral, increments, unit / mode of the
query, knots ± ulp, history) runs with `branch='des'` as well.
"""
import math
from fractions import Fraction as Fr

from pgv.core import close, err_class, frac, import_pygaps, qstr
from pgv.models import R_GAS, REL_ONLY, bits, logu, make, p_grid, relerr, sample_params, unbits

# Gauss-Legendre nodes/weights (order 20) on [-1, 1]
_GL = None


def gl():
    global _GL
    if _GL is None:
        import numpy as np
        _GL = np.polynomial.legendre.leggauss(24)
    return _GL


def _gl_panels(f, la, lb, panels):
    import numpy as np
    xs, ws = gl()
    tot = 0.0
    for k in range(panels):
        u0 = la + (lb - la) * k / panels
        u1 = la + (lb - la) * (k + 1) / panels
        u = 0.5 * (u1 - u0) * xs + 0.5 * (u1 + u0)
        tot += 0.5 * (u1 - u0) * float(np.sum(ws * np.array([f(float(math.exp(t))) for t in u])))
    return tot


def ref_integral(f, a, b, panels=8):
    """∫_a^b f(x)/x dx by the substitution x = e^u (no singular weight), composite Gauss-Legendre; the number of panels is doubled until two
    successive values agree to 1e-10 (the tightest tolerance it serves is 1e-8; a pole of n just above b — BET/GAB close to 1/N, 1/K — needs more than the starting number: with a fixed
    16 panels the reference, not the library, was off by 5e-8 at p = 0.937/N and the check raised a false alarm)."""
    la, lb = math.log(a), math.log(b)
    val = _gl_panels(f, la, lb, panels)
    while panels < 512:
        panels *= 2
        nxt = _gl_panels(f, la, lb, panels)
        if abs(nxt - val) <= 1e-10 * abs(nxt):
            return nxt
        val = nxt
    return val


def ref_from_origin(f, p, w0=1.5, grow=1.3, umin=-740.0, tail=None):
    """∫_0^p f(x)/x dx = ∫_{-∞}^{ln p} f(e^u) du (Props/C11/Origin0.lean `integral_div_eq_integral_comp_exp`): Gauss-Legendre panels going
    DOWN from ln p with geometrically growing widths until they no longer contribute (f increasing: the contributions decrease) or e^u leaves the
    range of the doubles.  `tail(u0)` = ∫_{-∞}^{u0} f(e^u) du from the model equation, for the part of the axis where p = e^u is not a double any
    more and the class's own loading cannot be asked (DR/DA with RT << e: the loading is still a sizeable fraction of n_m at p = 1e-300); with a
    tail the panels stop at `umin` = ln of a NORMAL double (below 2.2e-308 the few bits of e^u would spoil ln(e^u) = u)."""
    import numpy as np
    xs, ws = gl()
    top = math.log(p)
    tot, w, small = 0.0, w0, 0
    if tail is not None and top <= umin:
        return tail(top)
    while top > umin:
        lo = max(top - w, umin)
        u = 0.5 * (top - lo) * xs + 0.5 * (top + lo)
        c = 0.5 * (top - lo) * float(np.sum(ws * np.array([f(float(math.exp(t))) for t in u])))
        tot += c
        if abs(c) <= 1e-17 * abs(tot):
            small += 1
            if small >= 2:
                break
        else:
            small = 0
        top, w = lo, w * grow
    if tail is not None and top <= umin:
        tot += tail(umin)
    return tot


def da_tail(n_m, a, m):
    """u0 -> ∫_{-∞}^{u0} n_m exp(-(a|u|)^m) du = n_m/(a m) Γ(1/m) Q(1/m, (a|u0|)^m)   (u0 <= 0; substitution t = (a|u|)^m; Q the regularised upper
    incomplete gamma function; m = 1: n_m e^{a u0}/a, the closed form of Origin0.lean `da_m1_spread_eq_integral`; DR is m = 2)."""
    from scipy import special
    return lambda u0: n_m / (a * m) * float(special.gamma(1.0 / m)) * float(special.gammaincc(1.0 / m, (a * abs(u0)) ** m))


def corner_params(name, rng):
    """Parameter vectors of the quad-based models over the whole box, with weight on the corners where the low-pressure tail of n/p carries
    the integral (Toth/Jensen-Seaton: small heterogeneity exponent; DR/DA: small RT/e, exponent at and near its lower bound 1, at its upper bound 3).
    Returns (params, temperature)."""
    par = sample_params(name, rng)
    temp = 300.0
    r = rng.random()
    if name == "Toth":
        if r < 0.4:
            par["t"] = logu(rng, 0.1, 0.3)
        elif r < 0.5:
            par["t"] = rng.choice([0.1, 1.0, 4.0])
        elif r < 0.7:
            par["t"] = logu(rng, 2.5, 4.0)          # steep: the plateau is reached to the last bit of the loading well inside the queried range
    elif name == "JensenSeaton":
        if r < 0.4:
            par["c"] = logu(rng, 0.1, 0.3)
        elif r < 0.5:
            par["c"] = rng.choice([0.1, 1.0, 4.0])
        elif r < 0.7:
            par["c"] = logu(rng, 2.5, 4.0)
    else:
        # a = RT/e in [A_LOW, 3] (e has no upper bound in the models: N2 at 77 K with e = 22 kJ/mol is a = 0.029).  Finding S49-C11a (repaired by a
        # fix: commit, see known_findings.json): DR/DA.spreading_pressure used scipy quad on n(p)/p from 0 — a p^(a-1)-like integrand at default
        # settings; quad emitted IntegrationWarning and returned its estimate — and was wrong far beyond 1e-3 for small a, e.g. N2 at 77.355 K,
        # DA(n_m=10, e=22000, m=3), a = 0.029: Π(0.5) = 374.5 vs 298.5 by the closed form n_m/(a m) Γ(1/m) Q(1/m, (a|ln p|)^m); DR(e=25000): 0.8 % off;
        # a < 0.01: a factor 3 to 6.  The repaired method integrates n(e^u) du over u = ln p (Origin0.lean `integral_div_eq_integral_comp_exp`).
        # Below a ≈ 0.04 the part of ∫ n(e^u) du beyond the range of the doubles is not negligible: `ref_from_origin(tail=da_tail(...))`.
        temp = rng.uniform(77.0, 400.0)
        a = A_MIN if r < 0.1 else A_LOW if r < 0.2 else logu(rng, A_LOW, A_MIN) if r < 0.55 else logu(rng, A_MIN, 3.0)
        par["e"] = R_GAS * temp / a
        if name == "DA":
            r2 = rng.random()
            if r2 < 0.2:
                par["m"] = 1.0
            elif r2 < 0.4:
                par["m"] = 1.0 + logu(rng, 1e-6, 0.3)
            elif r2 < 0.5:
                par["m"] = 3.0
    return par, temp


A_MIN = 0.083     # = R·300 K / 3e4 J/mol, the lower edge of the box of pgv.models.sample_params
A_LOW = 1e-3      # lower edge of a = RT/e in section 2b (e = 640 kJ/mol at 77 K: far beyond any measured characteristic energy, inside the bounds of the model)

# pressure units (Pa per unit) — the harness's own table, independent of pygaps.units
P_UNITS = {"Pa": 1.0, "kPa": 1e3, "MPa": 1e6, "mbar": 100.0, "bar": 1e5, "atm": 101325.0, "mmHg": 133.322, "torr": 133.322}
REPS = [("absolute", u) for u in P_UNITS] + [("relative", None), ("relative%", None)]


def rep_factor(rep, p0_pa):
    """Pa per 1 unit of the representation `rep` = (mode, unit)."""
    mode, unit = rep
    if mode == "absolute":
        return P_UNITS[unit]
    return p0_pa if mode == "relative" else p0_pa / 100.0


def smooth_loading(rng):
    """A smooth increasing isotherm (Langmuir + power law) in terms of the reduced pressure x = p / p_scale."""
    a, k, b, c = rng.uniform(0.5, 8), logu(rng, 0.05, 50), rng.uniform(0.0, 2), rng.uniform(0.2, 1.0)
    return lambda x: a * k * x / (1 + k * x) + b * x ** c


def dense_pressures(rng):
    """Strictly increasing positive pressures: over many decades, very small (1e-9 … 1e-3), and with closely spaced neighbours
    (relative spacing 1e-9 … 1e-3, absolute spacing 1e-10 … 1e-8)."""
    n = rng.randint(2, 10)
    style = rng.choice(["wide", "tiny", "cluster", "cluster"])
    if style == "tiny":
        lo = rng.uniform(-9, -6)
        ps = [10 ** rng.uniform(lo, lo + rng.uniform(0.5, 3)) for _ in range(n)]
    else:
        lo = rng.uniform(-9, -1)
        ps = [10 ** rng.uniform(lo, lo + rng.uniform(1, 6)) for _ in range(n)]
    if style == "cluster":
        for p in rng.sample(ps, min(len(ps), rng.randint(1, 3))):
            ps.append(p * (1 + logu(rng, 1e-9, 1e-3)) if rng.random() < 0.6 else p + logu(rng, 1e-10, 1e-8))
    return sorted({float(p) for p in ps if p > 0})


def exact_ref(ps, ls, q):
    """∫_0^q (piecewise-linear interpolant, Henry's law below the first point)/p dp in exact rational arithmetic; the logarithm of each
    segment as log1p of the (exact) relative step, which keeps its relative accuracy for closely spaced points."""
    fp, fl, fq = [frac(p) for p in ps], [frac(l) for l in ls], frac(q)
    if fq <= fp[0]:
        return float(fl[0] / fp[0] * fq)
    area = fl[0]
    for i in range(len(fp) - 1):
        lo, hi = fp[i], min(fp[i + 1], fq)
        if hi <= lo:
            break
        slope = (fl[i + 1] - fl[i]) / (fp[i + 1] - fp[i])
        area += slope * (hi - lo) + (fl[i] - slope * fp[i]) * frac(math.log1p(float((hi - lo) / lo)))
    return float(area)


def wrapped_fold(ps, ls, q, bits):
    """What `PointIsotherm.spreading_pressure_at` returns when the loading column is stored as an UNSIGNED integer of `bits` bits (known finding S62-C11a):
    the formula of the method in double arithmetic, with the loading difference `loadings[i + 1] - loadings[i]` of every COMPLETED segment (both end
    points below the query) taken modulo 2^bits, as numpy does for unsigned scalars; the last, partial segment uses the (float) interpolated loading and
    does not wrap.  Returns (value, number of completed segments whose loading goes down); None when the query is not above the first point."""
    n_points = sum(1 for p in ps if p < q)
    if n_points == 0:
        return None
    area, wraps = float(ls[0]), 0
    for i in range(n_points - 1):
        d = (int(ls[i + 1]) - int(ls[i])) % (1 << bits)
        wraps += int(ls[i + 1]) < int(ls[i])
        slope = float(d) / (ps[i + 1] - ps[i])
        area += slope * (ps[i + 1] - ps[i]) + (float(ls[i]) - slope * ps[i]) * math.log(ps[i + 1] / ps[i])
    j = n_points - 1
    lq = float(interp_exact([frac(x) for x in ps], [frac(x) for x in ls], frac(q)))
    slope = (lq - ls[j]) / (q - ps[j])
    area += slope * (q - ps[j]) + (ls[j] - slope * ps[j]) * math.log(q / ps[j])
    return area, wraps


def cond_floor(ps, ls, q):
    """Rounding floor of the library's own formula, Σ slope_i Δp_i + intercept_i ln(p_{i+1}/p_i): the argument of each logarithm carries one
    rounding, i.e. an absolute error of one ulp of 1 in the logarithm, times the intercept; each product carries one more.  For a steep chord
    over a narrow pressure step (e.g. loading 0 → 2.7 between 5.576 and 5.59 bar: intercept -1064) the two terms cancel and this floor, not the
    relative tolerance, is what the formula can deliver (measured on the unchanged tree: 5.8e-9 relative at Π = 1.5e-5, 9e-14 absolute against a
    floor of 4e-12).  16 ulp of the summed magnitudes."""
    tot = 0.0
    for i in range(len(ps) - 1):
        if not ps[i] < q:
            break
        hi = min(ps[i + 1], q)
        slope = (ls[i + 1] - ls[i]) / (ps[i + 1] - ps[i])
        tot += abs(ls[i] - slope * ps[i]) + abs(slope * (hi - ps[i]))
    return 16 * 2.3e-16 * tot


def edge_position(P, q, foreign):
    """Signature keys of a point-isotherm query, from the INPUT alone: is the pressure given in a unit / mode other than the stored one, and does it sit
    on the last (first) data point as the library itself converts it to that unit — within 4 ulp, the reach of one conversion there and back."""
    ulp4 = 4 * 2.3e-16
    where = "last data point" if abs(q - P[-1]) <= ulp4 * P[-1] else "first data point" if abs(q - P[0]) <= ulp4 * P[0] else "elsewhere"
    return {"query_unit": "foreign" if foreign else "native", "query_position": where}


def interp_exact(fp, fl, fq):
    """value of the interpolant at fq (exact rational): Henry's law below the first knot, the chord of the segment (a, b] that contains fq"""
    if fq <= fp[0]:
        return fl[0] / fp[0] * fq
    j = max(jj for jj in range(len(fp)) if fp[jj] < fq)
    j = min(j, len(fp) - 2)
    return fl[j] + (fl[j + 1] - fl[j]) / (fp[j + 1] - fp[j]) * (fq - fp[j])


def fold_with_lq(ps, ls, q, k, lq):
    """`spreadPoint` of Model/SpreadPoint.lean for k = (number of points below q) >= 1 with a GIVEN loading `lq` at the query (exact rationals, logarithms as
    log1p of the exact relative step): loadings[0] + the whole segments below + slope (q - p_{k-1}) + intercept ln(q / p_{k-1}), slope = (lq - l_{k-1}) / (q - p_{k-1}).
    Returns the value and the rounding floor of that last term in double arithmetic (as `cond_floor`: 16 ulp of |intercept| + |slope (q - p_{k-1})|): when `lq`
    does not tend to l_{k-1} as q -> p_{k-1} the slope is unbounded just above a data point and the two terms cancel."""
    fp, fl, fq, flq = [frac(p) for p in ps], [frac(l) for l in ls], frac(q), frac(lq)
    area = fl[0]
    for i in range(k - 1):
        slope = (fl[i + 1] - fl[i]) / (fp[i + 1] - fp[i])
        area += slope * (fp[i + 1] - fp[i]) + (fl[i] - slope * fp[i]) * frac(math.log1p(float((fp[i + 1] - fp[i]) / fp[i])))
    slope = (flq - fl[k - 1]) / (fq - fp[k - 1])
    area += slope * (fq - fp[k - 1]) + (fl[k - 1] - slope * fp[k - 1]) * frac(math.log1p(float((fq - fp[k - 1]) / fp[k - 1])))
    return float(area), 16 * 2.3e-16 * float(abs(fl[k - 1] - slope * fp[k - 1]) + abs(slope * (fq - fp[k - 1])))


def fold_request(ps, ls, q):
    """request line for Drv/SpreadPoint.lean (`sp`): exact rationals of the doubles, logarithms as the doubles Python computes"""
    fp, fl, fq = [frac(p) for p in ps], [frac(l) for l in ls], frac(q)
    k = sum(1 for p in fp if p < fq)
    lq = fl[0] if k == 0 else interp_exact(fp, fl, fq)
    logs = [frac(math.log(ps[t + 1] / ps[t])) for t in range(len(ps) - 1)]
    lg = frac(math.log(q / ps[k - 1])) if k > 0 else Fr(0)
    return "sp [%s] [%s] [%s] %s %s %s" % (";".join(map(qstr, fp)), ";".join(map(qstr, fl)), ";".join(map(qstr, logs)), qstr(fq), qstr(lq), qstr(lg)), k


SPREAD = ["Henry", "Langmuir", "DSLangmuir", "TSLangmuir", "Quadratic", "BET", "GAB", "TemkinApprox", "Freundlich",
          "Toth", "JensenSeaton", "DR", "DA"]
QUADBASED = {"Toth", "JensenSeaton", "DR", "DA"}


def run(ck):
    pg = import_pygaps()
    import numpy as np
    import pandas as pd
    from pygaps.utilities.exceptions import CalculationError, ParameterError
    rng = ck.rng
    thorough = ck.tier == "thorough"
    nvec = ck.n(14, 120)
    info = ck.gen_info.get("Models", {}).get("models", {})

    # ------------------------------------------------------------------ 1. translator validation of the closed-form spreading pressures
    lines, meta = [], []
    for name in SPREAD:
        if not info.get(name, {}).get("functions", {}).get("spreading_pressure", "").startswith("closed"):
            continue
        order = info[name]["params"]
        for _ in range(nvec):
            par = sample_params(name, rng)
            m = make(pg, name, par)
            for x in p_grid(name, par, rng, 2)[:4]:
                lines.append(f"ev {name} spreading_pressure [{';'.join(bits(par[k]) for k in order)}] {bits(x)}")
                meta.append((name, par, x, m))
    tv_bad = 0
    try:
        replies = ck.drive("ModelsF", lines)
    except Exception as e:
        replies = None
        ck.broken.append({"step": "driver ModelsF", "what": str(e)[:500]})
    if replies:
        for (name, par, x, m), rep, line in zip(meta, replies, lines):
            with np.errstate(all="ignore"):
                py = float(m.spreading_pressure(np.float64(x)))
            t = rep.split()
            ck.count(("tv", name, x, tuple(par.values())), bucket="translator:" + name)
            if t[0] != "ok" or relerr(unbits(t[1]), py) > 1e-11:
                tv_bad += 1
                if tv_bad <= 3:
                    ck.broken.append({"step": "translator validation Gen.F vs Python", "what": {"request": line, "lean": rep, "python": py}})
    ck.cov["translator_cases"] = len(lines)

    # ------------------------------------------------------------------ 2. models: Π against the quadrature of the class's own loading/x
    import warnings as _warnings
    from scipy.integrate import IntegrationWarning
    worst = {}
    # (S37 / S37b — DA / DR values inside a 3e-3 envelope whenever scipy's quad warned that it did not converge — were the mild end of S49-C11a and are
    #  repaired with it: there is no excuse for a deviation any more, with or without an IntegrationWarning.)
    for name in SPREAD:
        for iv in range(nvec):
            par = sample_params(name, rng)
            m = make(pg, name, par)
            ps = p_grid(name, par, rng, 4)
            sig = {"model": name}
            lo = ps[0] * 1e-9
            f = lambda x: float(m.loading(np.float64(x)))  # noqa
            tol = 1e-4 if name in QUADBASED else 1e-8
            prev = None
            for p in ps[1::2][:4]:
                with np.errstate(all="ignore"), _warnings.catch_warnings(record=True) as wlist:
                    _warnings.simplefilter("always")
                    try:
                        sp = float(m.spreading_pressure(np.float64(p)))
                    except Exception as e:  # noqa
                        ck.fail_case({**sig, "clause": "evaluates"}, {"params": par, "p": p, "error": repr(e)})
                        continue
                warned = any(isinstance(w.message, IntegrationWarning) for w in wlist)
                ck.count(("model", name, p, tuple(par.values())), bucket="integral:" + name,
                         sample={"model": name, "params": par, "p": p, "spreading_pressure": sp} if iv == 0 and prev is None else None)
                if name in REL_ONLY:
                    # lower limit 0 is singular for DR/DA (log p): compare differences only
                    if prev is not None:
                        ref = ref_integral(f, prev[0], p)
                        err = abs((sp - prev[1]) - ref) / max(abs(ref), 1e-300)
                        worst[name] = max(worst.get(name, 0), err)
                        if err > 10 * tol:
                            ck.fail_case({**sig, "clause": "additive/integral"}, {"params": par, "a": prev[0], "b": p, "got": sp - prev[1], "reference": ref,
                                                                                 "quad_warned": bool(warned or prev[2])})
                else:
                    # ∫_0^lo n/x ≈ n(lo) for the Henry-like start (Freundlich: m·n(lo))
                    head = f(lo) * (par["m"] if name == "Freundlich" else 1.0)
                    ref = head + ref_integral(f, lo, p, panels=16)
                    got = sp - (par["n_m"] * par["tht"] / 2 if name == "TemkinApprox" else 0.0)
                    err = abs(got - ref) / max(abs(ref), 1e-300)
                    worst[name] = max(worst.get(name, 0), err)
                    cap = sum(abs(v) for kk, v in par.items() if kk.startswith("n_m")) or 1.0
                    if abs(got - ref) > tol * abs(ref) + 4e-15 * cap:
                        if name == "TemkinApprox":
                            ck.fail_case({**sig, "clause": "integral (corrected by n_m*theta/2)"}, {"params": par, "p": p, "got": got, "reference": ref})
                        else:
                            ck.fail_case({**sig, "clause": "integral"}, {"params": par, "p": p, "got": sp, "reference": ref})
                    if prev is not None:
                        refd = ref_integral(f, prev[0], p)
                        # (the same rounding floor as for the integral clause: log(1 + x) of the closed forms carries an absolute error of one ulp of 1,
                        #  i.e. 1e-16 n_m in Π, which is 1e-8 of an increment of 1e-8 n_m — thorough seeds 2 and 3 raised that as a false alarm)
                        if abs((sp - prev[1]) - refd) > tol * max(abs(refd), abs(sp)) + 4e-15 * cap:
                            ck.fail_case({**sig, "clause": "additive"}, {"params": par, "a": prev[0], "b": p, "got": sp - prev[1], "reference": refd})
                    if prev is not None and not sp >= prev[1]:
                        ck.fail_case({**sig, "clause": "increasing"}, {"params": par, "a": prev[0], "b": p})
                prev = (p, sp, warned)
            # zero limit
            if name not in REL_ONLY:
                with np.errstate(all="ignore"):
                    z = float(m.spreading_pressure(np.float64(0.0)))
                if z != 0.0:
                    ck.fail_case({**sig, "clause": "zero"}, {"params": par, "value_at_zero": z,
                                                             "note": "n_m*theta/2 = %r" % (par.get("n_m", 0) * par.get("tht", 0) / 2)})
    ck.cov["worst_rel_err_vs_quadrature"] = {k: float(f"{v:.3g}") for k, v in worst.items()}

    # ------------------------------------------------------------------ 2b. quad-based models: Π anchored AT THE ORIGIN, whole parameter box, p -> 0
    # Π(p) = ∫_0^p n/x dx is the only primitive of n/x that tends to 0 at 0 (Origin0.lean `anchored_primitive_unique`); a primitive anchored at some
    # ε > 0 has the right derivative and the right differences but is negative below ε and misses ∫_0^ε (`primitive_anchored_at_eps_*`).
    worst0, n_warned, n_origin, nfail0 = {}, 0, 0, {}

    def fail0(sig, detail):
        key = (sig["model"], sig["clause"])
        nfail0[key] = nfail0.get(key, 0) + 1
        if nfail0[key] <= 4:           # a handful of replay files per (model, clause) is enough
            ck.fail_case(sig, detail)
    for name in sorted(QUADBASED):
        for iv in range(ck.n(16, 160)):
            par, temp = corner_params(name, rng)
            m = make(pg, name, par, temp)
            sig = {"model": name}
            f = lambda x: float(m.loading(np.float64(x)))  # noqa
            if name in REL_ONLY:
                qs = [1e-300, 1e-30, 10 ** rng.uniform(-14, -7), 10 ** rng.uniform(-7, -3), 1e-2, rng.uniform(1e-4, 1), rng.choice([0.5, 1.0])]
            else:
                sc = 1.0 / (par["K"] if name == "Toth" else par["K"] / par["a"])      # pressure at which the loading leaves Henry's law
                qs = [sc * x for x in (1e-200, 1e-30, 10 ** rng.uniform(-14, -7), 10 ** rng.uniform(-7, -3), logu(rng, 1e-2, 1e1), logu(rng, 1e1, 1e4),
                                       logu(rng, 1e3, 1e4))]          # (the last one: far on the plateau, where 1 - n/n_m is below the spacing of the doubles for steep exponents)
            qs = sorted(set(qs))
            a_ = R_GAS * temp / par["e"] if name in REL_ONLY else None
            tail = da_tail(par["n_m"], a_, par.get("m", 2.0)) if name in REL_ONLY else None
            with np.errstate(all="ignore"):
                refs = [ref_from_origin(f, q, umin=-700.0, tail=tail) if tail else ref_from_origin(f, q) for q in qs]
            full = max(refs)
            if tail:
                # the model equation behind the tail is the class's own loading: n(e^u) = n_m exp(-(a|u|)^m) where both can be evaluated
                for u0 in (-650.0, -200.0, -3.0):
                    mine = par["n_m"] * math.exp(-(a_ * abs(u0)) ** par.get("m", 2.0))
                    if not abs(f(math.exp(u0)) - mine) <= 1e-9 * mine + 1e-290:
                        ck.broken.append({"step": "DR/DA loading vs the model equation used for the tail of the reference integral",
                                          "what": {"model": name, "params": par, "temperature": temp, "p": math.exp(u0), "loading": f(math.exp(u0)), "equation": mine}})
            if name == "DA" and par["m"] == 1.0:
                # exact corner (Origin0.lean `da_m1_loading`, `da_m1_spread_eq_integral`): n = n_m p^a, Π = n_m p^a / a, a = RT/e — validates the reference itself
                for q, ref in zip(qs, refs):
                    exact = par["n_m"] * q ** a_ / a_
                    if abs(ref - exact) > 1e-9 * exact + 1e-12 * full:      # (the panels stop where e^u underflows: absolute floor)
                        ck.broken.append({"step": "reference quadrature from the origin vs the closed form of DA at m = 1",
                                          "what": {"params": par, "temperature": temp, "p": q, "reference": ref, "closed_form": exact}})
                refs = [par["n_m"] * q ** a_ / a_ for q in qs]
            prev = None
            for q, ref in zip(qs, refs):
                with np.errstate(all="ignore"), _warnings.catch_warnings(record=True) as wlist:
                    _warnings.simplefilter("always")
                    try:
                        sp = float(m.spreading_pressure(np.float64(q)))
                    except Exception as e:  # noqa
                        fail0({**sig, "clause": "evaluates"}, {"params": par, "temperature": temp, "p": q, "error": repr(e)})
                        continue
                warned = any(isinstance(w.message, IntegrationWarning) for w in wlist)
                n_warned += warned
                n_origin += 1
                ck.count(("origin", name, q, temp, tuple(par.values())), bucket="origin-anchored:" + name,
                         sample={"model": name, "params": par, "temperature": temp, "p": q, "spreading_pressure": sp, "reference_from_origin": ref} if iv == 0 and prev is None else None)
                detail = {"params": par, "temperature": temp, "p": q, "got": sp, "reference_from_origin": ref, "reference_at_largest_p": full,
                          "quad_warned": bool(warned)}
                # tolerance: scipy quad at its defaults (epsabs = epsrel = 1.49e-8) on a singular integrand; measured on the unchanged tree over
                # 2e5 (model, parameters, p) without IntegrationWarning: |Π - ref| <= 0.7 (1e-4 |ref| + 1e-7) for DR, <= 0.25 of it for the others
                # DR / DA after the repair S49-C11a (quad over s = RT/e ln p, a smooth integrand of unit scale): |Π - closed form| <= 0.04 (1e-4 |Π| + 1e-7) over 4e4 cases of
                # this generator and never an IntegrationWarning; the Gauss-Legendre reference itself is good to 1e-6 |Π| + 1e-8 (kink of |u|^m at u = 0): 2e-5 |ref| + 2e-7
                tol = (2e-5 if name in REL_ONLY else 2e-4) * abs(ref) + 2e-7
                dev = abs(sp - ref)
                if not (sp == sp) or sp < -1e-12 * full:
                    fail0({**sig, "clause": "non-negative"}, detail)
                elif dev > tol:
                    fail0({**sig, "clause": "integral from the origin"}, detail)
                else:
                    worst0[name] = max(worst0.get(name, 0), dev / (1e-4 * abs(ref) + 1e-7))
                if prev is not None and sp < prev - tol:
                    fail0({**sig, "clause": "increasing"}, {**detail, "value_at_smaller_p": prev})
                prev = sp
            # the value AT zero pressure
            with np.errstate(all="ignore"), _warnings.catch_warnings():
                _warnings.simplefilter("ignore")
                try:
                    z = float(m.spreading_pressure(np.float64(0.0)))
                except Exception as e:  # noqa
                    z = repr(e)
            if z != 0.0:
                fail0({**sig, "clause": "zero"}, {"params": par, "temperature": temp, "value_at_zero": z})
    ck.cov["origin_anchored"] = {"cases": n_origin, "with_IntegrationWarning": n_warned,
                                 "worst_deviation_over_(1e-4|ref|+1e-7)": {k: float(f"{v:.3g}") for k, v in worst0.items()}}

    # ------------------------------------------------------------------ 3. point isotherms: fold model (ℚ) vs the real method, BOTH branches
    # A hysteretic isotherm stores its desorption rows after the adsorption rows, in order of DECREASING pressure.  The spreading pressure of a
    # branch is the fold over the rows of that branch in INCREASING order (Props/C11/Branch.lean: `orient` reverses strictly decreasing rows,
    # `orient_eq_sorted_rows`, `spreadPoint_des_eq_integral`): the exact-rational fold and the reference integral are fed the reversed stored
    # desorption rows; every oracle below runs on the adsorption and on the desorption branch alike.
    def rough_branch():
        n = rng.randint(2, 14)
        ps = sorted({round(math.exp(rng.uniform(-4, 2)), rng.randint(2, 6)) for _ in range(n)})
        ps = [p for p in ps if p > 0]
        if len(ps) < 2:
            return None
        if rng.random() < 0.5:
            ls = [float(v) for v in np.cumsum([rng.uniform(0.05, 2) for _ in ps])]          # increasing
        else:
            ls = [rng.uniform(0.0, 5) for _ in ps]                                            # arbitrary non-negative
        if rng.random() < 0.2:
            ls[0] = 0.0                                                                       # nothing adsorbed (left) at the lowest positive pressure
        return ps, ls

    nset = ck.n(30, 150)
    reqs, ctx = [], []
    for i in range(nset):
        ads = rough_branch()
        if ads is None:
            continue
        branches = {"ads": ads + (rng.random() < 0.25,)}          # (pressures, loadings, a measured origin (0, 0) at the low end) — INCREASING order
        if rng.random() < 0.6:
            des = rough_branch()
            if des is not None:
                branches["des"] = des + (rng.random() < 0.2,)     # desorption followed down to (0, 0)
        rows_p, rows_l, marks = [], [], []
        for br, (bp, bl, org) in branches.items():
            p_inc, l_inc = ([0.0] if org else []) + bp, ([0.0] if org else []) + bl
            if br == "des":                                       # stored as measured: downwards
                p_inc, l_inc = p_inc[::-1], l_inc[::-1]
            rows_p += p_inc
            rows_l += l_inc
            marks += [0 if br == "ads" else 1] * len(p_inc)
        data = pd.DataFrame({"pressure": rows_p, "loading": rows_l})
        iso = pg.PointIsotherm(isotherm_data=data, pressure_key="pressure", loading_key="loading", material="pgv_m", adsorbate="N2",
                               temperature=77.355, pressure_mode="absolute", pressure_unit="bar", loading_basis="molar",
                               loading_unit="mmol", material_basis="mass", material_unit="g", branch=marks)
        for br, (ps, ls, origin) in branches.items():
            qs = [ps[0] * 0.3, ps[0], ps[-1]] + [rng.uniform(ps[0], ps[-1]) for _ in range(3)] + [rng.choice(ps)]
            for q in qs:
                k = sum(1 for p in ps if p < q)
                # linear interpolant at q (exact rational), logs as the doubles Python computes
                fp, fl, fq = [frac(p) for p in ps], [frac(l) for l in ls], frac(q)
                lq = fl[0] if k == 0 else interp_exact(fp, fl, fq)
                logs = [frac(math.log(ps[t + 1] / ps[t])) for t in range(len(ps) - 1)]
                lg = frac(math.log(q / ps[k - 1])) if k > 0 else Fr(0)
                if origin:
                    fp, fl = [Fr(0)] + fp, [Fr(0)] + fl
                reqs.append("%s [%s] [%s] [%s] %s %s %s" % ("spd" if origin or rng.random() < 0.3 else "sp", ";".join(map(qstr, fp)), ";".join(map(qstr, fl)), ";".join(map(qstr, logs)) if logs else "",
                                                             qstr(fq), qstr(lq), qstr(lg)))
                ctx.append((iso, br, ps, ls, q, k, branches))
    try:
        reps = ck.drive("SpreadPoint", reqs)
    except Exception as e:
        reps = None
        ck.broken.append({"step": "driver SpreadPoint", "what": str(e)[:500]})
    n_dis, nfail_r = 0, {}

    def fail_r(sig, detail):
        key = (sig["clause"], sig["branch"])
        nfail_r[key] = nfail_r.get(key, 0) + 1
        if nfail_r[key] <= 4:           # a handful of replay files per (clause, branch) is enough
            ck.fail_case(sig, detail)

    for idx, (iso, br, ps, ls, q, k, branches) in enumerate(ctx):
        sig = {"class": "PointIsotherm", "k": min(k, 2), "branch": br}
        bkw = {"branch": br} if br != "ads" or idx % 2 else {}          # the adsorption branch is also the default
        stored = {b: {"pressures_increasing": v[0], "loadings": v[1], "measured_origin": v[2]} for b, v in branches.items()}
        base = {"branch": br, "pressures": ps, "loadings": ls, "query": q, "isotherm_branches": stored}
        try:
            got = float(iso.spreading_pressure_at(q, **bkw))
        except Exception as e:  # noqa
            got = ("err", err_class(e))
        # independent reference: Henry part + per-segment quadrature of the chord
        def qfun(x):  # noqa
            if x <= ps[0]:
                return ls[0] / ps[0] * x
            j = max(t for t in range(len(ps)) if ps[t] < x)
            j = min(j, len(ps) - 2)
            return ls[j] + (ls[j + 1] - ls[j]) / (ps[j + 1] - ps[j]) * (x - ps[j])
        ref = ls[0] / ps[0] * min(q, ps[0])
        knots = [p for p in ps if p < q] + [q]
        for a, b in zip(knots, knots[1:]):
            if b > a:
                ref += ref_integral(qfun, a, b, panels=2)
        ck.count(("point", br, tuple(ps), tuple(ls), q), bucket=f"point:{br}:k={min(k, 3)}",
                 sample={**base, "implementation": got, "model": reps[idx] if reps else None} if idx % 61 == 0 else None)
        floor = cond_floor(ps, ls, q)
        if isinstance(got, tuple) or not abs(got - ref) <= 1e-9 * max(abs(ref), 1e-12) + floor:
            fail_r({**sig, "clause": "integral of the interpolant"}, {**base, "got": got, "reference": ref, "rounding_floor_of_the_formula": floor})
            continue
        if reps is not None:
            r = reps[idx].split()
            if not (r[0] == "ok" and (close(got, Fr(r[1]), rel=1e-10) or abs(got - float(Fr(r[1]))) <= floor)):
                n_dis += 1
                if n_dis <= 3:
                    ck.broken.append({"step": "correspondence Model/SpreadPoint.lean", "what": {"branch": br, "request": reqs[idx][:300], "model": reps[idx][:80], "implementation": got}})
        # unit arguments: pressure given in kPa is converted first; loading unit scales the result
        if idx % 2 == 0 and ps[0] < q < ps[-1] * 0.999:
            try:
                alt = float(iso.spreading_pressure_at(q * 100, pressure_unit="kPa", **bkw))
                alt2 = float(iso.spreading_pressure_at(q, loading_unit="mol", **bkw))
            except Exception as e:  # noqa
                alt, alt2 = ("err", err_class(e)), None
            if isinstance(alt, tuple) or not abs(alt - got) <= 1e-10 * abs(got) + 2 * floor or not abs(alt2 * 1000 - got) <= 1e-10 * abs(got) + 2 * floor:
                fail_r({**sig, "clause": "unit arguments converted first"}, {**base, "native": got, "kPa": alt, "mol": alt2})
        # history independence of the value: after cubic queries and queries on the OTHER branch the value on this branch is the same
        if idx % 3 == 0:
            other = [b for b in branches if b != br]
            try:
                iso.loading_at(ps[0] * 1.0001 if len(ps) < 4 else (ps[1] + ps[2]) / 2, branch=br, interpolation_type="cubic" if len(ps) >= 4 else "linear")
                for ob in other:
                    iso.loading_at(branches[ob][0][0], branch=ob)
                    iso.spreading_pressure_at(branches[ob][0][-1], branch=ob)
            except Exception:
                pass
            try:
                again = float(iso.spreading_pressure_at(q, **bkw))
            except Exception as e:  # noqa
                again = ("err", err_class(e))
            if again != got:
                fail_r({**sig, "clause": "same value after other queries"}, {**base, "first": got, "after": again})

    # ------------------------------------------------------------------ 3b. point isotherms: small / closely spaced pressures, queries a hair off the knots,
    #                                                                        in every pressure unit and mode of data and query
    # Π is invariant under a change of the pressure unit (Scale.lean `spreadPoint_scale`) and continuous across the knots (`spreadPoint_at_knot`):
    # the exact-rational fold run on the data AS CONVERTED to the unit of the query is the prediction, whatever the magnitudes of the numbers.
    p0_pa = float(pg.Adsorbate.find("N2").saturation_pressure(77.355, unit="Pa"))
    reqs2, ctx2 = [], []

    def dense_branch():
        ps = dense_pressures(rng)
        if len(ps) < 2:
            return None
        clustered = any(b - a < 1e-3 * a for a, b in zip(ps, ps[1:]))
        shape = smooth_loading(rng)
        ls = [shape(x / ps[len(ps) // 2]) for x in ps]
        if not clustered and rng.random() < 0.4:
            # rough data: any increasing loadings (closely spaced points keep the smooth shape: a loading step Δl across a relative pressure
            # step δ is evaluated by the library's own formula with an error Δl·1e-16/δ, which is conditioning, not a defect)
            ls = list(np.cumsum([rng.uniform(0.01, 2) for _ in ps]))
        ls = [float(l) for l in ls]
        if not all(b > a for a, b in zip(ls, ls[1:])) or ls[0] <= 0:
            return None
        return ps, ls

    def increasing(br, vals):
        """the rows of a branch in increasing pressure order: desorption rows are stored downwards"""
        vals = [float(x) for x in vals]
        return vals[::-1] if br == "des" else vals

    for i in range(ck.n(28, 170)):
        native = rng.choice(REPS)
        bd = {"ads": dense_branch()}
        if bd["ads"] is None:
            continue
        if rng.random() < 0.5:
            # hysteresis: an independent desorption branch, stored after the adsorption rows in order of decreasing pressure
            d = dense_branch()
            if d is not None:
                bd["des"] = d
        st_p = [x for br in bd for x in increasing(br, bd[br][0])]
        st_l = [x for br in bd for x in increasing(br, bd[br][1])]
        marks = [0 if br == "ads" else 1 for br in bd for _ in bd[br][0]]
        iso = pg.PointIsotherm(pressure=st_p, loading=st_l, branch=marks, material="pgv_m", adsorbate="N2", temperature=77.355, temperature_unit="K",
                               pressure_mode=native[0], pressure_unit=native[1], loading_basis="molar", loading_unit="mmol",
                               material_basis="mass", material_unit="g")
        if rng.random() < 0.25:
            # an isotherm that has been converted permanently before it is queried: the converted data are the stored data from now on
            target = rng.choice([r for r in REPS if r != native])
            try:
                iso.convert_pressure(mode_to=target[0], unit_to=target[1])
                new = {br: increasing(br, iso.pressure(branch=br)) for br in bd}
            except Exception as e:  # noqa
                ck.fail_case({"class": "PointIsotherm", "clause": "unit arguments converted first", "outcome": err_class(e)},
                             {"pressures": st_p, "branch_marks": marks, "stored_in": native, "convert_pressure_to": target, "error": repr(e)})
                continue
            if not all(b > a for br in bd for a, b in zip(new[br], new[br][1:])):
                continue
            native, bd = target, {br: (new[br], bd[br][1]) for br in bd}
        f_nat = rep_factor(native, p0_pa)
        reps = [native] + rng.sample([r for r in REPS if r != native], 2)
        for rep in reps:
          foreign = rep != native
          for br in (list(bd) if not foreign else [rng.choice(list(bd))]):
            ps, ls = bd[br]
            kw = dict(pressure_mode=rep[0], pressure_unit=rep[1]) if foreign or rng.random() < 0.3 else {}
            if br != "ads" or rng.random() < 0.5:
                kw["branch"] = br
            try:
                P = increasing(br, iso.pressure(branch=br, pressure_mode=rep[0], pressure_unit=rep[1])) if foreign else list(ps)
            except Exception as e:  # noqa
                ck.fail_case({"class": "PointIsotherm", "clause": "unit arguments converted first", "outcome": err_class(e)},
                             {"pressures": ps, "branch": br, "native": native, "requested": rep, "error": repr(e)})
                continue
            if not all(b > a for a, b in zip(P, P[1:])):
                continue          # the conversion merged two neighbours (1-ulp spacing): no longer increasing data in this unit
            qs = [P[0] * rng.uniform(0.01, 0.99), P[0], P[-1]] + [math.exp(rng.uniform(math.log(P[0]), math.log(P[-1]))) for _ in range(2)]
            for kk in rng.sample(range(len(P)), min(len(P), 4)):
                pk = P[kk]
                eps = logu(rng, 1e-15, 1e-5)
                qs += [pk, pk * (1 + eps), pk * (1 - eps), pk * (1 + 1e-12), pk * (1 - 1e-12), pk + 1e-9, pk - 1e-9, pk + logu(rng, 1e-11, 1e-7),
                       float(np.nextafter(pk, np.inf)), float(np.nextafter(pk, 0.0))]
            # Queries run up to the last data point in EVERY unit / mode ("at the edge of the data range x unit arguments").  Known finding S49-C11b: with a
            # FOREIGN unit / mode the unchanged spreading_pressure_at raises scipy's ValueError ("above the interpolation range") at the last data point
            # (as converted by the library itself): its guard compares in the unit of the query, then loading_at converts the query back to the unit of
            # the data and the round trip lands an ulp above the data; `edge_position` below puts exactly that input class into the signature.
            qs = sorted({q for q in qs if 0 < q <= P[-1]})
            for q in qs:
                req, k = fold_request(P, ls, q)
                reqs2.append(req)
                ctx2.append((iso, native, rep, kw, P, ls, q, k, q * rep_factor(rep, p0_pa) / f_nat, ps, br))
    try:
        reps2 = ck.drive("SpreadPoint", reqs2)
    except Exception as e:
        reps2 = None
        ck.broken.append({"step": "driver SpreadPoint (dense)", "what": str(e)[:500]})
    n_dis2, worst_pt, nfail = 0, {"reference": 0.0, "fold": 0.0, "unit": 0.0}, {}

    def fail_pt(clause, detail, **more):
        key = (clause, detail.get("branch"), tuple(sorted(more.items())))          # (the cap is per signature: a known finding never uses up the quota of another failure)
        nfail[key] = nfail.get(key, 0) + 1
        if nfail[key] <= 4:
            ck.fail_case({"class": "PointIsotherm", "clause": clause, "branch": detail.get("branch"), **more}, detail)

    last = None          # (iso, rep, branch) -> previous (q, Π) of the same branch of the same isotherm in the same representation, queries increasing
    for idx, (iso, native, rep, kw, P, ls, q, k, q_nat, ps, br) in enumerate(ctx2):
        detail = {"branch": br, "branch_pressures_increasing": ps, "stored_in": native, "loadings": ls, "query": q, "query_in": rep, "keyword_arguments": kw,
                  "pressures_in_unit_of_query": P, "note": "desorption rows are stored after the adsorption rows in the reverse (decreasing) order" if br == "des" else ""}
        try:
            got = float(iso.spreading_pressure_at(q, **kw))
        except Exception as e:  # noqa
            fail_pt("integral of the interpolant", {**detail, "got": repr(e)}, outcome=err_class(e), **edge_position(P, q, rep != native))
            ck.count(("point-dense", br, tuple(ps), native, rep, q), bucket=f"point-dense:{br}:" + ("native" if rep == native else "foreign") + ":refused")
            last = None
            continue
        ref = exact_ref(P, ls, q)
        ck.count(("point-dense", br, tuple(ps), native, rep, q), bucket=f"point-dense:{br}:" + ("native" if rep == native else "foreign") + f":k={min(k, 3)}",
                 sample={**detail, "implementation": got, "reference": ref, "model": reps2[idx][:60] if reps2 else None} if idx % 997 == 0 else None)
        worst_pt["reference"] = max(worst_pt["reference"], abs(got - ref) / abs(ref))
        if not abs(got - ref) <= 1e-9 * abs(ref):
            fail_pt("integral of the interpolant", {**detail, "got": got, "reference": ref})
            last = None
            continue
        if reps2 is not None:
            r = reps2[idx].split()
            if r[0] == "ok":
                worst_pt["fold"] = max(worst_pt["fold"], abs(got - float(Fr(r[1]))) / abs(ref))
            if not (r[0] == "ok" and close(got, Fr(r[1]), rel=1e-10)):
                n_dis2 += 1
                if n_dis2 <= 3:
                    ck.broken.append({"step": "correspondence Model/SpreadPoint.lean (dense)", "what": {"request": reqs2[idx][:300], "model": reps2[idx][:80], "implementation": got}})
        # the same pressure given in the unit of the data
        if rep != native and ps[0] * 1e-3 < q_nat <= ps[-1] * (1 - 1e-12):
            try:
                nat = float(iso.spreading_pressure_at(q_nat, branch=br))
            except Exception as e:  # noqa
                nat = None
            if nat is not None:
                worst_pt["unit"] = max(worst_pt["unit"], abs(nat - got) / abs(nat))
                if not abs(nat - got) <= 1e-9 * abs(nat):
                    fail_pt("unit arguments converted first", {**detail, "got": got, "same_pressure_in_unit_of_data": q_nat, "got_there": nat})
        # increments: Π(b) - Π(a) = ∫_a^b n dln p lies between min n and max n on [a, b] times ln(b/a)
        if last is not None and last[0] is iso and last[1] == (rep, br) and q > last[2]:
            a, pa = last[2], last[3]
            fp, fl = [frac(x) for x in P], [frac(x) for x in ls]
            vals = [interp_exact(fp, fl, frac(a)), interp_exact(fp, fl, frac(q))] + [fl[j] for j in range(len(P)) if a < P[j] < q]
            lnr = math.log1p((q - a) / a)
            lo_b, hi_b = float(min(vals)) * lnr, float(max(vals)) * lnr
            slack = 1e-6 * hi_b + 1e-12 * abs(got)
            if not (lo_b - slack <= got - pa <= hi_b + slack):
                fail_pt("increment between min and max loading times d ln p", {**detail, "previous_query": a, "previous_value": pa, "got": got,
                                                                               "increment": got - pa, "bounds": [lo_b, hi_b]})
        last = (iso, (rep, br), q, got)
    ck.cov["point_dense"] = {"cases": len(ctx2), "correspondence_disagreements": n_dis2,
                             "worst_relative_deviation": {k: float(f"{v:.3g}") for k, v in worst_pt.items()}}

    # ------------------------------------------------------------------ 3c. point isotherms: the RESULT in a requested loading / material representation
    # spreading_pressure_at(p, loading_basis=, loading_unit=, material_basis=, material_unit=[, pressure_mode=, pressure_unit=]) is the integral of the
    # interpolant of the data AS CONVERTED to that representation: (A) the exact-rational fold / reference on the columns the accessors return for the same
    # arguments (C03 ties those to the SI tables), (B) the same query asked natively from a copy that was converted permanently.  Any subset of the four
    # loading / material arguments, alone and combined, with and without a pressure unit / mode, on both branches, below the first point, inside
    # segments, at and a hair off the knots, at the edge of the data.  All loading conversions are linear, so Π simply scales — unless one part of the
    # method converts and another does not.
    # Known finding S49-C11c (root: the known findings S5a-S5g of C03): when a fraction / percent loading basis (stored or requested) meets a CHANGE of
    # the material basis or unit, `PointIsotherm.loading` and `PointIsotherm.loading_at` convert differently on the unchanged tree (loading_at hands the
    # STORED material representation to c_loading, loading the requested one).  spreading_pressure_at takes the data points from `loading` and the loading
    # at the query from `loading_at`, so its value is the integral of no single interpolant (the chord of the last segment ends at the wrong height; p dΠ/dp is not the loading): e.g. stored mass[cg] per
    # mass[dg], requested loading_basis='percent', material_unit='mg': Π(0.18265) = 7.457 vs 9.227 for the converted columns.  The region IS generated;
    # oracle (A) runs there and a failure is attributed by a control experiment, not by a threshold: the observed value must be reproduced (1e-9) by the
    # fold of Model/SpreadPoint.lean fed with the library's own `loading_at(query, same arguments)` as the loading at the query — the fold has that
    # number as an input (`lq`) — while that number differs from the interpolant of the `loading` columns; only then the signature carries
    # `last_segment: "loading_at disagrees with loading"` and matches S49-C11c.  Anything else in the region is a failing input like everywhere.
    # Oracle (B) is not run in the region: whether `loading(...)` or the permanent conversion gives the RIGHT fraction after a material change is the
    # subject of C03 (S5a: they differ); C11 asks that Π is the integral of the isotherm's own (converted) loading.
    import c01
    pg.Material("pgv_c11_mat", store=True, density=2.3, molar_mass=321.0)
    LST = [(b, u) for b in ("molar", "mass", "volume_gas", "volume_liquid") for u in c01.LTABLE[b]] + [("fraction", None), ("percent", None)]
    MST = [(b, u) for b in ("mass", "volume", "molar") for u in c01.MTABLE[b]]

    def clone_point(iso):
        """a copy of a point isotherm (never deepcopy)"""
        return pg.PointIsotherm(isotherm_data=iso.data_raw.copy(), pressure_key=iso.pressure_key, loading_key=iso.loading_key, **iso.to_dict())

    reqs3, ctx3 = [], []
    n_s5 = 0
    for i in range(ck.n(24, 140)):
        nl, nm, npz = rng.choice(LST), rng.choice(MST), rng.choice(REPS)
        bd = {}
        for br in ("ads", "des") if rng.random() < 0.5 else ("ads",):
            ps = sorted({round(math.exp(rng.uniform(-4, 2)), rng.randint(2, 6)) for _ in range(rng.randint(2, 10))})
            ps = [p for p in ps if p > 0]
            if len(ps) >= 2:
                ls = [float(v) for v in np.cumsum([rng.uniform(0.05, 2) for _ in ps])] if rng.random() < 0.6 else [rng.uniform(0.01, 5) for _ in ps]
                bd[br] = (ps, ls)
        if "ads" not in bd:
            continue
        st_p = [x for br in bd for x in increasing(br, bd[br][0])]
        st_l = [x for br in bd for x in increasing(br, bd[br][1])]
        marks = [0 if br == "ads" else 1 for br in bd for _ in bd[br][0]]
        iso = pg.PointIsotherm(pressure=st_p, loading=st_l, branch=marks, material="pgv_c11_mat", adsorbate="N2", temperature=77.355, temperature_unit="K",
                               pressure_mode=npz[0], pressure_unit=npz[1], loading_basis=nl[0], loading_unit=nl[1], material_basis=nm[0], material_unit=nm[1])
        for _ in range(3):
            kind = rng.choice(["loading_unit", "loading_basis", "material_unit", "material_basis", "loading_basis+material_basis", "loading_unit+material_unit",
                               "loading_basis+material_unit", "loading_unit+material_basis"])
            in_s5 = rng.random() < 0.15          # weight on the fraction / percent x material-change corner (S49-C11c), so that every run reaches it
            if in_s5:
                kind = rng.choice(["loading_basis+material_unit", "loading_basis+material_basis"])
            rl, rm, kw = nl, nm, {}
            if "loading_unit" in kind:
                if nl[1] is None:
                    continue          # a fraction has no unit
                rl = (nl[0], rng.choice([u for u in c01.LTABLE[nl[0]] if u != nl[1]]))
                kw["loading_unit"] = rl[1]
                if rng.random() < 0.5:
                    kw["loading_basis"] = rl[0]
            if "loading_basis" in kind:
                rl = rng.choice([x for x in LST if x[0] != nl[0] and (x[1] is None or nl[1] is None or not in_s5)])
                kw["loading_basis"] = rl[0]
                if rl[1] is not None:
                    kw["loading_unit"] = rl[1]
            if "material_unit" in kind:
                rm = (nm[0], rng.choice([u for u in c01.MTABLE[nm[0]] if u != nm[1]]))
                kw["material_unit"] = rm[1]
                if rng.random() < 0.5:
                    kw["material_basis"] = rm[0]
            if "material_basis" in kind:
                rm = rng.choice([x for x in MST if x[0] != nm[0]])
                kw["material_basis"], kw["material_unit"] = rm
            s5 = (nl[1] is None or rl[1] is None) and rm != nm          # fraction / percent basis x change of the material representation (see above)
            n_s5 += s5
            rp = npz
            if rng.random() < 0.3:
                rp = rng.choice([r for r in REPS if r != npz])
            pkw = dict(pressure_mode=rp[0], pressure_unit=rp[1]) if rp != npz or rng.random() < 0.2 else {}
            # the permanently converted copy
            twin = None if s5 else clone_point(iso)          # (oracle (B) is not run in the fraction x material-change region, see above)
            try:
                if twin is not None:
                    twin.convert_material(basis_to=rm[0], unit_to=rm[1])
                    twin.convert_loading(basis_to=rl[0], unit_to=rl[1])
                    if rp != npz:
                        twin.convert_pressure(mode_to=rp[0], unit_to=rp[1])
            except Exception as e:  # noqa
                ck.fail_case({"class": "PointIsotherm", "clause": "unit arguments converted first", "outcome": err_class(e)},
                             {"stored_in": [npz, nl, nm], "permanent_conversion_to": [rp, rl, rm], "error": repr(e)})
                continue
            for br in bd:
                ps, ls = bd[br]
                bkw = {"branch": br} if br != "ads" or rng.random() < 0.5 else {}
                try:
                    P = increasing(br, iso.pressure(branch=br, **pkw))
                    L = increasing(br, iso.loading(branch=br, **kw))
                except Exception as e:  # noqa
                    ck.fail_case({"class": "PointIsotherm", "clause": "unit arguments converted first", "outcome": err_class(e)},
                                 {"stored_in": [npz, nl, nm], "branch": br, "keyword_arguments": {**kw, **pkw}, "error": repr(e)})
                    continue
                if not all(b > a for a, b in zip(P, P[1:])):
                    continue
                foreign = rp != npz
                qs = [P[0] * rng.uniform(0.05, 0.95), P[0], P[-1], rng.uniform(P[0], P[-1]), (P[0] + P[1]) / 2]
                for kk in rng.sample(range(len(P)), min(len(P), 2)):
                    pk = P[kk]
                    qs += [pk, pk * (1 + 1e-12), pk * (1 - 1e-12), pk * (1 + logu(rng, 1e-9, 1e-2)), float(np.nextafter(pk, np.inf)), float(np.nextafter(pk, 0.0))]
                qs = sorted({q for q in qs if 0 < q <= P[-1]})          # (up to the last point in every unit: S49-C11b, see section 3b)
                for q in qs:
                    req, k = fold_request(P, L, q)
                    reqs3.append(req)
                    ctx3.append((iso, twin, br, {**bkw, **kw, **pkw}, bkw, (npz, nl, nm), (rp, rl, rm), ps, ls, P, L, q, k, kind, s5, foreign))
    try:
        reps3 = ck.drive("SpreadPoint", reqs3)
    except Exception as e:
        reps3 = None
        ck.broken.append({"step": "driver SpreadPoint (requested loading / material representation)", "what": str(e)[:500]})
    n_dis3, worst_u, nfail3, n_mixed = 0, {"converted columns": 0.0, "fold": 0.0, "permanently converted copy": 0.0}, {}, 0

    def fail_u(clause, br, kind, detail, **more):
        key = (clause, br, kind, tuple(sorted(more.items())))
        nfail3[key] = nfail3.get(key, 0) + 1
        if nfail3[key] <= 2:
            ck.fail_case({"class": "PointIsotherm", "clause": clause, "branch": br, "arguments": kind, **more}, detail)

    for idx, (iso, twin, br, allkw, bkw, stored, wanted, ps, ls, P, L, q, k, kind, s5, foreign) in enumerate(ctx3):
        detail = {"branch": br, "stored_in": {"pressure": stored[0], "loading": stored[1], "material": stored[2]}, "branch_pressures_increasing": ps, "branch_loadings": ls,
                  "keyword_arguments": allkw, "requested": {"pressure": wanted[0], "loading": wanted[1], "material": wanted[2]},
                  "pressures_in_requested_representation": P, "loadings_in_requested_representation": L, "query": q}
        ck.count(("point-units", br, stored, wanted, tuple(ps), q), bucket=f"point-result-units:{br}:{kind}:k={min(k, 2)}" + (":fraction x material change" if s5 else ""),
                 sample={**detail, "model": reps3[idx][:60] if reps3 else None} if idx % 499 == 0 else None)
        region = {"fraction_basis_with_material_change": True} if s5 else {}
        try:
            got = float(iso.spreading_pressure_at(q, **allkw))
        except Exception as e:  # noqa
            fail_u("unit arguments converted first", br, kind, {**detail, "got": repr(e)}, outcome=err_class(e), **edge_position(P, q, foreign), **region)
            continue
        ref = exact_ref(P, L, q)
        floor = cond_floor(P, L, q)
        fold_ok = None
        if reps3 is not None:
            r = reps3[idx].split()
            fold_ok = r[0] == "ok" and (close(got, Fr(r[1]), rel=1e-10) or abs(got - float(Fr(r[1]))) <= floor)
        # (in the fraction x material-change region a deviation between 1e-10 and 1e-9 — the S49-C11c deviation 1e-8 above a data point, where it is still small — is a failing input like
        #  the larger ones, not a doubt about the fold model)
        if not abs(got - ref) <= 1e-9 * abs(ref) + floor or (s5 and fold_ok is False):
            more = dict(region)
            if s5 and k > 0:
                # control experiment for S49-C11c: the fold with the library's own loading_at(query) as the loading at the query (`lq` of Model/SpreadPoint.lean)
                try:
                    lq_real = float(iso.loading_at(q, **allkw))
                    lq_cols = float(interp_exact([frac(x) for x in P], [frac(x) for x in L], frac(q)))
                    mixed, floor_mixed = fold_with_lq(P, L, q, k, lq_real)
                    if abs(got - mixed) <= 1e-9 * abs(mixed) + floor + floor_mixed and not abs(lq_real - lq_cols) <= 1e-9 * abs(lq_cols):
                        more["last_segment"] = "loading_at disagrees with loading"
                        detail = {**detail, "loading_at_query_by_loading_at": lq_real, "interpolant_of_loading_columns_at_query": lq_cols, "fold_with_the_loading_at_value": mixed,
                                  "rounding_floor_of_its_last_term": floor_mixed}
                        n_mixed += 1
                except Exception as e:  # noqa
                    detail = {**detail, "control_experiment": repr(e)}
            fail_u("unit arguments converted first", br, kind, {**detail, "got": got, "integral_of_the_converted_interpolant": ref, "rounding_floor_of_the_formula": floor}, **more)
            continue
        worst_u["converted columns"] = max(worst_u["converted columns"], abs(got - ref) / abs(ref))
        if reps3 is not None:
            if r[0] == "ok":
                worst_u["fold"] = max(worst_u["fold"], abs(got - float(Fr(r[1]))) / abs(ref))
            if not fold_ok:
                n_dis3 += 1
                if n_dis3 <= 3:
                    ck.broken.append({"step": "correspondence Model/SpreadPoint.lean (requested representation)",
                                      "what": {"request": reqs3[idx][:300], "model": reps3[idx][:80], "implementation": got, "reference": ref, "rounding_floor": floor, "case": detail}})
        if twin is None:
            continue          # (oracle (B) belongs to C03 in the fraction x material-change region, see above)
        try:
            nat = float(twin.spreading_pressure_at(q, **bkw))
        except Exception as e:  # noqa
            # (the copy stores the CONVERTED pressures: a query one ulp inside the edge in the requested unit may lie outside after the permanent conversion)
            nat = None if q > P[-1] * (1 - 1e-9) else ("err", err_class(e))
        if isinstance(nat, tuple):
            fail_u("unit arguments converted first", br, kind, {**detail, "got": got, "permanently_converted_copy_asked_natively": nat})
        elif nat is not None:
            worst_u["permanently converted copy"] = max(worst_u["permanently converted copy"], abs(got - nat) / abs(nat))
            if not abs(got - nat) <= 1e-9 * abs(nat) + floor:
                fail_u("unit arguments converted first", br, kind, {**detail, "got": got, "permanently_converted_copy_asked_natively": nat})
    ck.cov["point_result_units"] = {"cases": len(ctx3), "correspondence_disagreements": n_dis3, "fraction_x_material_change_argument_sets": n_s5, "of_them_attributed_to_S49-C11c_by_the_control_experiment": n_mixed,
                                    "worst_relative_deviation": {k: float(f"{v:.3g}") for k, v in worst_u.items()}}

    # ------------------------------------------------------------------ 3d. point isotherms: the STORAGE TYPE of the data columns
    # "point isotherms with any increasing data": whole-number data arrive as Python ints, integer numpy arrays of any width, integer DataFrame columns
    # (what pandas makes of a file without a decimal point), pandas' nullable Int64 or object columns — the isotherm keeps that dtype as long as no
    # loading / material conversion is asked for.  The value of Π depends on the NUMBERS, not on how they are stored: every clause (integral of the
    # interpolant — exact-rational reference and the fold of Model/SpreadPoint.lean —, increments between min and max loading times d ln p, hence
    # increasing and additive, p dΠ/dp = n inside the segments) is checked on integer-typed pressure and / or loading columns, WITHOUT loading / material
    # arguments (with and without a pressure unit), on both branches, and against the twin isotherm holding the same numbers as float64.
    # The data of the caller and the stored columns (values and dtypes) are the same after the queries.
    # Triage of the two candidates of round 8 (T3-C11):
    # (1) KNOWN FINDING S62-C11a — an UNSIGNED integer loading column with a loading that goes down between two rows: `loadings[i + 1] - loadings[i]` wraps
    #     around in spreading_pressure_at (uint8 pressures [1, 2, 3, 5], loadings [3, 5, 4, 8]: Π(4) = 57.36 instead of 8.956).  A non-monotone loading is
    #     inside the quantifier ("increasing data" = increasing pressures: the interpolant and its integral are defined for any loadings, and the signed /
    #     float generators of sections 3-3d always contained them).  The region is generated; a failing case carries the keys `loading_storage` /
    #     `reply` ONLY when the loading column is unsigned, a completed segment goes down and the reply equals `wrapped_fold` (the method's formula with the
    #     differences taken modulo 2^width) to 1e-9 — any other wrong value on such a column stays a violation.  These cases are counted apart from the
    #     caps of `fail_i`, so they cannot use up the slots of another failure of the same clause.
    # (2) NOT a violation — float32 / float16 columns: the method computes in the precision of the stored columns (5e-8 / 3e-4 relative), i.e. the reply is
    #     the integral to within the rounding of the DATA TYPE THE CALLER CHOSE; the property states an identity, the 1e-9 of this section is the
    #     measured accuracy for double / integer storage, not part of the property.  Narrow float columns are not generated (a tolerance in units of the
    #     storage epsilon would add nothing that the float64 / integer columns do not already decide).
    INT_KINDS = ["python-int list", "int64", "int32", "int16", "int8", "uint8", "uint16", "uint32", "uint64", "Int64 (pandas nullable)", "object"]
    reqs4, ctx4 = [], []
    for i in range(ck.n(36, 200)):
        kind = rng.choice(INT_KINDS)
        cols = rng.choice(["both", "both", "loading", "pressure"])          # which columns hold integers
        how = rng.choice(["arguments", "DataFrame", "Series"])
        unsigned = kind.startswith("uint")
        bd = {}
        for br in ("ads", "des") if rng.random() < 0.4 else ("ads",):
            n = rng.randint(2, 9)
            if cols in ("both", "pressure"):
                ps = [int(v) for v in np.cumsum([rng.randint(1, 4) for _ in range(n)])]
            else:
                ps = sorted({round(math.exp(rng.uniform(-3, 2)), rng.randint(2, 5)) for _ in range(n)})
                ps = [p for p in ps if p > 0]
            if len(ps) < 2:
                continue
            if cols in ("both", "loading"):
                if rng.random() < (0.5 if unsigned else 0.6):
                    ls = [int(v) for v in np.cumsum([rng.randint(0 if t else 1, 9) for t in range(len(ps))])]          # non-decreasing, positive
                else:
                    ls = [rng.randint(1, 30)] + [rng.randint(0, 30) for _ in ps[1:]]                                   # any non-negative whole numbers
            else:
                ls = [float(v) for v in np.cumsum([rng.uniform(0.05, 2) for _ in ps])]
            bd[br] = (ps, ls)
        if "ads" not in bd:
            continue
        st_p = [x for br in bd for x in (bd[br][0][::-1] if br == "des" else bd[br][0])]
        st_l = [x for br in bd for x in (bd[br][1][::-1] if br == "des" else bd[br][1])]
        marks = [0 if br == "ads" else 1 for br in bd for _ in bd[br][0]]

        def column(vals, integer):
            if not integer:
                return [float(v) for v in vals] if how == "arguments" else np.array(vals, dtype=float)
            if kind == "python-int list":
                return list(vals) if how == "arguments" else pd.Series(list(vals))
            if kind.startswith("Int64"):
                return pd.array(list(vals), dtype="Int64")
            if kind == "object":
                return np.array(list(vals), dtype=object)
            return np.array(vals, dtype=kind)
        cp, cl = column(st_p, cols in ("both", "pressure")), column(st_l, cols in ("both", "loading"))
        meta = dict(material="pgv_m", adsorbate="N2", temperature=77.355, temperature_unit="K", pressure_mode="absolute", pressure_unit="bar",
                    loading_basis="molar", loading_unit="mmol", material_basis="mass", material_unit="g")
        caller = None
        base4 = {"stored_as": kind, "integer_columns": cols, "constructed_from": how, "stored_pressures": st_p, "stored_loadings": st_l, "branch_marks": marks}
        try:
            if how == "DataFrame":
                idx_lab = list(range(len(st_p))) if rng.random() < 0.6 else [3 * t + 1 for t in range(len(st_p))]
                caller = pd.DataFrame({"pressure": cp, "loading": cl})
                caller.index = idx_lab          # (row labels set afterwards: the DataFrame constructor would ALIGN a Series column on them)
                before = caller.copy(deep=True)
                iso = pg.PointIsotherm(isotherm_data=caller, pressure_key="pressure", loading_key="loading", branch=marks, **meta)
            elif how == "Series":
                caller = pd.DataFrame({"pressure": cp, "loading": cl})
                before = caller.copy(deep=True)
                iso = pg.PointIsotherm(pressure=caller["pressure"], loading=caller["loading"], branch=marks, **meta)
            else:
                iso = pg.PointIsotherm(pressure=cp, loading=cl, branch=marks, **meta)
            twin = pg.PointIsotherm(pressure=[float(x) for x in st_p], loading=[float(x) for x in st_l], branch=marks, **meta)
            stored_before = iso.data_raw.copy(deep=True)
        except Exception as e:  # noqa
            ck.fail_case({"class": "PointIsotherm", "clause": "integral of the interpolant", "data": "integer-typed columns", "outcome": err_class(e)}, {**base4, "error": repr(e)})
            continue
        for br in bd:
            ps, ls = [float(x) for x in bd[br][0]], [float(x) for x in bd[br][1]]
            qs = [ps[0] * rng.uniform(0.05, 0.95), ps[0], ps[-1]] + [(a + b) / 2 for a, b in zip(ps, ps[1:])] + [rng.uniform(ps[0], ps[-1]) for _ in range(3)]
            qs += [rng.choice(ps), float(np.nextafter(rng.choice(ps), 0.0))]
            for q in sorted({q for q in qs if 0 < q <= ps[-1]}):
                req, k = fold_request(ps, ls, q)
                reqs4.append(req)
                ctx4.append((iso, twin, br, ps, ls, q, k, base4, stored_before, (caller, before) if caller is not None else None))
    try:
        reps4 = ck.drive("SpreadPoint", reqs4)
    except Exception as e:
        reps4 = None
        ck.broken.append({"step": "driver SpreadPoint (integer-typed columns)", "what": str(e)[:500]})
    nfail4, n_dis4, n_wrap4, last, worst4 = {}, 0, 0, None, {"reference": 0.0, "float twin": 0.0, "p dPi/dp - n": 0.0}

    def fail_i(clause, detail):
        key = (clause, detail["branch"], detail["stored_as"], detail["integer_columns"])
        nfail4[key] = nfail4.get(key, 0) + 1
        if nfail4[key] <= 2 and sum(1 for kk in nfail4 if kk[0] == clause) <= 6:
            ck.fail_case({"class": "PointIsotherm", "clause": clause, "branch": detail["branch"], "data": "integer-typed columns", "integer_columns": detail["integer_columns"]}, detail)

    def pi_of(iso_, q_, kw_):
        try:
            return float(iso_.spreading_pressure_at(q_, **kw_))
        except Exception as e:  # noqa
            return ("err", err_class(e), repr(e)[:200])

    for idx, (iso, twin, br, ps, ls, q, k, base4, stored_before, cal) in enumerate(ctx4):
        bkw = {"branch": br} if br != "ads" or idx % 2 else {}
        pkw = {}
        q_arg = q
        if idx % 5 == 3 and q < ps[-1] * (1 - 1e-9):          # (the last data point in a foreign unit is the input class of S49-C11b: sections 3b / 3c cover it)
            pkw, q_arg = {"pressure_unit": "kPa"}, q * 100          # a pressure unit alone leaves the loading column as stored
        detail = {**base4, "branch": br, "branch_pressures_increasing": ps, "branch_loadings": ls, "query": q_arg, "keyword_arguments": {**bkw, **pkw}}
        got = pi_of(iso, q_arg, {**bkw, **pkw})
        ref = exact_ref(ps, ls, q)
        floor = cond_floor(ps, ls, q) + (4e-16 * abs(ref) if pkw else 0.0)
        ck.count(("point-int", base4["stored_as"], base4["integer_columns"], br, tuple(ps), tuple(ls), q), bucket=f"point-integer-columns:{base4['integer_columns']}:{br}:k={min(k, 3)}",
                 sample={**detail, "implementation": got, "reference": ref} if idx % 199 == 0 else None)
        if isinstance(got, tuple) or not abs(got - ref) <= 1e-9 * abs(ref) + floor:
            fdet = {**detail, "got": got, "reference": ref, "rounding_floor_of_the_formula": floor}
            wf = None
            if base4["stored_as"].startswith("uint") and base4["integer_columns"] in ("both", "loading") and not isinstance(got, tuple):
                wf = wrapped_fold(ps, ls, q, int(base4["stored_as"][4:]))
            if wf is not None and wf[1] > 0 and abs(got - wf[0]) <= 1e-9 * abs(wf[0]):
                # S62-C11a: exactly the wrap-around of the unsigned loading differences (predicted value reproduced)
                n_wrap4 += 1
                if n_wrap4 <= 4:
                    ck.fail_case({"class": "PointIsotherm", "clause": "integral of the interpolant", "branch": br, "data": "integer-typed columns",
                                  "integer_columns": base4["integer_columns"], "loading_storage": "unsigned integer",
                                  "reply": "fold with the loading differences of completed segments wrapped modulo 2^width"},
                                 {**fdet, "predicted_by_wrapped_fold": wf[0], "completed_segments_with_decreasing_loading": wf[1]})
            else:
                fail_i("integral of the interpolant", fdet)
            last = None
            continue
        worst4["reference"] = max(worst4["reference"], abs(got - ref) / max(abs(ref), 1e-300))
        if reps4 is not None:
            r = reps4[idx].split()
            if not (r[0] == "ok" and (close(got, Fr(r[1]), rel=1e-10) or abs(got - float(Fr(r[1]))) <= floor)):
                n_dis4 += 1
                if n_dis4 <= 3:
                    ck.broken.append({"step": "correspondence Model/SpreadPoint.lean (integer-typed columns)", "what": {"request": reqs4[idx][:300], "model": reps4[idx][:80], "implementation": got, "case": detail}})
        # the same numbers stored as float64
        tw = pi_of(twin, q_arg, {**bkw, **pkw})
        if isinstance(tw, tuple) or not abs(tw - got) <= 1e-12 * abs(got) + floor:
            fail_i("same value for the same numbers stored as float64", {**detail, "got": got, "float64_twin": tw})
        else:
            worst4["float twin"] = max(worst4["float twin"], abs(tw - got) / max(abs(got), 1e-300))
        # increments (increasing, additive): Π(b) - Π(a) between min and max loading on [a, b] times ln(b / a)
        if last is not None and last[0] is iso and last[1] == br and q > last[2]:
            a, pa = last[2], last[3]
            fp, fl = [frac(x) for x in ps], [frac(x) for x in ls]
            vals = [interp_exact(fp, fl, frac(a)), interp_exact(fp, fl, frac(q))] + [fl[j] for j in range(len(ps)) if a < ps[j] < q]
            lnr = math.log1p((q - a) / a)
            lo_b, hi_b = float(min(vals)) * lnr, float(max(vals)) * lnr
            slack = 1e-6 * hi_b + 1e-12 * abs(got) + 2 * floor
            if not (lo_b - slack <= got - pa <= hi_b + slack):
                fail_i("increment between min and max loading times d ln p", {**detail, "previous_query": a, "previous_value": pa, "got": got, "increment": got - pa, "bounds": [lo_b, hi_b]})
        last = (iso, br, q, got)
        # p dΠ/dp = n inside a segment (central difference that stays inside the segment; Π is smooth there)
        if 0 < k < len(ps) and ps[k - 1] < q < ps[k] and not pkw:
            h = 0.25 * min(q - ps[k - 1], ps[k] - q, 1e-3 * q)
            if h > 1e-7 * q:
                up, dn = pi_of(iso, q + h, bkw), pi_of(iso, q - h, bkw)
                try:
                    n_q = float(iso.loading_at(q, **bkw))
                except Exception as e:  # noqa
                    n_q = ("err", err_class(e))
                n_ref = float(interp_exact([frac(x) for x in ps], [frac(x) for x in ls], frac(q)))
                if isinstance(up, tuple) or isinstance(dn, tuple) or isinstance(n_q, tuple):
                    fail_i("p dPi/dp = loading", {**detail, "h": h, "Pi(q+h)": up, "Pi(q-h)": dn, "loading_at": n_q})
                else:
                    der = q * (up - dn) / (2 * h)
                    tol_d = 1e-5 * max(abs(n_ref), max(ls)) + q * (4 * floor + 4 * 2.3e-16 * abs(got)) / h
                    worst4["p dPi/dp - n"] = max(worst4["p dPi/dp - n"], abs(der - n_ref) / tol_d)
                    if not abs(der - n_ref) <= tol_d or not abs(n_q - n_ref) <= 1e-9 * abs(n_ref) + 1e-12:
                        fail_i("p dPi/dp = loading", {**detail, "h": h, "Pi(q+h)": up, "Pi(q-h)": dn, "p_times_difference_quotient": der, "loading_at": n_q,
                                                      "interpolant_at_query": n_ref, "tolerance": tol_d})
        # the stored columns and the caller's table: same values, same dtypes after the queries
        if idx + 1 == len(ctx4) or ctx4[idx + 1][0] is not iso:
            try:
                same = iso.data_raw.equals(stored_before) and list(iso.data_raw.dtypes) == list(stored_before.dtypes)
                if cal is not None:
                    same = same and cal[0].equals(cal[1]) and list(cal[0].dtypes) == list(cal[1].dtypes) and list(cal[0].index) == list(cal[1].index)
            except Exception as e:  # noqa
                same = repr(e)
            if same is not True:
                fail_i("data unchanged by the query", {**detail, "stored_columns_before": stored_before.to_dict("list"), "stored_columns_after": iso.data_raw.to_dict("list"),
                                                       "dtypes_after": [str(t) for t in iso.data_raw.dtypes], "comparison": same})
    ck.cov["point_integer_columns"] = {"cases": len(ctx4), "correspondence_disagreements": n_dis4, "queries_reproducing_S62-C11a_unsigned_wraparound": n_wrap4, "worst": {k: float(f"{v:.3g}") for k, v in worst4.items()}}

    # ------------------------------------------------------------------ 4. model isotherm: foreign units / modes converted first
    for name in ("Langmuir", "Toth"):
        par = sample_params(name, rng)
        par["K"] = rng.uniform(0.5, 5)
        for mode, unit in (("absolute", "bar"), ("relative", None)):
            miso = pg.ModelIsotherm(material="pgv_m", adsorbate="N2", temperature=77.355, model=make(pg, name, par), pressure_mode=mode,
                                    pressure_unit=unit, loading_basis="molar", loading_unit="mmol", material_basis="mass", material_unit="g")
            p = 0.31
            base = float(miso.spreading_pressure_at(p))
            bare = float(miso.model.spreading_pressure(np.float64(p)))
            ck.count(("miso", name, mode), bucket="model-isotherm")
            if relerr(base, bare) > 1e-12:
                ck.fail_case({"class": "ModelIsotherm", "clause": "native = bare model", "mode": mode}, {"params": par, "through": base, "bare": bare})
            if mode == "absolute":
                try:
                    alt = float(miso.spreading_pressure_at(p * 100, pressure_unit="kPa"))
                except Exception as e:  # noqa
                    alt = ("err", err_class(e))
                if isinstance(alt, tuple) or relerr(alt, base) > 1e-10:
                    ck.fail_case({"class": "ModelIsotherm", "clause": "unit arguments converted first", "mode": mode}, {"params": par, "native": base, "kPa": alt})
            else:
                try:
                    alt = float(miso.spreading_pressure_at(p * 100, pressure_mode="relative%"))
                except Exception as e:  # noqa
                    alt = ("err", err_class(e))
                if isinstance(alt, tuple) or relerr(alt, base) > 1e-10:
                    ck.fail_case({"class": "ModelIsotherm", "clause": "mode arguments converted first", "mode": mode,
                                  "outcome": alt[1] if isinstance(alt, tuple) else "number"}, {"params": par, "native": base, "relative%": alt})
    # 4b. every unit / mode of the query, every unit / mode of the stored model (DR/DA: stored in relative pressure, reached through the isotherm)
    worst_mi = 0.0
    for it in range(ck.n(8, 60)):
        name = rng.choice(["Langmuir", "Toth", "DR", "DA"])
        par = sample_params(name, rng)
        temp = 77.355
        if name in REL_ONLY:
            native = ("relative", None)
            par["e"] = R_GAS * temp / logu(rng, 0.01, 3.0)
            q_nat = logu(rng, 1e-4, 1.0)
        else:
            native = rng.choice(REPS)
            q_nat = logu(rng, 1e-3, 1e1) / par["K"]
        model = make(pg, name, par, temp)
        miso = pg.ModelIsotherm(material="pgv_m", adsorbate="N2", temperature=temp, temperature_unit="K", model=model, pressure_mode=native[0],
                                pressure_unit=native[1], loading_basis="molar", loading_unit="mmol", material_basis="mass", material_unit="g")
        with np.errstate(all="ignore"):
            bare = float(model.spreading_pressure(np.float64(q_nat)))
        for rep in [native] + rng.sample([r for r in REPS if r != native], 3):
            q = q_nat * rep_factor(native, p0_pa) / rep_factor(rep, p0_pa)
            try:
                with np.errstate(all="ignore"):
                    got = float(miso.spreading_pressure_at(q, pressure_mode=rep[0], pressure_unit=rep[1]))
            except Exception as e:  # noqa
                got = ("err", err_class(e))
            ck.count(("miso-units", name, native, rep, q_nat, tuple(par.values())), bucket="model-isotherm:units:" + name)
            # conversion there and back moves the pressure by a few ulp; quad-based models answer a moved upper limit to within their own tolerance
            tol_mi = 1e-7 if name in QUADBASED else 1e-10
            if not isinstance(got, tuple):
                worst_mi = max(worst_mi, relerr(got, bare) / tol_mi)
            if isinstance(got, tuple) or abs(got - bare) > tol_mi * abs(bare) + (2e-8 if name in QUADBASED else 0.0):      # (quad's epsabs = 1.49e-8)
                ck.fail_case({"class": "ModelIsotherm", "clause": "unit arguments converted first", "mode": native[0],
                              "outcome": got[1] if isinstance(got, tuple) else "number"},
                             {"model": name, "params": par, "stored_in": native, "pressure_in_stored_unit": q_nat, "bare_model": bare,
                              "query": q, "query_in": rep, "through_isotherm": got})
    ck.cov["model_isotherm_units_worst_over_tolerance"] = float(f"{worst_mi:.3g}")
    # the same across pressure MODES for isotherms stored in °C (the saturation pressure must be taken at the kelvin temperature)
    for name in ("Langmuir", "Toth"):
        par = sample_params(name, rng)
        par["K"] = rng.uniform(0.5, 5)
        for ads_name, t_c in (("N2", -195.795), ("CO2", -20.0), ("C3H8", 25.0)):
            try:
                psat = pg.Adsorbate.find(ads_name).saturation_pressure(t_c + 273.15, unit="bar")
                miso = pg.ModelIsotherm(material="pgv_m", adsorbate=ads_name, temperature=t_c, temperature_unit="°C", model=make(pg, name, par), pressure_mode="absolute",
                                        pressure_unit="bar", loading_basis="molar", loading_unit="mmol", material_basis="mass", material_unit="g")
                rel = 0.37
                base = float(miso.model.spreading_pressure(np.float64(rel * psat)))
                alt = float(miso.spreading_pressure_at(rel, pressure_mode="relative"))
                alt2 = float(miso.spreading_pressure_at(rel * 100, pressure_mode="relative%"))
            except Exception as e:  # noqa
                alt, alt2, base = ("err", err_class(e)), None, None
            ck.count(("miso-celsius", name, ads_name), bucket="model-isotherm:°C mode arguments")
            if isinstance(alt, tuple) or relerr(alt, base) > 1e-9 or relerr(alt2, base) > 1e-9:
                ck.fail_case({"class": "ModelIsotherm", "clause": "mode arguments converted first", "mode": "absolute", "temperature_unit": "°C",
                              "outcome": alt[1] if isinstance(alt, tuple) else "number"}, {"params": par, "adsorbate": ads_name, "t_celsius": t_c, "bare_at_converted_pressure": base, "relative": alt, "relative%": alt2})
    ck.cov["correspondence_disagreements"] = n_dis
    ck.cov["rule"] = ("closed-form Float copies vs Python; 13 models x seeded parameter vectors x pressures: Π vs composite Gauss-Legendre (log substitution) "
                      "of the class's own loading/x, differences, zero; quad-based models (Toth, Jensen-Seaton, DR, DA) over the parameter box with its corners "
                      "(a = RT/e from 3 down to 1e-3, m = 1 / near 1 / 3, heterogeneity exponents down to 0.1), p from 1e-300 to the validity range: Π vs the integral "
                      "anchored at the origin (u = ln p panels of the class's own loading down to the range of the doubles, DR/DA: plus the closed-form tail beyond it; "
                      "DA m = 1 in closed form), non-negative, non-decreasing, zero at 0; "
                      "point isotherms: seeded increasing pressure grids (2-14 points; 60 % hysteretic: an independent desorption branch of 2-14 points "
                      "stored after the adsorption rows in decreasing pressure order, optionally down to (0, 0)) x both branches x "
                      "queries below/at/inside/at the edge: real method vs exact-rational fold model (desorption rows reversed) and vs per-segment quadrature, after cubic "
                      "queries and queries on the other branch, with unit arguments; dense point isotherms (half of them hysteretic, both branches queried): pressures 1e-9 … 1e5 in all 8 units and both relative modes, neighbours 1e-9 relative / "
                      "1e-10 absolute apart, queries at, one ulp / 1e-15 … 1e-5 relative / 1e-11 … 1e-7 absolute above and below knots, in the unit of the data and "
                      "in two other units/modes, up to the last data point in every unit: real method vs the exact-rational fold on the converted data, vs an exact-rational reference, vs the same "
                      "pressure in the unit of the data, increments between min and max loading x d ln p; result in any loading / material representation (27 x 19, fraction / percent with a "
                      "change of the material representation included: attributed to S49-C11c by a control experiment) vs the fold on the converted columns and vs a permanently converted copy; "
                      "model isotherms stored and queried in every unit/mode; "
                      "distinct = distinct (model, parameters, pressure) or (data set, unit, query)")
    ck.assumptions += ["scipy.integrate.quad for Toth/Jensen-Seaton/DR/DA: compared with an independent quadrature (rel 1e-4); anchored at the origin: 2e-4 |Π| + 2e-7 for Toth / "
                       "Jensen-Seaton (quad's default epsabs = epsrel = 1.49e-8 on a singular integrand; measured <= 0.25 (1e-4 |Π| + 1e-7)), 2e-5 |Π| + 2e-7 for DR / DA "
                       "(quad over the scaled logarithm after the repair S49-C11a: measured <= 0.04 (1e-4 |Π| + 1e-7) against the closed form; the Gauss-Legendre reference: 1e-6 |Π| + 1e-8)",
                       "DR/DA: a = RT/e in [1e-3, 3]; for p = e^u below the range of the doubles the reference uses the model equation n_m exp(-(a|u|)^m) in closed form "
                       "(incomplete gamma function), tied to the class's own loading at three pressures per parameter vector",
                       "numpy.log vs the logarithm inputs of the fold model: 1 ulp"]
