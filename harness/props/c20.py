"""C20 — shipped adsorbates resolve uniquely; thermodynamic data are consistent; fallback is never silent.

Tie: the registry is regenerated from adsorbates.json and default.db on every run (uniqueness and lookup
theorems re-checked in the kernel); exhaustive correspondence of `Adsorbate.find` and of the isotherm
constructor with the Lean lookup over every alias x case variant; the fallback model `propValue` against
every accessor; the accessor descriptors generated from core/adsorbate.py and core/material.py (Gen/Accessors.lean = Spec/Accessors.lean
by `decide`) run by Model/Accessor.lean against the real methods on stub-backed private adsorbates (pgv/acclib.py).
Measured (not proved): CoolProp consistency on the backend-linked fluids.
"""
import itertools
import math

from pgv import acclib
from pgv.core import close, err_class, frac, import_pygaps, tok

PA = {"Pa": 1.0, "kPa": 1e3, "MPa": 1e6, "mbar": 100.0, "bar": 1e5, "atm": 101325.0, "mmHg": 133.322, "torr": 133.322}


def hx(s):
    return s.encode("utf-8").hex()


def variants(a):
    return [a, a.upper(), a.title(), a.swapcase()]


def run(ck):
    pg = import_pygaps()
    import numpy as np
    from pygaps.core.baseisotherm import BaseIsotherm
    from pygaps.utilities.exceptions import CalculationError, ParameterError
    rng = ck.rng
    thorough = ck.tier == "thorough"
    ads_list = list(pg.ADSORBATE_LIST)

    # ------------------------------------------------------------------ 0. translator validation: Gen registry == imported ADSORBATE_LIST
    info = ck.gen_info.get("Registry", {})
    try:
        rep = ck.drive("Registry", ["selfcheck"])[0]
    except Exception as e:
        rep = None
        ck.broken.append({"step": "driver Registry", "what": str(e)[:500]})
    if rep is not None and not rep.startswith("ok"):
        ck.broken.append({"step": "translator validation (keys = encode(alias strings))", "what": rep})
    n_alias = sum(len(a.alias) for a in ads_list)
    if rep is not None and rep.startswith("ok") and int(rep.split()[1]) != n_alias:
        ck.broken.append({"step": "translator validation (alias count vs pygaps.ADSORBATE_LIST)", "what": f"{rep} vs {n_alias}"})

    # ------------------------------------------------------------------ 1. exhaustive lookup: every alias x case variant
    queries = []          # (string, expected owner name or None)
    owner = {}
    for a in ads_list:
        for al in a.alias:
            owner.setdefault(al, []).append(a.name)
    for a in ads_list:
        for al in a.alias:
            for v in variants(al):
                queries.append((v, a.name))
    # negatives / near misses
    neg = ["", " ", "nitrogenn", "n 2", "notagas", "N2 ", " n2", "n2\n", "co2;", "helium-3x", "(", ".*", "n."]
    neg = [s for s in neg if s.lower() not in owner]
    for s in neg:
        queries.append((s, None))
    lines = ["find " + (hx(q) if q else "00"[:0] or "") for q, _ in queries]
    lines = ["find " + hx(q) if q else "find " for q, _ in queries]
    # the empty string cannot be sent as a token: handle it on the python side only
    send = [(i, l) for i, l in enumerate(lines) if l != "find "]
    replies = {}
    if rep is not None:
        out = ck.drive("Registry", [l for _, l in send])
        replies = {i: o for (i, _), o in zip(send, out)}
    n_dis = 0
    for i, (q, exp) in enumerate(queries):
        try:
            got = pg.Adsorbate.find(q).name
        except ParameterError:
            got = None
        except Exception as e:  # noqa
            got = "EXC:" + type(e).__name__
        ck.count(("find", q), nontrivial=exp is not None, bucket="find:" + ("alias" if exp else "negative"),
                 sample={"query": q, "implementation": got, "model": replies.get(i)} if i % 401 == 0 else None)
        # property oracle (independent of the model): the owner of the alias, uniquely
        if exp is not None and len(owner[q.lower()]) != 1:
            ck.fail_case({"clause": "alias designates one adsorbate", "alias": q.lower()}, {"owners": owner[q.lower()]})
        if got != exp:
            ck.fail_case({"clause": "find", "query": q}, {"expected": exp, "got": got})
        if i in replies:
            r = replies[i].split()
            m = bytes.fromhex(r[1]).decode() if r[0] == "ok" else None
            if m != got:
                n_dis += 1
                if n_dis <= 3:
                    ck.broken.append({"step": "correspondence Model/Registry.find", "what": {"query": q, "model": m, "implementation": got}})
    # isotherm constructor links to the same adsorbate
    sample = queries if thorough else rng.sample(queries, 400)
    for q, exp in sample:
        if exp is None or not q:
            continue
        iso = BaseIsotherm(material="pgv_m", adsorbate=q, temperature=300)
        ck.count(("iso", q), bucket="isotherm-link")
        if iso.adsorbate.name != exp or iso.adsorbate is not pg.Adsorbate.find(exp):
            ck.fail_case({"clause": "isotherm link", "query": q}, {"expected": exp, "got": iso.adsorbate.name})

    # ------------------------------------------------------------------ 2. thermodynamic consistency (measured)
    backend = [a for a in ads_list if a.properties.get("backend_name")]
    if not thorough:
        backend = [a for a in backend if a.name in ("nitrogen", "carbon dioxide", "argon", "water", "methane", "n-butane")] + rng.sample(backend, 8)
    worst = 0.0
    units = list(PA)
    for a in backend:
        try:
            tt, tc = a.t_triple(), a.t_critical()
            ptr, pc = a.p_triple(), a.p_critical()
        except Exception:
            continue
        fr = [0.05, 0.3, 0.55, 0.8, 0.95] if thorough else [0.1, 0.5, 0.9]
        prev = None
        for f in fr:
            T = tt + f * (tc - tt)
            fresh = pg.Adsorbate(a.name, **{k: v for k, v in a.properties.items()})   # independent state
            try:
                ref = {"psat": fresh.saturation_pressure(T)}
                ref["rl"] = fresh.liquid_density(T)
                ref["rlb"] = fresh.liquid_molar_density(T)
                ref["rg"] = fresh.gas_density(T)
                ref["rgb"] = fresh.gas_molar_density(T)
                ref["M"] = fresh.molar_mass()
                ref["h"] = fresh.enthalpy_vaporisation(temp=T)
            except CalculationError:
                continue
            sig = {"clause": "thermo", "adsorbate": a.name}
            ck.count(("thermo", a.name, f), bucket="thermo")
            e1 = abs(ref["rl"] - ref["rlb"] * ref["M"]) / ref["rl"]
            e2 = abs(ref["rg"] - ref["rgb"] * ref["M"]) / ref["rg"]
            worst = max(worst, e1, e2)
            if e1 > 1e-9 or e2 > 1e-9:
                ck.fail_case({**sig, "what": "rho = rho_bar*M"}, {"T": T, **ref})
            if not (ptr * (1 - 1e-6) <= ref["psat"] <= pc * (1 + 1e-6)):
                ck.fail_case({**sig, "what": "p_triple <= p_sat <= p_crit"}, {"T": T, "psat": ref["psat"], "ptr": ptr, "pc": pc})
            if prev is not None and not ref["psat"] > prev:
                ck.fail_case({**sig, "what": "p_sat increasing"}, {"T": T, "psat": ref["psat"], "prev": prev})
            prev = ref["psat"]
            if not ref["h"] > 0:
                ck.fail_case({**sig, "what": "h_vap > 0"}, {"T": T, "h": ref["h"]})
            for u in units:
                v = fresh.saturation_pressure(T, unit=u)
                if abs(v * PA[u] - ref["psat"]) > 1e-10 * ref["psat"]:
                    ck.fail_case({**sig, "what": "unit honoured", "unit": u}, {"T": T, "value": v, "Pa": ref["psat"]})
            # the same numbers on the shared (cached-state) object, in a random call order, twice
            calls = [("rl", lambda: a.liquid_density(T)), ("rlb", lambda: a.liquid_molar_density(T)), ("rg", lambda: a.gas_density(T)),
                     ("rgb", lambda: a.gas_molar_density(T)), ("psat", lambda: a.saturation_pressure(T)), ("h", lambda: a.enthalpy_vaporisation(temp=T))]
            for _ in range(2):
                rng.shuffle(calls)
                for k, fn in calls:
                    try:
                        v = fn()
                    except Exception as e:  # noqa
                        v = float("nan")
                    if not (v == ref[k] or abs(v - ref[k]) <= 1e-12 * abs(ref[k])):
                        ck.fail_case({**sig, "what": "history independent accessor", "accessor": k},
                                     {"T": T, "order": [c[0] for c in calls], "value": v, "fresh": ref[k]})
    ck.cov["consistency_rel_err_max"] = worst

    # ------------------------------------------------------------------ 3. fallback logic vs propValue (model) on every accessor
    ACC = [("molar_mass", "molar_mass", lambda a, c: a.molar_mass(calculate=c)),
           ("p_triple", "p_triple", lambda a, c: a.p_triple(calculate=c)),
           ("t_triple", "t_triple", lambda a, c: a.t_triple(calculate=c)),
           ("p_critical", "p_critical", lambda a, c: a.p_critical(calculate=c)),
           ("t_critical", "t_critical", lambda a, c: a.t_critical(calculate=c)),
           ("saturation_pressure", "saturation_pressure", lambda a, c: a.saturation_pressure(500.0, calculate=c)),
           ("surface_tension", "surface_tension", lambda a, c: a.surface_tension(500.0, calculate=c)),
           ("liquid_density", "liquid_density", lambda a, c: a.liquid_density(500.0, calculate=c)),
           ("liquid_molar_density", "liquid_molar_density", lambda a, c: a.liquid_molar_density(500.0, calculate=c)),
           ("gas_density", "gas_density", lambda a, c: a.gas_density(500.0, calculate=c)),
           ("gas_molar_density", "gas_molar_density", lambda a, c: a.gas_molar_density(500.0, calculate=c)),
           ("enthalpy_liquefaction", "enthalpy_liquefaction", lambda a, c: a.enthalpy_liquefaction(500.0, calculate=c)),
           ("enthalpy_vaporisation", "enthalpy_vaporisation", lambda a, c: a.enthalpy_vaporisation(500.0, calculate=c))]
    # T = 500 K is above the critical point of nitrogen: the backend raises for every saturation property
    N2_CONST = {"molar_mass": 28.01348, "p_triple": 12519.78348430944, "t_triple": 63.151, "p_critical": 3395800.0, "t_critical": 126.192}
    USER_SCALE = {"p_triple": 1e5, "p_critical": 1e5}   # the two pressures are stored in bar (convention of the shipped data), returned in Pa
    cases, plines = [], []
    for (acc, key, fn), calc, has_backend, has_user in itertools.product(ACC, [True, False], [True, False], [True, False]):
        props = {}
        if has_backend:
            props["backend_name"] = "NITROGEN"
        if has_user:
            props[key] = 12.5
        a = pg.Adsorbate("pgv_fb", store=False, **props)
        try:
            got = ("ok", float(fn(a, calc)))
        except Exception as e:  # noqa
            got = ("err", err_class(e))
        backend_val = None
        if has_backend:
            backend_val = N2_CONST.get(acc)     # the accessors the backend can answer at 500 K: the state-independent constants
        uval = 12.5 * USER_SCALE.get(acc, 1.0)  # documented unit of the stored value -> unit of the accessor
        cases.append((acc, calc, has_backend, has_user, got, backend_val, uval))
        plines.append(f"prop {'T' if calc else 'F'} {tok(backend_val) if backend_val is not None else '~'} {tok(uval) if has_user else '~'}")
    prep = ck.drive("Registry", plines) if rep is not None else [None] * len(plines)
    for (acc, calc, hb, hu, got, bv, uval), pr in zip(cases, prep):
        ck.count(("fallback", acc, calc, hb, hu), bucket="fallback")
        # property oracle: backend value, else the user value, else CalculationError — never anything else
        if calc and bv is not None:
            exp = ("ok", bv)
        elif hu:
            exp = ("ok", uval)
        else:
            exp = ("err", "calc")
        okk = (got[0] == exp[0]) and (got[1] == exp[1] if got[0] == "err" else abs(got[1] - exp[1]) <= 1e-3 * abs(exp[1]))
        if not okk:
            ck.fail_case({"clause": "fallback", "accessor": acc, "calculate": calc, "backend": hb, "user": hu},
                         {"expected": exp, "got": got})
        if pr is not None:
            m = pr.split()
            magree = (m[0] == "ok" and got[0] == "ok" and close(got[1], frac_of(m[1]), rel=1e-3)) or (m[0] == "err" and got == ("err", "calc"))
            if not magree and okk:
                ck.broken.append({"step": "correspondence Model/Registry.propValue", "what": {"case": [acc, calc, hb, hu], "model": pr, "implementation": got}})
    # the unit argument is honoured on the fallback path too (user-supplied saturation pressure, backend absent or unable to answer)
    for has_backend, T in ((False, 300.0), (True, 500.0)):
        props = {"saturation_pressure": 101325.0}
        if has_backend:
            props["backend_name"] = "NITROGEN"
        a = pg.Adsorbate("pgv_fb_unit", store=False, **props)
        for u in units:
            ck.count(("fallback-unit", has_backend, u), bucket="fallback")
            for meth in ("saturation_pressure", "pressure_saturation"):
                if not hasattr(a, meth):
                    continue
                try:
                    v = float(getattr(a, meth)(T, unit=u))
                except Exception as e:  # noqa
                    ck.fail_case({"clause": "fallback", "accessor": meth, "what": "unit honoured", "backend": has_backend}, {"unit": u, "error": repr(e)[:200]})
                    continue
                if abs(v * PA[u] - 101325.0) > 1e-9 * 101325.0:
                    ck.fail_case({"clause": "fallback", "accessor": meth, "what": "unit honoured", "backend": has_backend}, {"unit": u, "value": v, "expected": 101325.0 / PA[u]})
    # ------------------------------------------------------------------ 4. stored value vs backend value on the shipped adsorbates
    # (failing-input search for a wrong scale between the dictionary convention and the accessor's unit: the ratio stored/calculated is
    #  the same power of ten for every fluid, so its median is robust against single bad data entries, which are only listed)
    outliers = []
    for acc in ("molar_mass", "p_triple", "t_triple", "p_critical", "t_critical"):
        ratios = []
        for a in ads_list:
            if not a.properties.get("backend_name") or a.properties.get(acc) is None:
                continue
            try:
                u, b = float(getattr(a, acc)(calculate=False)), float(getattr(a, acc)())
            except Exception:  # noqa
                continue
            if b > 0 and u > 0:
                ratios.append((u / b, a.name, u, b))
                ck.count(("stored-vs-backend", acc, a.name), bucket="stored-vs-backend")
        if len(ratios) < 5:
            continue
        ratios.sort()
        med = ratios[len(ratios) // 2]
        if not 0.9 <= med[0] <= 1.1:
            ck.fail_case({"clause": "fallback", "accessor": acc, "what": "stored value in the accessor's unit"},
                         {"adsorbate": med[1], "calculate=False": med[2], "calculate=True": med[3], "ratio": med[0],
                          "n_adsorbates": len(ratios), "note": "median over the shipped backend-linked adsorbates"})
        outliers += [{"accessor": acc, "adsorbate": n, "stored": u, "backend": b} for r, n, u, b in ratios if not 2 / 3 <= r / med[0] <= 1.5]
    ck.cov["stored_vs_backend_outliers"] = outliers

    # ------------------------------------------------------------------ 5. generated accessor descriptors vs the real methods (stub backend)
    ck.cov["accessor_correspondence"] = acclib.run_correspondence(ck, pg, thorough)

    ck.cov["exhaustive"] = True
    ck.cov["correspondence_disagreements"] = n_dis
    # registry under store histories on other files (user adsorbates named like shipped names / aliases)
    from pgv import regsession
    regsession.run(ck, pg)
    ck.cov["rule"] = ("every shipped alias x {as is, upper, title, swapcase} through Adsorbate.find (exhaustive) and through an isotherm "
                      "constructor (quick: 400 sampled; thorough: all), negatives; backend-linked fluids x temperatures across (T_triple, T_critical) x 8 "
                      "pressure units, accessors in shuffled call order against a fresh object; fallback: 13 accessors x calculate x backend x user value; "
                      "stored vs calculated constants on every shipped backend fluid; every accessor method x seeded stub backends "
                      "(values / exceptions per getter and input) x user dictionaries x calculate x units against the generated and the "
                      "specified descriptor run in Lean; Material getters and get_prop; "
                      "non-trivial = positive lookups, consistency points and accessor calls")
    ck.assumptions += ["CoolProp values: consistency measured to 1e-9, not proved", "alias -> key encoding (base-256 of UTF-8) is the translator's; re-derived in Lean at run time (selfcheck)"]


def frac_of(s):
    from fractions import Fraction
    n, d = s.split("/")
    return Fraction(int(n), int(d))
