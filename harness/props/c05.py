"""C05 — isotherm identity is determined by content, and only by content.

Lean: Props/C05.lean (the identifier is a function of the key-sorted content: invariant under the order in which metadata
was given, injective on contents up to that order — unless the uninterpreted hash collides).  Tie: correspondence of
`Model/Json.canon` with `iso_id` as an equivalence: for pairs of real isotherms, equal identifiers <=> equal canonical forms.
Failing-input search: every content is built by several routes (lists, tuples, numpy int/float arrays, tables with different
row labels / column orders, shorthands, Material objects, JSON re-parse) and in a second process with another PYTHONHASHSEED —
all identifiers must coincide; read-only calls must not change it; every single-field edit must change it.
"""
import copy
import json
import os
import subprocess
import sys

from pgv import isogen
from pgv.core import REPO, import_pygaps

ROUTES = ["default", "arrays", "tuples", "numpy", "index-shift", "index-str", "index-shuffled-labels", "column-order", "branch-column", "shorthand", "material-object"]


def edits(rng, c):
    """Single-field edits of a content, each of which must change the identifier."""
    out = []

    def ed(name, f):
        d = copy.deepcopy(c)
        f(d)
        out.append((name, d))
    ed("temperature", lambda d: d.__setitem__("temperature", d["temperature"] + 0.5))
    ed("adsorbate", lambda d: d.__setitem__("adsorbate", "helium"))
    ed("material", lambda d: d.__setitem__("material", d["material"] + "_b"))
    u = c["units"]
    ed("material_unit", lambda d: d["units"].__setitem__("material_unit", [x for x in isogen.MAT[u["material_basis"]] if x != u["material_unit"]][0]))
    if u["pressure_mode"] == "absolute":
        ed("pressure_unit", lambda d: d["units"].__setitem__("pressure_unit", [x for x in isogen.PA if x != u["pressure_unit"]][0]))
    if u["loading_basis"] in isogen.LOAD:
        ed("loading_unit", lambda d: d["units"].__setitem__("loading_unit", [x for x in isogen.LOAD[u["loading_basis"]] if x != u["loading_unit"]][0]))
    ed("metadata added", lambda d: d["meta"].__setitem__("extra_key_zz", 1))
    if c["meta"]:
        k = sorted(c["meta"], key=str)[0]
        v = c["meta"][k]
        ed("metadata value", lambda d: d["meta"].__setitem__(k, "changed" if v != "changed" else "changed2"))
        ed("metadata removed", lambda d: d["meta"].pop(k))
    if c["kind"] == "point":
        i = rng.randrange(len(c["pressure"]))
        ed("datum +2e-8", lambda d: d["loading"].__setitem__(i, d["loading"][i] + 2e-8 * max(1.0, abs(d["loading"][i]))))
        ed("pressure +1e-6", lambda d: d["pressure"].__setitem__(i, d["pressure"][i] * (1 + 1e-6) + 1e-7))
        ed("branch mark", lambda d: d["branch"].__setitem__(i, 1 - d["branch"][i]))
        if len(c["pressure"]) > 1:
            ed("point removed", lambda d: [d[k].pop() for k in ("pressure", "loading", "branch")] + [v.pop() for v in d["extra"].values()])
        if c["extra"]:
            k0 = sorted(c["extra"])[0]
            ed("extra column value", lambda d: d["extra"][k0].__setitem__(0, "zzz" if isinstance(d["extra"][k0][0], str) else d["extra"][k0][0] + 1))
    if c["kind"] == "model":
        p0 = sorted(c["model"]["params"])[0]
        ed("model parameter", lambda d: d["model"]["params"].__setitem__(p0, d["model"]["params"][p0] * (1 + 1e-9) + 1e-12))
        ed("model parameter (small magnitude)", lambda d: d["model"]["params"].__setitem__(p0, 2e-9 if d["model"]["params"][p0] != 2e-9 else 4e-9))
        ed("model rmse", lambda d: d["model"].__setitem__("rmse", d["model"]["rmse"] + 1e-6))
        ed("model range", lambda d: d["model"]["pressure_range"].__setitem__(1, d["model"]["pressure_range"][1] + 0.01))
        ed("model name", lambda d: d["model"].__setitem__("name", "Henry" if d["model"]["name"] != "Henry" else "Langmuir") or d["model"].__setitem__("params", {"K": 1.0} if d["model"]["name"] == "Henry" else {"K": 1.0, "n_m": 1.0}))
    return out


def run(ck):
    pg = import_pygaps()
    import numpy as np
    from pygaps.parsing.json import isotherm_from_json, isotherm_to_json
    rng = ck.rng
    thorough = ck.tier == "thorough"
    n = ck.n(90, 600)
    lines, plan = [], []
    second = []          # (content json, id) to be rebuilt in another process
    for i in range(n):
        c = isogen.content(rng)
        if c["kind"] == "point" and rng.random() < 0.3:
            # integer-valued data: the int-literal and float-literal routes must coincide
            c["pressure"] = [float(k + 1) for k in range(len(c["pressure"]))]
            c["loading"] = [float(2 * k) for k in range(len(c["loading"]))]
            if any(c["branch"]):
                c["pressure"] = c["pressure"]
        try:
            iso = isogen.build(pg, c)
        except Exception:
            ck.count(("build-refused", i), nontrivial=False, bucket="construction refused")
            continue
        id0 = iso.iso_id
        sig = {"class": c["kind"]}
        # ---------------------------------------------------------------- routes
        for route in ROUTES:
            if c["kind"] != "point" and route not in ("default", "shorthand", "material-object"):
                continue
            try:
                other = isogen.build(pg, c, route)
            except Exception as e:  # noqa
                ck.fail_case({**sig, "clause": "route refused", "route": route}, {"error": repr(e)[:200]})
                continue
            ck.count(("route", route, i), bucket="route:" + route, sample={"route": route, "id": id0, "content": c6short(c)} if (i % 37 == 0 and route == "index-shift") else None)
            if other.iso_id != id0 or not (other == iso):
                ck.fail_case({**sig, "clause": "same content, different identifier", "route": route}, {"ids": [id0, other.iso_id], "content": c6short(c)})
        if c["kind"] == "point" and all(float(x).is_integer() for x in c["pressure"] + c["loading"]):
            ci = copy.deepcopy(c)
            ci["pressure"] = [int(x) for x in c["pressure"]]
            ci["loading"] = [int(x) for x in c["loading"]]
            for route in ("default", "numpy", "arrays"):
                other = isogen.build(pg, ci, route)
                ck.count(("int-literals", route, i), bucket="route:int-literals")
                if other.iso_id != id0:
                    ck.fail_case({**sig, "clause": "same content, different identifier", "route": "integer literals/" + route}, {"ids": [id0, other.iso_id]})
        # JSON re-parse
        try:
            rj = isotherm_from_json(isotherm_to_json(iso))
            ck.count(("json", i), bucket="route:json")
            gd = False
            if c["kind"] == "point" and not any(c["branch"]):
                gd = any(b > a for a, b in zip(c["pressure"][1:], c["pressure"][:-1]))
            if rj.iso_id != id0:
                ck.fail_case({**sig, "clause": "same content, different identifier", "route": "parse of an export", "all_ads_marks_but_guess_differs": gd}, {"ids": [id0, rj.iso_id]})
        except Exception as e:  # noqa
            ck.fail_case({**sig, "clause": "route refused", "route": "json"}, {"error": repr(e)[:200]})
        # ---------------------------------------------------------------- reads do not change it
        try:
            if c["kind"] == "point":
                iso.pressure(); iso.loading(branch="ads"); iso.data()
                if len(c["pressure"]) > 1 and len(set(c["branch"])) == 1:
                    try:
                        iso.loading_at((c["pressure"][0] + c["pressure"][1]) / 2, branch=None)
                    except Exception:
                        pass
            iso.to_dict(); str(iso); isotherm_to_json(iso)
        except Exception:
            pass
        if iso.iso_id != id0:
            ck.fail_case({**sig, "clause": "identifier changed by read-only calls"}, {"ids": [id0, iso.iso_id]})
        # ---------------------------------------------------------------- content changed IN PLACE after the identifier has been read: the next read reflects it
        try:
            victim = isogen.build(pg, c)
            _ = victim.iso_id, victim == iso, repr(victim)
            how = None
            if c["kind"] == "point":
                victim.data_raw.loc[victim.data_raw.index[0], victim.loading_key] = float(victim.data_raw[victim.loading_key].iloc[0]) + 0.5
                how = "data value (data_raw.loc)"
                fresh_same = pg.PointIsotherm(isotherm_data=victim.data_raw.copy(), pressure_key=victim.pressure_key, loading_key=victim.loading_key, **victim.to_dict())
            elif c["kind"] == "model":
                k0 = sorted(victim.model.params)[0]
                victim.model.params[k0] = victim.model.params[k0] * 1.5
                how = "model parameter (model.params[...])"
                fresh_same = None
            elif isinstance(getattr(victim, "properties", None), dict):
                victim.properties["pgv_added"] = "x"
                how = "metadata (properties[...])"
                fresh_same = None
            if how:
                ck.count(("in-place", how, i), bucket="in-place edit:" + how)
                if victim.iso_id == id0:
                    ck.fail_case({**sig, "clause": "different content, same identifier", "edit": "in place after the identifier was read: " + how}, {"content": c6short(c)})
                elif fresh_same is not None and fresh_same.iso_id != victim.iso_id:
                    ck.fail_case({**sig, "clause": "same content, different identifier", "route": "fresh object with the content of an object edited in place"}, {"ids": [victim.iso_id, fresh_same.iso_id]})
        except Exception as e:  # noqa
            ck.count(("in-place-skip", i), nontrivial=False, bucket="in-place edit skipped: " + type(e).__name__)
        # ---------------------------------------------------------------- every single-field edit changes it
        ids_seen = {id0: "original"}
        for name, d in edits(rng, c):
            try:
                e = isogen.build(pg, d)
            except Exception:
                continue
            ck.count(("edit", name, i), bucket="edit:" + name)
            if e.iso_id == id0:
                ck.fail_case({**sig, "clause": "different content, same identifier", "edit": name}, {"content": c6short(c)})
            lines.append("canon " + json.dumps(_canon_input(pg, e)))
            plan.append((e.iso_id, i, name))
        # below the rounding threshold nothing changes
        if c["kind"] == "point":
            d = copy.deepcopy(c)
            d["loading"][0] = d["loading"][0] + 2e-10
            if round(d["loading"][0], 8) == round(c["loading"][0], 8):
                e = isogen.build(pg, d)
                ck.count(("below-threshold", i), bucket="edit:below threshold")
                if e.iso_id != id0:
                    ck.fail_case({**sig, "clause": "identifier changed below the 8-decimal threshold"}, {"value": c["loading"][0]})
        lines.append("canon " + json.dumps(_canon_input(pg, iso)))
        plan.append((id0, i, "original"))
        if i % 3 == 0:
            second.append((c, id0))
    # ------------------------------------------------------------------ another process, another PYTHONHASHSEED
    payload = json.dumps([c for c, _ in second])
    code = ("import sys, json; sys.path.insert(0, %r); sys.path.insert(0, %r); import warnings; warnings.filterwarnings('ignore');\n"
            "from pgv.core import import_pygaps; from pgv import isogen; pg = import_pygaps()\n"
            "cs = json.loads(sys.stdin.read()); out = []\n"
            "for c in cs:\n"
            "    try: out.append(isogen.build(pg, c).iso_id)\n"
            "    except Exception as e: out.append('EXC ' + repr(e)[:80])\n"
            "print(json.dumps(out))\n") % (str(REPO / "src"), os.path.join(os.path.dirname(os.path.dirname(os.path.abspath(__file__)))))
    env = dict(os.environ, PYTHONHASHSEED=str(1 + ck.seed % 1000), PGV_REPO=str(REPO))
    p = subprocess.run([sys.executable, "-c", code], input=payload, capture_output=True, text=True, env=env, timeout=900)
    try:
        ids2 = json.loads(p.stdout.strip().splitlines()[-1])
    except Exception:
        ids2 = None
        ck.broken.append({"step": "second process", "what": (p.stdout + p.stderr)[-500:]})
    if ids2:
        for (c, id0), id2 in zip(second, ids2):
            ck.count(("second-process", id0), bucket="route:second process")
            if id2 != id0:
                ck.fail_case({"class": c["kind"], "clause": "same content, different identifier", "route": "another process / PYTHONHASHSEED"}, {"ids": [id0, id2], "content": c6short(c)})
    # ------------------------------------------------------------------ correspondence: equal ids <=> equal canonical forms (within one content family)
    try:
        replies = ck.drive("Json", lines)
    except Exception as e:
        replies = None
        ck.broken.append({"step": "driver Json", "what": str(e)[:500]})
    n_dis = 0
    if replies:
        fam = {}
        for (iid, i, name), rep in zip(plan, replies):
            fam.setdefault(i, []).append((iid, name, rep))
        for i, members in fam.items():
            for a in range(len(members)):
                for b in range(a + 1, len(members)):
                    ck.count(("corr", i, a, b), nontrivial=False, bucket="correspondence")
                    if (members[a][0] == members[b][0]) != (members[a][2] == members[b][2]):
                        n_dis += 1
                        if n_dis <= 3:
                            ck.broken.append({"step": "correspondence Model/Json.canon vs iso_id", "what": {"a": members[a][1], "b": members[b][1], "ids_equal": members[a][0] == members[b][0],
                                                                                                                  "canon_a": members[a][2][:300], "canon_b": members[b][2][:300]}})
    ck.cov["correspondence_disagreements"] = n_dis
    ck.cov["rule"] = ("seeded contents (metadata-only / point / model) x construction routes {lists, tuples, numpy arrays, tables with shifted / string / reversed row labels, reversed column order, explicit branch column, "
                      "shorthand keywords, Material object, integer literals, parse of a JSON export, a second process with another PYTHONHASHSEED}; read-only calls in between; every single-field edit (temperature, adsorbate, "
                      "material, each unit label, metadata added/changed/removed, datum ±2e-8, branch mark, point removed, extra column, model parameter / rmse / range / name); distinct = distinct (content, route or edit)")
    ck.assumptions += ["md5 and pandas.util.hash_pandas_object are collision-free on the explored contents (uninterpreted H in the theorems)"]


def c6short(c):
    d = {k: v for k, v in c.items() if k not in ("pressure", "loading", "extra")}
    if "pressure" in c:
        d["n_points"] = len(c["pressure"])
    return json.loads(json.dumps(d, default=str))


def _canon_input(pg, iso):
    """Observable content in the shape the Lean driver speaks; data rounded to 8 decimals exactly as the library hashes them."""
    obs = isogen.observe(pg, iso)
    out = {"core": json.loads(json.dumps(obs["dict"], default=float))}
    if "columns" in obs:
        raw = iso.data_raw.round(8)
        names = [c for c in raw.columns if c != "branch"]
        rows = []
        for i in range(len(raw)):
            r = {k: (float(raw[k].iloc[i]) if not isinstance(raw[k].iloc[i], str) else raw[k].iloc[i]) for k in names}
            r["branch"] = int(raw["branch"].iloc[i])
            rows.append(r)
        out["rows"] = rows
    elif "model" in obs:
        out["model"] = json.loads(json.dumps(obs["model"], default=float))
    return out
